#!/usr/bin/env python3
"""Regenerates MANIFEST.json from the table below (so it is always schema-valid)."""
import json, subprocess, sys

BASELINE_OFF = "cd /repo && go test -vet=off -count=1 -timeout 25m ./..."

# id -> (level category, technique, text, note, design_ref, engine)
CHECKS = {
 "C07": ("exploration", "bounded-exhaustive enumeration of the template grammar x environment lattice against a reference evaluator (exhaustive input-space model checking of template.Substitute)",
         "Every template of the interpolation grammar up to an AST-node bound and every string over the error-side alphabet up to length 6/7 is evaluated by the real template.Substitute in every environment of the variable-state lattice and compared with a reference evaluator written from the statement; the enumeration is complete within the bounds, so a rule that is wrong for any operator/state/nesting combination within them is found.",
         "Trusted: refmodel/interp (100 lines, Appendix A.1). Nested required-errors in untaken branches are compared modulo the statement's silence.", "§4 C07", "E3 E5"),
 "C18": ("exploration", "bounded-exhaustive enumeration of env files from the line grammar and of all byte strings up to a length bound against a reference dotenv evaluator",
         "Every env file of 1..6 lines assembled from the documented line grammar (alphabet shrinking with length), with and without trailing newline and under 3 lookup functions, plus every byte string over a 12-symbol alphabet up to length 6 (7 thorough) and every distance-1 edit of the repository fixtures, is parsed by the real dotenv.ParseWithLookup and compared with a reference evaluator that classifies each input as defined / must-error / outside the documented sub-language.",
         "Trusted: refmodel/dotenvref (Appendix A.2) and refmodel/interp. Inputs the statement does not define are checked for no-panic and map-xor-error only.", "§4 C18", "E3 E5"),
 "C02": ("model_checking", "stateless exploration of the implementation's map-iteration nondeterminism (runtime overlay owns hash seeds and every mapiterinit start; all executions with <=1 dynamic / <=1 site deviation and all uniform rotations), plus exhaustive declaration-order permutations and load histories",
         "Go's map randomness is the scheduler here: a patched runtime (build overlay, no source hooks) lets the harness answer every map-iteration start in compose-go, yaml.v3, mapstructure, reflect. For every corpus input the check runs the canonical execution, every uniform rotation, every execution deviating at one dynamic iteration point, and every execution deviating at all instances of one iteration site with every bucket/offset start, and demands identical outcome class, deep-equal project and byte-identical YAML/JSON. Declaration-order permutations of the YAML text and every history of <=2 earlier loads (fresh subprocess each) are enumerated too.",
         "Trusted: the runtime patch (engine/mapctl, checked by anchors against go1.23.5) and the replay check (canonical run twice, identical point count and output). Orders needing >=2 independent deviations are outside the bound.", "§3 E2, §4 C02", "E2 E5"),
 "C13": ("model_checking", "stateless model checking of the real traversal code under a controlled scheduler: DFS over all schedules with iterative preemption bounding, all ready select branches, happens-before state caching; ThreadSanitizer active inside every explored schedule",
         "graph/traversal.go, types/project.go and the errgroup sources are rewritten syntactically at check time (build overlay, /repo untouched) so that every mutex, channel, select, WaitGroup, Once and go statement is a scheduling point of engine E1. For every DAG up to isomorphism on <=4 services x direction x concurrency limit x root selection x error injection, every schedule within the preemption bound (2 for <=3 services, 1 for 4 in the quick tier; 3/2 thorough) is executed and 8 monitors are evaluated on its event log (exactly-once, order, limit, return-after-visits, no leaked goroutine, error propagation, project unchanged, data-race freedom); every cyclic digraph on <=4 nodes must be refused without a visit. A deadlock is 'no enabled thread'.",
         "Trusted: engine/vsched (scheduler, shims and their race annotations, unit-tested incl. under -race), engine/instrument (syntactic rewrite), the visitor model {enter; yield; exit}. Bugs needing more preemptions than the bound are outside it.", "§3 E1, §4 C13", "E1 E2 E5"),
 "C19": ("model_checking", "stateless model checking under the controlled scheduler with ThreadSanitizer inside each schedule: all pairs of concurrent loads (preemptible at every access to a mutable package-level variable) and all schedules of the service fan-out up to the preemption bound",
         "(a) every ordered pair of 11 corpus inputs is loaded by two controlled threads; the instrumenter inserts a scheduling point before every statement touching a package-level variable that is assigned outside init, so a load can be preempted exactly where cross-load shared state is touched; baton hand-offs are hidden from ThreadSanitizer, so unsynchronised conflicting accesses are reported on the schedule that separates them; results are compared with the load run alone. (b) WithServicesTransform on 0..4 services x error injection at every subset of <=2 services x every schedule within the bound: deadlock, leaked goroutine, wrong/partial result, wrong error, receiver modified, data race.",
         "Trusted: as C13, plus the patched sync.Pool (drops items under -race so pooled objects do not order threads). Real synchronisation in uninstrumented third-party code can still mask a race between two loads.", "§3 E1, §4 C19", "E1 E2 E5"),
 "C14": ("model_checking", "explicit-state BFS over operation sequences, each transition executed by the real derivation method on a reflection-populated project; invariants (receiver unchanged, no shared mutable state, footprint) checked in every transition",
         "Initial states: a project in which reflection made every field of every model type non-zero (so new fields are covered automatically) and two loaded corpus projects. Transitions: 40 operation x argument combinations (profiles, enable, disable, select x 3 policies, prune, images, environment, labels, transform with a mutating callback, ForEachService with a mutating visitor, YAML/JSON rendering with and without secret content). BFS to depth 2 (3 thorough, each transition also under 8 map-iteration rotations) with canonical state hashing. Oracles per transition: receiver reflect.DeepEqual to a reflective snapshot; no map, slice backing array or pointer reachable from both result and receiver (Extensions payloads exempt); every top-level field outside the operation's footprint equal.",
         "Trusted: reflection walkers in props/reflectutil.go. Aliasing through unexported state of third-party types is not inspected.", "§4 C14", "E3 E5"),
 "C15": ("model_checking", "explicit-state BFS over selection-operation sequences from every small project, each transition executed by the real method and checked against a set-based reference relation; repeated under map-iteration rotations",
         "Initial states: every project on <=3 services with profile sets over {p,q} and every DAG with absent/required/optional edges (1780 projects), with networks/volumes/secrets/build secrets/configs referenced by subsets of services. Transitions: 8 WithProfiles arguments, WithServicesEnabled/Disabled over empty/singletons/pairs of names+unknown, WithSelectedServices likewise x 3 policies, pruning (62-ish per state). BFS to depth 3 (2 for 3 services; 5/3 thorough), canonical state = partition + depends_on + profile set + resource names. Every transition: partition invariants, the operation's reference relation (Appendix A.3), and deep-equal results under the map-iteration rotations.",
         "Trusted: the reference relation in props/c15.go. Initial states are profile-consistent (profile-bearing services start disabled, as after a load).", "§4 C15, App. A.3", "E2 E3 E5"),
 "C09": ("exploration", "bounded-exhaustive enumeration of documents over the schema's attribute set (every attribute singly, every boolean leaf flipped, every numeric leaf zeroed, full documents, multi-file inputs) x load option variants, each driven through render -> reload -> compare -> re-render on the real code",
         "Every service attribute of the schema is set in one of three full corpus documents (310 of 325 model fields are non-zero, measured by reflection; the rest are listed in the evidence). From them the check derives one document per attribute (and per second-level attribute of the nested blocks), one per boolean leaf flipped and one per numeric leaf zeroed, adds multi-file override/extends/include/profile inputs, loads each under normalisation {on,off} x path resolution {on,off}, renders YAML and JSON, reloads each rendering with the same directory/environment/name/options, compares name/services/networks/volumes/secrets/configs/extensions with go-cmp and requires the second rendering to be byte-identical.",
         "Trusted: go-cmp with EquateEmpty as the equality of the statement. Values outside the enumerated domains (e.g. strings needing YAML quoting beyond those in the corpus) are not covered.", "§4 C09", "E3 E5"),
 "C20": ("exploration", "bounded-exhaustive enumeration of secret/config models (all source-kind vectors, canary shapes, reference patterns, delivery routes) x all rendering histories up to length 2/3 x derived and reloaded projects, each output searched for every canary",
         "Every vector of source kinds for 1..3 secrets and 1..2 configs with at least one environment-sourced object, with unique canary values of 9 YAML-hostile shapes, referenced by a service, a build or nothing, delivered by the main file, an override or an include, is loaded; then every history of <=2 (3 thorough) renderings over {YAML, JSON} x {default, with secret content} is executed on the loaded project, on 6 derived projects and on the reloaded default rendering. Oracle per rendering: no canary (raw, per line, JSON/YAML-escaped) in default output; environment-sourced configs render their variable; with-content output decodes to exactly the canary; Content is on the project; the project is unchanged (including its behaviour in a later default rendering).",
         "Trusted: substring search over raw / JSON-escaped / per-line forms as the definition of a leak.", "§4 C20", "E3 E5"),
 "C16": ("fault_enumeration", "exhaustive enumeration of the layer lattice (key in every subset of layers x spelling x discard), cross-reference placements and every present/absent x required/optional state vector of the env files, against a layering reference",
         "A key is placed in every subset of {project environment, env_file 1..3} combined with every form of `environment` entry (none, value, empty, valueless) in list and mapping spelling, with discard on and off (256 loads); a value ${B} in env file 2 with B defined in exactly one of project environment / earlier file / earlier line / later file / nowhere; all 27 {present, absent-required, absent-optional} vectors of three env files (error must name a missing required file, optional ones are ignored); the same lattice for label_file 1..2 x labels. Each case runs the real loader and is compared with the precedence the statement gives.",
         "Trusted: the reference precedence coded in props/c16.go. Outcomes the statement leaves open are not asserted.", "§4 C16", "E3 E4 E5"),
 "C17": ("exploration", "exhaustive enumeration of the configuration lattice (name sources x environment layers x option orders) through the real cli/loader entry points against a precedence reference",
         "The full product of explicit name (unset / valid / 2 invalid) x COMPOSE_PROJECT_NAME source (absent, WithEnv, OS, .env; valid or invalid) x `name:` placement over two files and a second document x name text (literal, ${VAR} set/unset, mixed case, normalising to empty) x directory base name (5 shapes) is loaded through cli.NewProjectOptions + LoadProject (2,800 loads); a variable is defined in every non-empty subset of {WithEnv, OS, .env #1, .env #2} under all 8 documented option orders, observed directly and through a ${V} reference written in .env #2. Oracle: the precedence chains of the statement, name shape, visibility as COMPOSE_PROJECT_NAME, rejection of invalid explicit/environment names.",
         "Trusted: the reference chains in props/c17.go (Appendix A.4); cases the statement leaves open are not asserted.", "§4 C17, App. A.4", "E3 E4 E5"),
 "C10": ("exploration", "exhaustive enumeration of minimal rule violations x delivery routes and of all small cyclic dependency digraphs, with an independent invariant checker on every accepted project",
         "A valid family (a 3-service model with one resource of each kind, all corpus documents, the positive boundary of every agreement rule) must load and satisfy an independent checker written over the typed project. For each of 34 rule violations (7 kinds of dangling reference incl. build secrets, service: namespaces, links, volumes_from; every exclusive pair; external volume with each creation parameter; secret/config with none, each pair and all sources; every disagreeing pair; container_name with scale or replicas > 1) the violating fragment is delivered through the main file, an override file, an included file and (service-level rules) an extended base: each must yield an error and no project. Every labelled depends_on digraph on <=3 services and every 7th on 4 (all on 4 in the thorough tier) must be accepted iff it is acyclic.",
         "Trusted: props.c10consistent as the meaning of 'referentially consistent'.", "§4 C10", "E3 E5"),
 "C11": ("exploration", "bounded-exhaustive enumeration of implicit/explicit subsets of the default-able facts x origins, differential against the all-explicit model on the real loader",
         "20 default-able facts of the statement, each on its own service: every subset of <=3 facts left implicit and every subset of <=3 written explicitly (thorough: all 2^14 subsets of the first 14) is loaded from the main file, an override file and an included file and must equal the all-explicit model (go-cmp on the whole project). For every fact an explicit non-default value must survive (incl. a declared depends_on entry next to links / service: namespaces / volumes_from in both plain and suffixed spelling); the `default` network must be present iff some service uses it (all 8 usage patterns of 3 services).",
         "Trusted: the explicit spelling of each default in props/c11.go, taken from the statement.", "§4 C11", "E3 E5"),
 "C12": ("exploration", "bounded-exhaustive enumeration of path attribute x path shape x origin x working-directory shape, against an anchoring reference; non-path positions and idempotence checked differentially",
         "10 path-bearing attribute kinds x 13 path shapes x 7 origins (main, override, include depth 1 and 2, extended base in another directory, extended base used from an included file, one base shared by the main project and an included project) x 3 working-directory shapes, resolution on (and off for main/override): the loaded value must be exactly what the reference of Appendix A.5 gives (absolute, URL-like for build contexts, Windows-absolute for mounts and secret/config files left alone; ~ expanded; everything else joined with the directory of the file it came from). `./p` placed in 14 non-path positions must never be anchored; re-resolving the rendered model must change nothing.",
         "Trusted: the reference in props/c12.go. HOME set; relative working directory not exercised.", "§4 C12, App. A.5", "E3 E4 E5"),
 "C03": ("exploration", "bounded-exhaustive enumeration of short-form grammars (complete products over stated domains) differentially against reference long forms on the real loader, alone and as the base of an override; near misses must be rejected",
         "The port grammar (4 IPs x 5 host forms x 3 container forms x 4 protocols, bare integers), the volume grammar (9 sources x 3 targets x all mode sets of <=2 from 8), devices, secrets/configs by name, build/extends/healthcheck strings, env_file and label_file spellings, depends_on and networks lists, external {name}, KEY[=VALUE] lists vs mappings with 8 value kinds at 7 positions, string-or-list positions, command/entrypoint strings over all sequences of <=3 quoted/escaped words, durations and byte sizes are enumerated completely; each short form is loaded next to the long form produced by a reference expander written from the Compose grammar and the two projects are compared with go-cmp; 17 override scenarios check that short and long bases merge alike; near misses of every grammar must yield an error.",
         "Trusted: the reference expanders in props/c03.go. Undefined combinations are totality-only. Port lists compared as sets; nil and pointer-to-empty optional blocks identified.", "§4 C03", "E3 E5"),
}

NOT_YET = {}

def main():
    props = [json.loads(l) for l in open('/verif/properties.jsonl')]
    checks = []
    na = []
    for p in props:
        pid = p['id']
        if pid in CHECKS:
            cat, tech, text, note, ref, eng = CHECKS[pid]
            checks.append({
                "property_id": pid,
                "quick_cmd": f"./check.sh {pid} quick",
                "thorough_cmd": f"./check.sh {pid} thorough",
                "evidence_file": f"/verif/evidence/{pid}.json",
                "replay_cmd_template": f"./check.sh {pid} --replay {{path}}",
                "engine": eng,
                "level_claimed": {"category": cat, "text": text, "design_ref": ref},
                "level_note": note,
                "technique": tech,
            })
        else:
            na.append({"property_id": pid, "reason": NOT_YET.get(pid, "check not built yet in this revision of /verif (planned, see DESIGN.md §4); not claimed until it runs")})
    m = {
        "version": 1,
        "setup_cmd": "./setup.sh",
        "hooks": {
            "guard": "verif",
            "enable": "no source hooks in /repo: instrumentation is generated at check time as go build -overlay files from /repo's current sources (./build.sh)",
            "baseline_off_cmd": BASELINE_OFF,
            "source_commits": [],
            "add_only": True,
        },
        "engines": [
            {"name": "E2 mapctl", "path": "engine/mapctl", "serves_properties": ["C02"], "kind_free_text": "go build -overlay of runtime/map*.go, rand.go, alg.go: pins hash seeds, answers every map iteration start from the harness; stateless exploration of iteration-order choice vectors"},
            {"name": "E1 vsched", "path": "engine/vsched + engine/instrument", "serves_properties": ["C13", "C19"], "kind_free_text": "controlled cooperative scheduler with channel/select/sync/atomic/errgroup shims put in place by a syntactic source rewriter (go build -overlay); stateless DFS with iterative preemption bounding, HB state caching, deadlock detection, in-schedule ThreadSanitizer"},
            {"name": "E5 workers", "path": "harness/core", "serves_properties": sorted(CHECKS), "kind_free_text": "crash-containing sharded worker processes, parent merges outcomes, known-findings classification, replay artefacts"},
        ],
        "checks": checks,
        "not_applicable": na,
        "notes": "All checks rebuild the harness against /repo's working tree (./build.sh). Exit 2 = infrastructure error (never a VIOLATION).",
    }
    json.dump(m, open('/verif/MANIFEST.json', 'w'), indent=1)
    print("MANIFEST.json:", len(checks), "checks,", len(na), "not claimed")

main()
