#!/usr/bin/env python3
"""Regenerates MANIFEST.json from the table below (so it is always schema-valid)."""
import json, subprocess, sys

BASELINE_OFF = "cd /repo && go test -vet=off -count=1 -timeout 25m ./..."

# id -> (level category, technique, text, note, design_ref, engine)
CHECKS = {
 "C07": ("exploration", "bounded-exhaustive enumeration of the template grammar x environment lattice against a reference evaluator (exhaustive input-space model checking of template.Substitute)",
         "Every template of the interpolation grammar up to an AST-node bound and every string over the error-side alphabet up to length 6/7 is evaluated by the real template.Substitute in every environment of the variable-state lattice and compared with a reference evaluator written from the statement; the enumeration is complete within the bounds, so a rule that is wrong for any operator/state/nesting combination within them is found.",
         "Trusted: refmodel/interp (100 lines, Appendix A.1). Nested required-errors in untaken branches are compared modulo the statement's silence.", "§4 C07", "E3 E5"),
 "C18": ("exploration", "bounded-exhaustive enumeration of env files from the line grammar and of all byte strings up to a length bound against a reference dotenv evaluator",
         "Every env file of 1..6 lines assembled from the documented line grammar (alphabet shrinking with length), with and without trailing newline and under 3 lookup functions, plus every byte string over a 12-symbol alphabet up to length 6 (7 thorough) and every distance-1 edit of the repository fixtures, is parsed by the real dotenv.ParseWithLookup and compared with a reference evaluator that classifies each input as defined / must-error / outside the documented sub-language.",
         "Trusted: refmodel/dotenvref (Appendix A.2) and refmodel/interp. Inputs the statement does not define are checked for no-panic and map-xor-error only.", "§4 C18", "E3 E5"),
}

NOT_YET = {}

def main():
    props = [json.loads(l) for l in open('/verif/properties.jsonl')]
    checks = []
    na = []
    for p in props:
        pid = p['id']
        if pid in CHECKS:
            cat, tech, text, note, ref, eng = CHECKS[pid]
            checks.append({
                "property_id": pid,
                "quick_cmd": f"./check.sh {pid} quick",
                "thorough_cmd": f"./check.sh {pid} thorough",
                "evidence_file": f"/verif/evidence/{pid}.json",
                "replay_cmd_template": f"./check.sh {pid} --replay {{path}}",
                "engine": eng,
                "level_claimed": {"category": cat, "text": text, "design_ref": ref},
                "level_note": note,
                "technique": tech,
            })
        else:
            na.append({"property_id": pid, "reason": NOT_YET.get(pid, "check not built yet in this revision of /verif (planned, see DESIGN.md §4); not claimed until it runs")})
    m = {
        "version": 1,
        "setup_cmd": "./setup.sh",
        "hooks": {
            "guard": "verif",
            "enable": "no source hooks in /repo: instrumentation is generated at check time as go build -overlay files from /repo's current sources (./build.sh)",
            "baseline_off_cmd": BASELINE_OFF,
            "source_commits": [],
            "add_only": True,
        },
        "engines": [
            {"name": "E5 workers", "path": "harness/core", "serves_properties": sorted(CHECKS), "kind_free_text": "crash-containing sharded worker processes, parent merges outcomes, known-findings classification, replay artefacts"},
        ],
        "checks": checks,
        "not_applicable": na,
        "notes": "All checks rebuild the harness against /repo's working tree (./build.sh). Exit 2 = infrastructure error (never a VIOLATION).",
    }
    json.dump(m, open('/verif/MANIFEST.json', 'w'), indent=1)
    print("MANIFEST.json:", len(checks), "checks,", len(na), "not claimed")

main()
