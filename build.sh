#!/bin/bash
# ./build.sh <flavour> <out>   build the harness against /repo's current working tree
set -eu
cd /verif
. ./env.sh
flavour=$1; out=$(realpath -m "$2")
cp /repo/go.sum /verif/harness/go.sum
cd /verif/harness
case "$flavour" in
  plain)
    [ -f /verif/.build/mapctl/overlay.json ] || python3 /verif/engine/mapctl/gen.py /verif/.build/mapctl
    go build -overlay /verif/.build/mapctl/overlay.json -tags mapctl -o "$out" ./cmd/vcheck ;;
  sched)
    [ -f /verif/.build/mapctl/overlay.json ] || python3 /verif/engine/mapctl/gen.py /verif/.build/mapctl
    (cd /verif/engine/instrument && go build -o /verif/.build/instrument .)
    syncver=$(awk '$1=="golang.org/x/sync"{print $2}' /repo/go.mod)
    eg=$(go env GOMODCACHE)/golang.org/x/sync@$syncver/errgroup
    rm -rf /verif/.build/instr; mkdir -p /verif/.build/instr
    pkgdirs=$(cd /repo && find . -name '*.go' -not -name '*_test.go' -not -path './cmd/*' -not -path './verifshim/*' -printf '%h\n' | sort -u | sed 's|^\.|/repo|')
    /verif/.build/instrument -out /verif/.build/instr -overlay /verif/.build/instr/overlay.json \
        -merge /verif/.build/mapctl/overlay.json \
        -virtual /repo/verifshim/errgroup=$eg/errgroup.go,$eg/go120.go \
        -globals "$(echo $pkgdirs | tr ' ' ',')" $pkgdirs
    go build -race -overlay /verif/.build/instr/overlay.json -tags "mapctl sched" -o "$out" ./cmd/vcheck ;;
  *) echo "unknown flavour $flavour"; exit 2 ;;
esac
