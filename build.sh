#!/bin/bash
# ./build.sh <flavour> <out>   build the harness against /repo's current working tree
set -eu
cd /verif
. ./env.sh
flavour=$1; out=$2
cp /repo/go.sum /verif/harness/go.sum
cd /verif/harness
case "$flavour" in
  plain)
    [ -f /verif/.build/mapctl/overlay.json ] || python3 /verif/engine/mapctl/gen.py /verif/.build/mapctl
    go build -overlay /verif/.build/mapctl/overlay.json -tags mapctl -o "$out" ./cmd/vcheck ;;
  *) echo "unknown flavour $flavour"; exit 2 ;;
esac
