#!/bin/bash
# ./build.sh <flavour> <out>   build the harness against the compose-go working tree
# (/repo; VERIF_REPO=<dir> builds against a scratch copy instead -- used by tools/selftest.sh only)
set -eu
cd /verif
. ./env.sh
flavour=$1; out=$(realpath -m "$2")
REPO=${VERIF_REPO:-/repo}
BUILD=/verif/.build
MODFLAG=""
if [ "$REPO" != /repo ]; then
  BUILD=/verif/.build/alt-$(echo "$REPO" | md5sum | cut -c1-8)
  mkdir -p $BUILD
  sed "s|=> /repo|=> $REPO|" /verif/harness/go.mod > $BUILD/go.mod
  cp $REPO/go.sum $BUILD/go.sum
  MODFLAG="-modfile=$BUILD/go.mod"
else
  cp /repo/go.sum /verif/harness/go.sum
fi
cd /verif/harness
[ -f /verif/.build/mapctl/overlay.json ] || python3 /verif/engine/mapctl/gen.py /verif/.build/mapctl
case "$flavour" in
  plain)
    go build $MODFLAG -overlay /verif/.build/mapctl/overlay.json -tags mapctl -o "$out" ./cmd/vcheck ;;
  sched)
    (cd /verif/engine/instrument && go build -o /verif/.build/instrument .)
    syncver=$(awk '$1=="golang.org/x/sync"{print $2}' $REPO/go.mod)
    eg=$(go env GOMODCACHE)/golang.org/x/sync@$syncver/errgroup
    rm -rf $BUILD/instr; mkdir -p $BUILD/instr
    pkgdirs=$(cd $REPO && find . -name '*.go' -not -name '*_test.go' -not -path './cmd/*' -not -path './verifshim/*' -printf '%h\n' | sort -u | sed "s|^\.|$REPO|")
    /verif/.build/instrument -out $BUILD/instr -overlay $BUILD/instr/overlay.json \
        -merge /verif/.build/mapctl/overlay.json \
        -virtual $REPO/verifshim/errgroup=$eg/errgroup.go,$eg/go120.go \
        -globals "$(echo $pkgdirs | tr ' ' ',')" $pkgdirs
    go build $MODFLAG -race -overlay $BUILD/instr/overlay.json -tags "mapctl sched" -o "$out" ./cmd/vcheck ;;
  *) echo "unknown flavour $flavour"; exit 2 ;;
esac
