#!/bin/bash
# ./build.sh <flavour> <out>   build the harness against /repo's current working tree
set -eu
cd /verif
. ./env.sh
flavour=$1; out=$2
cp /repo/go.sum /verif/harness/go.sum
cd /verif/harness
case "$flavour" in
  plain)
    go build -o "$out" ./cmd/vcheck ;;
  *) echo "unknown flavour $flavour"; exit 2 ;;
esac
