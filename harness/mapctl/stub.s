// empty assembly file: allows body-less linkname declarations in this package
