//go:build mapctl

// Package mapctl is the harness-side API of engine E2 (see /verif/engine/mapctl).
// It is only meaningful in binaries built with the runtime overlay.
package mapctl

import _ "unsafe"

//go:linkname verifMapCtl runtime.verifMapCtl
func verifMapCtl(op int, a, b, c uintptr) uintptr

// Present reports that the runtime overlay is linked in.
func Present() bool { return verifMapCtl(5, 0, 0, 0) == 1 }

// R builds an iteration-start word: bucket (masked by the map's B at use) and in-bucket offset.
// The runtime computes startBucket = r & (2^B-1), offset = (r >> B) & 7; with bucket 0 the
// offset is simply r>>B, so for a given B use RFor.
func RFor(b uint8, bucket uintptr, off uintptr) uintptr { return (off << b) | (bucket & (1<<b - 1)) }

// SetUniform makes every non-deviating iteration start at offset off of bucket 0
// for maps with B == 0; for larger maps the start is (off<<B)-derived, still deterministic.
func SetUniform(r uintptr) { verifMapCtl(0, r, 0, 0) }

// Begin starts counting iteration points (maps with >= 2 entries).
// mode 0: no deviation; mode 1: the at-th point uses r; mode 2: every point at caller pc `at` uses r.
func Begin(mode int, at uintptr, r uintptr) { verifMapCtl(1, uintptr(mode), at, r) }

// End stops counting and returns the number of points seen.
func End() int { return int(verifMapCtl(2, 0, 0, 0)) }

// Point describes a recorded iteration point.
type Point struct {
	PC    uintptr
	Count int
	B     uint8
}

// Log returns recorded point i of the last Begin..End section.
func Log(i int) Point {
	pc := verifMapCtl(3, uintptr(i), 0, 0)
	cb := verifMapCtl(4, uintptr(i), 0, 0)
	return Point{PC: pc, Count: int(cb >> 8), B: uint8(cb & 0xff)}
}

const LogCap = 1 << 17
