//go:build !mapctl

package mapctl

// Stubs for binaries built without the runtime overlay.

func Present() bool                                  { return false }
func RFor(b uint8, bucket uintptr, off uintptr) uintptr { return 0 }
func SetUniform(r uintptr)                           {}
func Begin(mode int, at uintptr, r uintptr)          {}
func End() int                                       { return 0 }

type Point struct {
	PC    uintptr
	Count int
	B     uint8
}

func Log(i int) Point { return Point{} }

const LogCap = 1 << 17
