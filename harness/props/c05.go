package props

import (
	"fmt"
	"path/filepath"
	"sort"
	"strings"

	"github.com/compose-spec/compose-go/v2/types"

	"verifh/core"
	"verifh/mapctl"
)

func init() { core.Register(c05{}) }

type c05 struct{}

func (c05) ID() string    { return "C05" }
func (c05) Level() string { return "exploration" }
func (c05) Rule() string {
	return "target service decomposed into chains of 1..3 bases (4 thorough) x every assignment of link kinds {same file, other file same directory, other file in a sub-directory, other file in a sibling directory, back to the main file} x naming {distinct names, base named like the extending service where files differ} x file references {relative; all absolute} x own attributes of the most derived service {plain; tagged !override / !reset} x placement of each of 7 attributes (scalar, KEY=VALUE, plain sequence, wholesale command, build context, env_file, bind volume) on every non-empty subset of chain positions (one attribute varied at a time, and all together); every declaration-order permutation of same-file services and 8 uniform map-iteration rotations; a base naming three dependencies / networks in the short list spelling with ONE of them refined by the extending service (the others keep their defaults); sibling services sharing a base; four leaves sharing an intermediate service that extends a root (same / other file), each level adding 0..5 entries to one of 4 sequence attributes, under 8 rotations; all cyclic chains of length 1..4 over same/other file, and those of length 1..3 with the file of every edge spelled in 6 ways (relative, bare, through another directory, absolute, absolute not canonical; uniform and mixed) and same-file edges naming their own file; missing base service and missing file. Oracle: flattening reference (most derived wins, keys merge, sequences append base-first, paths anchored on the directory of the file that wrote them), no extends left, errors for cycles/missing. distinct = distinct (chain shape, placement) pairs"
}
func (c05) Assumptions() []string {
	return []string{"reference flattening in props/c05.go follows the override rules of the statement for the 7 attribute kinds used"}
}

var c05attrs = []string{"hostname", "environment", "security_opt", "command", "build.context", "env_file", "volumes", "logging.options"}

type c05chain struct {
	links []int // kind of link i: position i extends position i+1; 0 same file, 1 other file same dir, 2 sub-dir, 3 sibling dir, 4 back to the main file
	same  bool  // base named like the extending service where the link crosses files
	abs   bool  // cross-file references written as absolute paths (<ROOT> is replaced once the scenario directory exists)
	tags  bool  // the most derived service tags two of its own attributes: security_opt !override, hostname !reset
}

// layout computes, for each chain position, its file (relative to root) and service name.
func (ch c05chain) layout() (files []string, names []string) {
	n := len(ch.links) + 1
	files = make([]string, n)
	names = make([]string, n)
	files[0] = "proj/compose.yaml"
	names[0] = "s0"
	for i := 0; i < len(ch.links); i++ {
		dir := filepath.Dir(files[i])
		switch ch.links[i] {
		case 0:
			files[i+1] = files[i]
		case 1:
			files[i+1] = filepath.Join(dir, fmt.Sprintf("f%d.yaml", i+1))
		case 2:
			files[i+1] = filepath.Join(dir, fmt.Sprintf("sub%d", i+1), fmt.Sprintf("f%d.yaml", i+1))
		case 4:
			// back to the main file (the chain left it earlier): legal, not a cycle, the names differ
			files[i+1] = files[0]
		case 3:
			// a sibling directory whose name starts with this directory's name (proj -> proj-lib1): a sibling, not a child
			files[i+1] = filepath.Join(filepath.Dir(dir), fmt.Sprintf("%s-lib%d", filepath.Base(dir), i+1), fmt.Sprintf("f%d.yaml", i+1))
		}
		names[i+1] = fmt.Sprintf("s%d", i+1)
		if ch.same && ch.links[i] != 0 && ch.links[i] != 4 {
			names[i+1] = names[i]
		}
	}
	return
}

// c05build renders the scenario: carries[attr] is the set (bitmask) of positions carrying the attribute.
func c05build(ch c05chain, carries map[string]uint, perm []int) (*Scn, map[string][]string) {
	files, names := ch.layout()
	n := len(files)
	bodies := map[string][]string{} // file -> service blocks (in declaration order)
	order := make([]int, n)
	for i := range order {
		order[i] = i
	}
	if perm != nil {
		order = perm
	}
	for _, i := range order {
		var sb strings.Builder
		fmt.Fprintf(&sb, "  %s:\n    image: img%d\n", names[i], i)
		if i < n-1 {
			if files[i+1] == files[i] {
				fmt.Fprintf(&sb, "    extends: {service: %s}\n", names[i+1])
			} else {
				rel, _ := filepath.Rel(filepath.Dir(files[i]), files[i+1])
				if !strings.HasPrefix(rel, ".") {
					rel = "./" + rel
				}
				if ch.abs {
					rel = "<ROOT>/" + files[i+1]
				}
				fmt.Fprintf(&sb, "    extends: {file: %s, service: %s}\n", rel, names[i+1])
			}
		}
		has := func(a string) bool { return carries[a]&(1<<uint(i)) != 0 }
		if has("hostname") {
			if ch.tags && i == 0 {
				sb.WriteString("    hostname: !reset null\n")
			} else {
				fmt.Fprintf(&sb, "    hostname: h%d\n", i)
			}
		}
		if has("environment") {
			fmt.Fprintf(&sb, "    environment: {K%d: v%d, SHARED: s%d}\n", i, i, i)
		}
		if has("security_opt") {
			if ch.tags && i == 0 {
				fmt.Fprintf(&sb, "    security_opt: !override [opt%d]\n", i)
			} else {
				fmt.Fprintf(&sb, "    security_opt: [opt%d]\n", i)
			}
		}
		if has("command") {
			fmt.Fprintf(&sb, "    command: [cmd%d]\n", i)
		}
		if has("build.context") {
			fmt.Fprintf(&sb, "    build: {context: ./ctx%d}\n", i)
		}
		if has("env_file") {
			fmt.Fprintf(&sb, "    env_file:\n      - {path: ./e%d.env, required: false}\n", i)
		}
		if has("volumes") {
			fmt.Fprintf(&sb, "    volumes: [\"./d%d:/t%d\"]\n", i, i)
		}
		if has("logging.options") {
			// a nested mapping merged key by key: every position contributes its own key
			fmt.Fprintf(&sb, "    logging:\n      driver: json-file\n      options: {k%d: v%d}\n", i, i)
		}
		bodies[files[i]] = append(bodies[files[i]], sb.String())
	}
	scnFiles := map[string]string{}
	for f, bs := range bodies {
		scnFiles[f] = "services:\n" + strings.Join(bs, "")
	}
	return &Scn{Files: scnFiles, Main: []string{"proj/compose.yaml"}, WD: "proj"}, bodies
}

// c05expect computes the flattened expectation for service s0.
type c05exp struct {
	hostname string
	env      map[string]string
	secopt   []string
	command  []string
	context  string
	envFiles []string
	volumes  map[string]string // target -> source
	logopts  map[string]string
	image    string
}

func c05expect(ch c05chain, carries map[string]uint, root string) c05exp {
	return c05expectAt(ch, carries, root, 0)
}

// c05expectAt: the flattened expectation for the service at chain position from (it inherits positions > from).
func c05expectAt(ch c05chain, carries map[string]uint, root string, from int) c05exp {
	files, _ := ch.layout()
	n := len(files)
	e := c05exp{env: map[string]string{}, volumes: map[string]string{}, logopts: map[string]string{}, image: fmt.Sprintf("img%d", from)}
	has := func(a string, i int) bool { return carries[a]&(1<<uint(i)) != 0 }
	// base-most first, most derived last
	for i := n - 1; i >= from; i-- {
		dir := filepath.Join(root, filepath.Dir(files[i]))
		if has("hostname", i) {
			e.hostname = fmt.Sprintf("h%d", i)
		}
		if has("environment", i) {
			e.env[fmt.Sprintf("K%d", i)] = fmt.Sprintf("v%d", i)
			e.env["SHARED"] = fmt.Sprintf("s%d", i)
		}
		if has("security_opt", i) {
			e.secopt = append(e.secopt, fmt.Sprintf("opt%d", i))
		}
		if has("command", i) {
			e.command = []string{fmt.Sprintf("cmd%d", i)}
		}
		if has("build.context", i) {
			e.context = filepath.Join(dir, fmt.Sprintf("ctx%d", i))
		}
		if has("env_file", i) {
			e.envFiles = append(e.envFiles, filepath.Join(dir, fmt.Sprintf("e%d.env", i)))
		}
		if has("volumes", i) {
			e.volumes[fmt.Sprintf("/t%d", i)] = filepath.Join(dir, fmt.Sprintf("d%d", i))
		}
		if has("logging.options", i) {
			e.logopts[fmt.Sprintf("k%d", i)] = fmt.Sprintf("v%d", i)
		}
	}
	if ch.tags && from == 0 {
		// own attributes are applied by the override rules: !override replaces what the bases gave, !reset removes it
		if has("security_opt", 0) {
			e.secopt = []string{"opt0"}
		}
		if has("hostname", 0) {
			e.hostname = ""
		}
	}
	return e
}

func c05compare(p *types.Project, e c05exp) string { return c05compareSvc(p, "s0", e) }

// c05compareAll checks every chain member that lives in the main file (bases must not be altered by their extenders).
func c05compareAll(p *types.Project, ch c05chain, carries map[string]uint, root string) string {
	files, names := ch.layout()
	seen := map[string]bool{}
	for j := range files {
		if files[j] != files[0] || seen[names[j]] {
			continue
		}
		seen[names[j]] = true
		if msg := c05compareSvc(p, names[j], c05expectAt(ch, carries, root, j)); msg != "" {
			if j == 0 {
				return msg
			}
			return fmt.Sprintf("%s [base service %s at chain position %d, after being extended]", msg, names[j], j)
		}
	}
	return ""
}

func c05compareSvc(p *types.Project, svcName string, e c05exp) string {
	s, ok := p.Services[svcName]
	if !ok {
		return "service " + svcName + " missing"
	}
	if s.Extends != nil {
		return "extends attribute left on the resolved service"
	}
	if s.Image != e.image {
		return "image: " + s.Image + " (the service's own image must win)"
	}
	lo := map[string]string{}
	if s.Logging != nil {
		for k, v := range s.Logging.Options {
			lo[k] = v
		}
	}
	if fmt.Sprint(lo) != fmt.Sprint(e.logopts) {
		return fmt.Sprintf("logging.options %v, expected %v", lo, e.logopts)
	}
	if s.Hostname != e.hostname {
		return fmt.Sprintf("hostname %q, expected %q", s.Hostname, e.hostname)
	}
	got := map[string]string{}
	for k, v := range s.Environment {
		if v != nil {
			got[k] = *v
		}
	}
	if fmt.Sprint(got) != fmt.Sprint(e.env) {
		return fmt.Sprintf("environment %v, expected %v", got, e.env)
	}
	if strings.Join(s.SecurityOpt, ",") != strings.Join(e.secopt, ",") {
		return fmt.Sprintf("security_opt %v, expected %v", s.SecurityOpt, e.secopt)
	}
	if strings.Join(s.Command, ",") != strings.Join(e.command, ",") {
		return fmt.Sprintf("command %v, expected %v", s.Command, e.command)
	}
	ctx := ""
	if s.Build != nil {
		ctx = s.Build.Context
	}
	if ctx != e.context {
		return fmt.Sprintf("build.context %q, expected %q", ctx, e.context)
	}
	var ef []string
	for _, f := range s.EnvFiles {
		ef = append(ef, f.Path)
	}
	if strings.Join(ef, ",") != strings.Join(e.envFiles, ",") {
		return fmt.Sprintf("env_file %v, expected %v", ef, e.envFiles)
	}
	gv := map[string]string{}
	for _, v := range s.Volumes {
		gv[v.Target] = v.Source
	}
	if fmt.Sprint(gv) != fmt.Sprint(e.volumes) {
		return fmt.Sprintf("volumes %v, expected %v", gv, e.volumes)
	}
	return ""
}

func attrKeyOf(msg string) string {
	for _, a := range []string{"hostname", "environment", "security_opt", "command", "build.context", "env_file", "volumes", "extends", "image", "logging.options"} {
		if strings.HasPrefix(msg, a) {
			return a
		}
	}
	return "other"
}

func (c05) Run(c *core.Ctx) {
	maxL := 3
	if !c.Quick() {
		maxL = 4
	}
	for L := 1; L <= maxL; L++ {
		nk := 1
		for i := 0; i < L; i++ {
			nk *= 5
		}
		for code := 0; code < nk; code++ {
			links := make([]int, L)
			x := code
			crosses := false
			backOK := true
			away := false // is position i in another file than the main one?
			for i := range links {
				links[i] = x % 5
				x /= 5
				if links[i] == 4 {
					// back to the main file: only meaningful from another file
					if !away {
						backOK = false
					}
					away = false
				} else if links[i] != 0 {
					away = true
				}
				if links[i] != 0 {
					crosses = true
				}
			}
			if !backOK {
				continue
			}
			for _, same := range []bool{false, true} {
				if same && !crosses {
					continue
				}
				ch := c05chain{links: links, same: same}
				npos := uint(L + 1)
				full := uint(1)<<npos - 1
				// placements: vary one attribute over all non-empty subsets (others everywhere), and all attributes on each subset
				type placement struct {
					id      string
					carries map[string]uint
				}
				var pls []placement
				for sub := uint(1); sub <= full; sub++ {
					all := map[string]uint{}
					for _, a := range c05attrs {
						all[a] = sub
					}
					pls = append(pls, placement{fmt.Sprintf("all@%b", sub), all})
					if L == maxL && c.Quick() && sub != full && sub&1 == 0 && sub&(sub-1) != 0 {
						continue
					}
					for _, a := range c05attrs {
						m := map[string]uint{}
						for _, b := range c05attrs {
							m[b] = full
						}
						m[a] = sub
						pls = append(pls, placement{fmt.Sprintf("%s@%b", a, sub), m})
					}
				}
				for _, pl := range pls {
					if c.Expired() {
						return
					}
					ch, pl := ch, pl
					id := fmt.Sprintf("chain/%v/same%v/%s", links, same, pl.id)
					c.Do(id, func() core.Outcome {
						s, _ := c05build(ch, pl.carries, nil)
						root := s.Materialise()
						p, err := s.LoadAt(root)
						sample := map[string]any{"chain": id, "files": s.Files}
						if err != nil {
							if pe, ok := err.(*core.PanicError); ok {
								return core.Outcome{Class: "panic", Sample: sample, Viol: &core.Violation{Key: "panic@" + pe.Site, Msg: id + ": " + pe.Error(), Detail: pe.Stack}}
							}
							return core.Outcome{Class: "err", Sample: sample, Viol: &core.Violation{Key: fmt.Sprintf("chain-rejected:same%v", same), Msg: id + ": an acyclic extends chain is rejected: " + err.Error()}}
						}
						if msg := c05compareAll(p, ch, pl.carries, root); msg != "" {
							cross := "samefile"
							if crosses {
								cross = "crossfile"
							}
							return core.Outcome{Class: "diff", Sample: sample, Viol: &core.Violation{Key: "wrong-flattening:" + attrKeyOf(msg) + ":" + cross, Msg: id + ": " + msg}}
						}
						return core.Outcome{Class: id, Sample: sample}
					})
				}
				allC := map[string]uint{}
				for _, a := range c05attrs {
					allC[a] = full
				}
				{
					// the most derived service replaces (!override) and removes (!reset) what its bases gave
					chT := ch
					chT.tags = true
					id := fmt.Sprintf("chain-tags/%v/same%v", links, same)
					c.Do(id, func() core.Outcome {
						s, _ := c05build(chT, allC, nil)
						root := s.Materialise()
						p, err := s.LoadAt(root)
						sample := map[string]any{"chain": id, "files": s.Files}
						if err != nil {
							if pe, ok := err.(*core.PanicError); ok {
								return core.Outcome{Class: "panic", Sample: sample, Viol: &core.Violation{Key: "panic@" + pe.Site, Msg: id + ": " + pe.Error(), Detail: pe.Stack}}
							}
							return core.Outcome{Class: "err", Sample: sample, Viol: &core.Violation{Key: "chain-rejected:tagged-attributes", Msg: id + ": " + err.Error()}}
						}
						if msg := c05compareAll(p, chT, allC, root); msg != "" {
							cross := "samefile"
							if crosses {
								cross = "crossfile"
							}
							return core.Outcome{Class: "diff", Sample: sample, Viol: &core.Violation{Key: "wrong-flattening:tagged:" + attrKeyOf(msg) + ":" + cross, Msg: id + ": " + msg}}
						}
						return core.Outcome{Class: id, Sample: sample}
					})
				}
				if crosses {
					// the same chain with every cross-file reference spelled as an absolute path
					chA := ch
					chA.abs = true
					id := fmt.Sprintf("chain-abs/%v/same%v", links, same)
					c.Do(id, func() core.Outcome {
						s, _ := c05build(chA, allC, nil)
						root := s.Materialise()
						for k, v := range s.Files {
							s.Files[k] = strings.ReplaceAll(v, "<ROOT>", root)
						}
						s.MaterialiseAt(root)
						p, err := s.LoadAt(root)
						sample := map[string]any{"chain": id, "files": s.Files}
						if err != nil {
							if pe, ok := err.(*core.PanicError); ok {
								return core.Outcome{Class: "panic", Sample: sample, Viol: &core.Violation{Key: "panic@" + pe.Site, Msg: id + ": " + pe.Error(), Detail: pe.Stack}}
							}
							return core.Outcome{Class: "err", Sample: sample, Viol: &core.Violation{Key: "chain-rejected:absolute-file-reference", Msg: id + ": an acyclic extends chain with absolute file references is rejected: " + err.Error()}}
						}
						if msg := c05compareAll(p, chA, allC, root); msg != "" {
							return core.Outcome{Class: "diff", Sample: sample, Viol: &core.Violation{Key: "wrong-flattening:" + attrKeyOf(msg) + ":absolute-file-reference", Msg: id + ": " + msg}}
						}
						return core.Outcome{Class: id, Sample: sample}
					})
				}
				// order independence: permutations of declaration order x uniform rotations (all attributes everywhere)
				var perms [][]int
				permute(L+1, func(pm []int) { perms = append(perms, append([]int{}, pm...)) })
				for pi, pm := range perms {
					ch, pm, pi := ch, pm, pi
					id := fmt.Sprintf("order/%v/same%v/perm%d", links, same, pi)
					c.Do(id, func() core.Outcome {
						s, _ := c05build(ch, allC, pm)
						root := s.Materialise()
						for k := uintptr(0); k < 8; k++ {
							mapctl.SetUniform(k)
							p, err := s.LoadAt(root)
							mapctl.SetUniform(0)
							if err != nil {
								return core.Outcome{Class: "err", Viol: &core.Violation{Key: "order-dependent:rejected", Msg: fmt.Sprintf("%s rotation %d: %v", id, k, err)}, Sample: s.Files}
							}
							if msg := c05compareAll(p, ch, allC, root); msg != "" {
								return core.Outcome{Class: "diff", Viol: &core.Violation{Key: "order-dependent:" + attrKeyOf(msg), Msg: fmt.Sprintf("%s, declaration order %v, map rotation %d: %s", id, pm, k, msg)}, Sample: s.Files}
							}
						}
						return core.Outcome{Class: id, Sample: map[string]any{"order": pm}}
					})
				}
			}
		}
	}
	c05siblings(c)
	c05tree(c)
	c05namedLists(c)
	c05cycles(c)
}

// several services of the main file extend the same base (incl. one named like the base): each gets base + its own.
// c05tree: leaves sharing an intermediate service that itself extends a root, every level adding entries to the same
// sequences (r root entries, m more at the intermediate service, one or two per leaf): every leaf ends up with exactly
// the entries of its own chain, whatever the order in which the services are resolved.
func c05tree(c *core.Ctx) {
	attrs := []struct {
		name string
		item func(tag string, i int) string
		get  func(s types.ServiceConfig) []string
	}{
		{"cap_add", func(tag string, i int) string { return fmt.Sprintf("CAP_%s%d", strings.ToUpper(tag), i) }, func(s types.ServiceConfig) []string { return s.CapAdd }},
		{"dns", func(tag string, i int) string { return fmt.Sprintf("10.%d.%d.1", len(tag)*7+int(tag[0])%50, i) }, func(s types.ServiceConfig) []string { return s.DNS }},
		{"environment", func(tag string, i int) string { return fmt.Sprintf("%s_%d=v", strings.ToUpper(tag), i) }, func(s types.ServiceConfig) []string {
			var out []string
			for k, v := range s.Environment {
				if v != nil {
					out = append(out, k+"="+*v)
				}
			}
			return out
		}},
		{"expose", func(tag string, i int) string { return fmt.Sprintf("%d", 1000*(int(tag[0])%9+1)+len(tag)*10+i) }, func(s types.ServiceConfig) []string { return s.Expose }},
	}
	leaves := []string{"alpha", "beta", "gamma", "zeta"}
	for _, a := range attrs {
		for r := 1; r <= 5; r++ {
			for m := 0; m <= 2; m++ {
				for own := 1; own <= 2; own++ {
					for _, cross := range []bool{false, true} {
						a, r, m, own, cross := a, r, m, own, cross
						id := fmt.Sprintf("tree/%s/r%d/m%d/own%d/cross%v", a.name, r, m, own, cross)
						c.Do(id, func() core.Outcome {
							list := func(tag string, n int) string {
								if n == 0 {
									return ""
								}
								var items []string
								for i := 0; i < n; i++ {
									items = append(items, "\""+a.item(tag, i)+"\"")
								}
								return "    " + a.name + ": [" + strings.Join(items, ", ") + "]\n"
							}
							want := func(leaf string) []string {
								var w []string
								for i := 0; i < r; i++ {
									w = append(w, a.item("root", i))
								}
								for i := 0; i < m; i++ {
									w = append(w, a.item("mid", i))
								}
								for i := 0; i < own; i++ {
									w = append(w, a.item(leaf, i))
								}
								sort.Strings(w)
								return w
							}
							rootDoc := "  root:\n    image: common\n" + list("root", r)
							rootRef := "{service: root}"
							files := map[string]string{}
							if cross {
								rootRef = "{file: ./common.yaml, service: root}"
								files["common.yaml"] = "services:\n" + rootDoc
								rootDoc = ""
							}
							var sb strings.Builder
							sb.WriteString("services:\n")
							for _, l := range leaves {
								fmt.Fprintf(&sb, "  %s:\n    extends: {service: mid}\n%s", l, list(l, own))
							}
							fmt.Fprintf(&sb, "  mid:\n    extends: %s\n%s", rootRef, list("mid", m))
							sb.WriteString(rootDoc)
							files["compose.yaml"] = sb.String()
							s := &Scn{Files: files, Main: []string{"compose.yaml"}}
							root := s.Materialise()
							for k := uintptr(0); k < 8; k++ {
								mapctl.SetUniform(k)
								p, err := s.LoadAt(root)
								mapctl.SetUniform(0)
								if err != nil {
									return core.Outcome{Class: "err", Sample: files, Viol: &core.Violation{Key: "tree:rejected", Msg: fmt.Sprintf("%s (rotation %d): %v", id, k, err)}}
								}
								for _, l := range leaves {
									got := append([]string{}, a.get(p.Services[l])...)
									sort.Strings(got)
									if w := want(l); strings.Join(got, " ") != strings.Join(w, " ") {
										return core.Outcome{Class: "diff", Sample: files, Viol: &core.Violation{Key: "tree:wrong-inheritance:" + a.name,
											Msg: fmt.Sprintf("%s (rotation %d): service %s has %s %v, expected %v", id, k, l, a.name, got, w)}}
									}
								}
							}
							return core.Outcome{Class: id, Sample: files}
						})
					}
				}
			}
		}
	}
}

// c05namedLists: a base that names services / networks in the short list spelling, the extending service refining ONE of
// them in the long spelling: the others keep their defaults (directly, through an intermediate service, base in the
// same or in another file).
func c05namedLists(c *core.Ctx) {
	for _, attr := range []string{"depends_on", "networks"} {
		for _, through := range []bool{false, true} {
			for _, cross := range []bool{false, true} {
				attr, through, cross := attr, through, cross
				id := fmt.Sprintf("named-list/%s/through%v/cross%v", attr, through, cross)
				c.Do(id, func() core.Outcome {
					baseBody, refine := "    depends_on: [t, u, v]\n", "    depends_on:\n      u: {condition: service_healthy, required: false, restart: true}\n"
					if attr == "networks" {
						baseBody, refine = "    networks: [n1, n2, n3]\n", "    networks:\n      n2: {aliases: [al], priority: 7}\n"
					}
					rest := "  t: {image: t}\n  u: {image: u}\n  v: {image: v}\nnetworks:\n  n1: {}\n  n2: {}\n  n3: {}\n"
					baseDoc := "  b:\n    image: i\n" + baseBody
					ref := "{service: b}"
					files := map[string]string{}
					if cross {
						ref = "{file: ./base.yaml, service: b}"
						files["base.yaml"] = "services:\n" + baseDoc + rest
						baseDoc = ""
					}
					doc := "services:\n"
					if through {
						doc += "  s:\n    extends: {service: mid}\n" + refine + "  mid:\n    extends: " + ref + "\n"
					} else {
						doc += "  s:\n    extends: " + ref + "\n" + refine
					}
					files["compose.yaml"] = doc + baseDoc + rest
					s := &Scn{Files: files, Main: []string{"compose.yaml"}}
					root := s.Materialise()
					p, err := s.LoadAt(root)
					if err != nil {
						return core.Outcome{Class: "err", Sample: files, Viol: &core.Violation{Key: "named-list:rejected", Msg: id + ": " + err.Error()}}
					}
					svc := p.Services["s"]
					if attr == "depends_on" {
						for _, n := range []string{"t", "v"} {
							d, ok := svc.DependsOn[n]
							if !ok || d.Condition != "service_started" || !d.Required || d.Restart {
								return core.Outcome{Class: "diff", Sample: files, Viol: &core.Violation{Key: "named-list:refinement-leaks:depends_on",
									Msg: fmt.Sprintf("%s: dependency %s of s is %+v (present=%v), expected the defaults: only u was refined", id, n, d, ok)}}
							}
						}
						if d := svc.DependsOn["u"]; d.Condition != "service_healthy" || d.Required || !d.Restart {
							return core.Outcome{Class: "diff", Sample: files, Viol: &core.Violation{Key: "named-list:refinement-lost:depends_on", Msg: fmt.Sprintf("%s: dependency u of s is %+v", id, d)}}
						}
					} else {
						for _, n := range []string{"n1", "n3"} {
							a, ok := svc.Networks[n]
							if !ok || (a != nil && (len(a.Aliases) > 0 || a.Priority != 0)) {
								return core.Outcome{Class: "diff", Sample: files, Viol: &core.Violation{Key: "named-list:refinement-leaks:networks",
									Msg: fmt.Sprintf("%s: attachment %s of s is %+v (present=%v), expected a plain attachment: only n2 was refined", id, n, a, ok)}}
							}
						}
						if a := svc.Networks["n2"]; a == nil || len(a.Aliases) != 1 || a.Priority != 7 {
							return core.Outcome{Class: "diff", Sample: files, Viol: &core.Violation{Key: "named-list:refinement-lost:networks", Msg: fmt.Sprintf("%s: attachment n2 of s is %+v", id, a)}}
						}
					}
					return core.Outcome{Class: id, Sample: files}
				})
			}
		}
	}
}

func c05siblings(c *core.Ctx) {
	for _, baseName := range []string{"base", "web"} {
		for _, cross := range []bool{false, true} {
			for _, baseExtends := range []bool{false, true} {
				baseName, cross, baseExtends := baseName, cross, baseExtends
				id := fmt.Sprintf("siblings/%s/cross%v/chained%v", baseName, cross, baseExtends)
				c.Do(id, func() core.Outcome {
					ref := func() string {
						if cross {
							return fmt.Sprintf("{file: ./common.yaml, service: %s}", baseName)
						}
						return fmt.Sprintf("{service: %s}", baseName)
					}
					baseDoc := fmt.Sprintf("  %s:\n    image: common\n    environment: {ROLE: common}\n", baseName)
					if baseExtends {
						baseDoc = fmt.Sprintf("  %s:\n    extends: {service: root}\n    environment: {ROLE: common}\n  root:\n    image: common\n    labels: {from: root}\n", baseName)
					}
					var main strings.Builder
					main.WriteString("services:\n")
					users := []string{"alpha", "web", "worker", "zeta"}
					for _, u := range users {
						if !cross && u == baseName {
							continue
						}
						if u == "web" {
							fmt.Fprintf(&main, "  %s:\n    extends: %s\n    ports: [\"8080:80\"]\n    environment: {OWN: web, ROLE: frontend}\n", u, ref())
						} else {
							fmt.Fprintf(&main, "  %s:\n    extends: %s\n    environment: {OWN: %s}\n", u, ref(), u)
						}
					}
					files := map[string]string{}
					if cross {
						files["compose.yaml"] = main.String()
						files["common.yaml"] = "services:\n" + baseDoc
					} else {
						files["compose.yaml"] = main.String() + baseDoc
					}
					s := &Scn{Files: files, Main: []string{"compose.yaml"}}
					root := s.Materialise()
					for k := uintptr(0); k < 8; k++ {
						mapctl.SetUniform(k)
						p, err := s.LoadAt(root)
						mapctl.SetUniform(0)
						if err != nil {
							return core.Outcome{Class: "err", Sample: files, Viol: &core.Violation{Key: "siblings:rejected", Msg: fmt.Sprintf("%s (rotation %d): %v", id, k, err)}}
						}
						for _, u := range users {
							if !cross && u == baseName {
								continue
							}
							svc := p.Services[u]
							role := "common"
							nports := 0
							if u == "web" {
								role, nports = "frontend", 1
							}
							r := ""
							if svc.Environment["ROLE"] != nil {
								r = *svc.Environment["ROLE"]
							}
							if r != role || len(svc.Ports) != nports || svc.Image != "common" {
								return core.Outcome{Class: "diff", Sample: files, Viol: &core.Violation{Key: "siblings:wrong-inheritance",
									Msg: fmt.Sprintf("%s (rotation %d): service %s has ROLE=%q, %d ports, image %q; expected ROLE=%q, %d ports, image common", id, k, u, r, len(svc.Ports), svc.Image, role, nports)}}
							}
							if baseExtends && svc.Labels["from"] != "root" {
								return core.Outcome{Class: "diff", Sample: files, Viol: &core.Violation{Key: "siblings:transitive-base-lost", Msg: fmt.Sprintf("%s: service %s lost the label inherited from the base of its base", id, u)}}
							}
						}
					}
					return core.Outcome{Class: id, Sample: files}
				})
			}
		}
	}
}

func c05cycles(c *core.Ctx) {
	// cyclic chains of length 1..4: position i extends position (i+1) mod n; each service in file A or B
	for n := 1; n <= 4; n++ {
		for mask := 0; mask < 1<<n; mask++ {
			n, mask := n, mask
			id := fmt.Sprintf("cycle/n%d/%b", n, mask)
			c.Do(id, func() core.Outcome {
				fileOf := func(i int) string {
					if mask&(1<<i) != 0 {
						return "b.yaml"
					}
					return "compose.yaml"
				}
				docs := map[string]string{"compose.yaml": "services:\n  entry:\n    image: e\n", "b.yaml": "services:\n  other:\n    image: o\n"}
				for i := 0; i < n; i++ {
					j := (i + 1) % n
					ext := fmt.Sprintf("{service: c%d}", j)
					if fileOf(i) != fileOf(j) {
						ext = fmt.Sprintf("{file: ./%s, service: c%d}", fileOf(j), j)
					}
					docs[fileOf(i)] += fmt.Sprintf("  c%d:\n    image: i\n    extends: %s\n", i, ext)
				}
				// make sure the cycle is reachable from the main file
				if mask&1 != 0 {
					docs["compose.yaml"] += "  start:\n    extends: {file: ./b.yaml, service: c0}\n"
				}
				s := &Scn{Files: docs, Main: []string{"compose.yaml"}}
				root := s.Materialise()
				p, err := s.LoadAt(root)
				if pe, ok := err.(*core.PanicError); ok {
					return core.Outcome{Class: "panic", Sample: docs, Viol: &core.Violation{Key: "panic@" + pe.Site, Msg: id + ": " + pe.Error(), Detail: pe.Stack}}
				}
				if err == nil {
					return core.Outcome{Class: "acc", Sample: docs, Viol: &core.Violation{Key: "extends-cycle-accepted", Msg: fmt.Sprintf("%s: a cyclic extends chain loads (%d services)", id, len(p.Services))}}
				}
				return core.Outcome{Class: id, Sample: docs}
			})
		}
	}
	// the same cycles with the file of every edge spelled in other ways (bare, through another directory, absolute,
	// absolute but not canonical; edge i uses spelling (k+i*mix) mod 6), and with same-file edges naming their own file
	spell := []string{"./", "", "./d/../", "${ROOT}/", "${ROOT}/./", "${ROOT}/d/../"}
	for n := 1; n <= 3; n++ {
		for mask := 0; mask < 1<<n; mask++ {
			for k := range spell {
				for mix := 0; mix < 2; mix++ {
					for explicit := 0; explicit < 2; explicit++ {
						if k == 0 && mix == 0 && explicit == 0 {
							continue // the plain enumeration above
						}
						if explicit == 0 && (mask == 0 || mask == 1<<n-1) && n > 0 && !(mask&1 != 0) {
							continue // no cross-file edge at all: nothing is spelled
						}
						n, mask, k, mix, explicit := n, mask, k, mix, explicit
						id := fmt.Sprintf("cycle-spelled/n%d/%b/s%d/m%d/x%d", n, mask, k, mix, explicit)
						c.Do(id, func() core.Outcome {
							fileOf := func(i int) string {
								if mask&(1<<i) != 0 {
									return "b.yaml"
								}
								return "compose.yaml"
							}
							docs := map[string]string{"compose.yaml": "services:\n  entry:\n    image: e\n", "b.yaml": "services:\n  other:\n    image: o\n", "d/.keep": ""}
							for i := 0; i < n; i++ {
								j := (i + 1) % n
								sp := spell[(k+i*mix)%len(spell)]
								ext := fmt.Sprintf("{service: c%d}", j)
								if fileOf(i) != fileOf(j) || explicit == 1 {
									ext = fmt.Sprintf("{file: \"%s%s\", service: c%d}", sp, fileOf(j), j)
								}
								docs[fileOf(i)] += fmt.Sprintf("  c%d:\n    image: i\n    extends: %s\n", i, ext)
							}
							if mask&1 != 0 {
								docs["compose.yaml"] += "  start:\n    extends: {file: \"" + spell[k] + "b.yaml\", service: c0}\n"
							}
							s := &Scn{Files: docs, Main: []string{"compose.yaml"}, Env: map[string]string{"ROOT": RootToken}}
							root := s.Materialise()
							p, err := s.LoadAt(root)
							if pe, ok := err.(*core.PanicError); ok {
								return core.Outcome{Class: "panic", Sample: docs, Viol: &core.Violation{Key: "panic@" + pe.Site, Msg: id + ": " + pe.Error(), Detail: pe.Stack}}
							}
							if err == nil {
								return core.Outcome{Class: "acc", Sample: docs, Viol: &core.Violation{Key: "extends-cycle-accepted:spelled", Msg: fmt.Sprintf("%s: a cyclic extends chain loads (%d services)", id, len(p.Services))}}
							}
							return core.Outcome{Class: id, Sample: docs}
						})
					}
				}
			}
		}
	}
	for _, k := range []string{"missing-service-same-file", "missing-service-other-file", "missing-file"} {
		k := k
		c.Do("missing/"+k, func() core.Outcome {
			docs := map[string]string{"b.yaml": "services:\n  present:\n    image: p\n"}
			switch k {
			case "missing-service-same-file":
				docs["compose.yaml"] = "services:\n  s:\n    image: i\n    extends: {service: nope}\n"
			case "missing-service-other-file":
				docs["compose.yaml"] = "services:\n  s:\n    image: i\n    extends: {file: ./b.yaml, service: nope}\n"
			case "missing-file":
				docs["compose.yaml"] = "services:\n  s:\n    image: i\n    extends: {file: ./nofile.yaml, service: present}\n"
			}
			s := &Scn{Files: docs, Main: []string{"compose.yaml"}}
			root := s.Materialise()
			_, err := s.LoadAt(root)
			if err == nil {
				return core.Outcome{Class: "acc", Viol: &core.Violation{Key: "missing-base-accepted:" + k, Msg: k + ": loads without error"}}
			}
			if _, ok := err.(*core.PanicError); ok {
				return core.Outcome{Class: "panic", Viol: &core.Violation{Key: "missing-base-panics:" + k, Msg: err.Error()}}
			}
			return core.Outcome{Class: "missing/" + k}
		})
	}
}

var _ = sort.Strings
