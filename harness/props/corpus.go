package props

// Shared corpus of multi-feature compose scenarios (used by C02, C09, C19, C20 …).

const corpusRich = `
name: rich
x-top: {a: 1, b: [x, y]}
services:
  web:
    image: nginx:${TAG:-1.25}
    build:
      context: ./web
      dockerfile: Dockerfile.web
      args:
        B_ARG: "2"
        A_ARG: one
        NOVAL:
      ssh:
        - default
        - key1=./k1
        - key2=/abs/k2
      labels: {b.l: "2", a.l: "1"}
      additional_contexts:
        res: ./res
        base: docker-image://alpine
      extra_hosts:
        - "bh=10.0.0.9"
      cache_from: [alpine, busybox]
      secrets: [s_file]
      tags: [t2, t1]
      platforms: [linux/amd64, linux/arm64]
      ulimits: {nofile: {soft: 10, hard: 20}, nproc: 5}
    command: ["run", "--flag", "a b"]
    entrypoint: /bin/ep -x
    ports:
      - "8080-8082:80-82"
      - "127.0.0.1:9000:9000/udp"
      - 7000
      - target: 443
        published: "8443"
        protocol: tcp
        mode: host
    expose: ["3000", 4000]
    volumes:
      - data:/data:ro
      - ./src:/src
      - /abs:/abs2:rw,z
      - type: tmpfs
        target: /tmp/x
        tmpfs: {size: 1000000}
      - type: volume
        source: data2
        target: /d2
        volume: {nocopy: true, subpath: sub}
    networks:
      front:
        aliases: [w2, w1]
        ipv4_address: 10.5.0.5
        priority: 10
      back:
    depends_on: [db, cache]
    environment:
      - Z_VAR=z
      - A_VAR=a
      - FROM_ENV
      - EMPTY=
    env_file:
      - ./a.env
      - path: ./b.env
        required: false
    labels:
      com.b: "2"
      com.a: "1"
    extra_hosts:
      - "h2=10.0.0.2"
      - "h1=10.0.0.1"
      - "h6=::1"
    dns: [8.8.8.8, 1.1.1.1]
    dns_search: example.com
    dns_opt: [ndots:2]
    sysctls:
      net.core.somaxconn: 1024
      net.ipv4.tcp_syncookies: 0
    ulimits:
      nproc: 65535
      nofile: {soft: 20000, hard: 40000}
    healthcheck:
      test: ["CMD", "curl", "-f", "http://localhost"]
      interval: 1m30s
      timeout: 10s
      retries: 3
      start_period: 40s
    logging:
      driver: json-file
      options: {max-size: "10m", max-file: "3"}
    deploy:
      replicas: 2
      labels: [d.b=2, d.a=1]
      resources:
        limits: {cpus: "0.5", memory: 50M, pids: 10}
        reservations:
          cpus: "0.25"
          memory: 20M
          devices:
            - capabilities: [gpu]
              count: all
              driver: nvidia
      restart_policy: {condition: on-failure, delay: 5s, max_attempts: 3, window: 120s}
      update_config: {parallelism: 2, delay: 10s, order: stop-first}
      placement:
        constraints: [node.role==manager]
        preferences: [{spread: node.labels.zone}]
    secrets:
      - s_file
      - source: s_env
        target: renamed
        uid: "103"
        gid: "103"
        mode: 0440
    configs:
      - c_file
      - source: c_content
        target: /etc/c2
    cap_add: [NET_ADMIN, SYS_TIME]
    cap_drop: [ALL]
    devices: ["/dev/ttyUSB0:/dev/ttyUSB1:rwm"]
    tmpfs: [/run, /tmp]
    annotations: {an.b: "2", an.a: "1"}
    group_add: [mail, "1001"]
    profiles: []
    stop_grace_period: 1m
    shm_size: 64m
    x-svc: {k: v}
  db:
    image: postgres
    networks: [back]
    volumes: ["data:/var/lib/postgresql/data"]
    environment: {POSTGRES_PASSWORD: pw, N: 1, B: true}
    depends_on:
      cache: {condition: service_healthy, restart: true}
    links: [cache:c]
  cache:
    image: redis
    network_mode: host
    pid: host
    develop:
      watch:
        - path: ./cache
          action: sync
          target: /c
          ignore: [node_modules/]
networks:
  front:
    driver: bridge
    driver_opts: {o2: "2", o1: "1"}
    ipam:
      driver: default
      config:
        - subnet: 10.5.0.0/16
          gateway: 10.5.0.1
          ip_range: 10.5.1.0/24
          aux_addresses: {h2: 10.5.0.7, h1: 10.5.0.6}
        - subnet: 2001:db8::/64
      options: {io2: b, io1: a}
    labels: [n.b=2, n.a=1]
  back:
    internal: true
    attachable: true
volumes:
  data:
    labels: {v.b: "2", v.a: "1"}
    driver_opts: {type: nfs, o: addr=10.0.0.1, device: ":/x"}
  data2:
    name: explicit_data2
secrets:
  s_file: {file: ./secret.txt}
  s_env: {environment: SECRET_ENV}
configs:
  c_file: {file: ./conf.txt}
  c_content: {content: "hello ${TAG:-x}"}
`

const corpusOverride = `
services:
  web:
    build:
      args: [C_ARG=3, A_ARG=uno]
      ssh: {key3: ./k3, key1: ./k1bis}
      labels: [c.l=3, a.l=uno]
      additional_contexts: [extra=./extra, res=./res2]
      extra_hosts: {bh2: 10.0.0.10}
      tags: [t3, t1]
    command: other
    ports:
      - "8081:81"
      - "6000:6000"
    volumes:
      - ./src2:/src
      - newvol:/nv
    networks:
      front: {aliases: [w3, w1]}
      third: {}
    depends_on:
      extra: {condition: service_started}
    environment: {A_VAR: a2, NEW: n}
    env_file: [./c.env, ./a.env]
    labels: [com.c=3, com.a=uno]
    extra_hosts: {h3: 10.0.0.3, h1: 10.0.0.1}
    dns: 9.9.9.9
    dns_search: [b.example.com]
    dns_opt: [timeout:1]
    sysctls: [net.core.somaxconn=2048, kernel.x=1]
    ulimits: {nofile: {soft: 1, hard: 2}, core: 0}
    logging: {driver: json-file, options: {max-size: "20m"}}
    deploy:
      labels: {d.c: "3", d.a: uno}
    secrets: [{source: s_file, target: other}, s_extra]
    configs: [{source: c_file, target: /etc/other}]
    cap_add: [SYS_TIME, SYS_PTRACE]
    devices: ["/dev/null:/dev/ttyUSB1"]
    tmpfs: /run2
    annotations: [an.c=3, an.a=uno]
    healthcheck: {test: "curl -f http://x"}
    expose: [4000, "5000"]
    profiles: [debug]
  extra:
    image: extra
    profiles: [debug]
networks:
  third: {}
  front:
    ipam:
      config:
        - subnet: 10.5.0.0/16
          gateway: 10.5.0.254
        - subnet: 10.9.0.0/16
      options: {io3: c, io1: z}
    labels: {n.c: "3", n.a: uno}
volumes:
  newvol: {}
  data:
    labels: [v.c=3, v.a=uno]
secrets:
  s_extra: {environment: SECRET_EXTRA}
`

const corpusExtendsMain = `
services:
  app:
    extends: {service: mid}
    environment: [APP=1]
    ports: ["1000:1000"]
  mid:
    extends: {file: ./base/base.yaml, service: base2}
    environment: {MID: "1", SHARED: mid}
    labels: {l.mid: "1"}
    volumes: ["./midsrc:/mid"]
  other:
    extends: {file: ./base/base.yaml, service: base1}
    image: other
  sib:
    extends: {file: ./base/base.yaml, service: base2}
    environment: [SIB=1]
  local:
    extends: app
    command: local
`

const corpusExtendsBase = `
services:
  base1:
    image: base1
    build: {context: ./ctx1}
    environment: {B1: "1", SHARED: base1}
    env_file: ./base.env
    volumes: ["./b1:/b1"]
    labels: [l.base=1]
    ports: ["2000:2000"]
  base2:
    extends: base1
    environment: [B2=1, SHARED=base2]
    cap_add: [NET_ADMIN]
    depends_on: []
`

const corpusIncludeMain = `
include:
  - ./inc/one.yaml
  - path: ./inc2/two.yaml
    project_directory: ./inc2
    env_file: ./inc2/two.env
services:
  main:
    image: main:${MAINTAG:-latest}
    depends_on: [one, two]
    networks: [shared]
networks:
  shared: {}
`

const corpusIncludeOne = `
services:
  one:
    image: one:${ONETAG:-1}
    build: ./onectx
    volumes: ["./onedata:/d"]
    env_file: ./one.env
volumes:
  onevol: {}
`

const corpusIncludeTwo = `
services:
  two:
    image: two:${TWOTAG}
    environment:
      - T=${TWOTAG}
    configs: [twoconf]
configs:
  twoconf: {file: ./two.conf}
`

const corpusProfiles = `
services:
  always: {image: a, depends_on: {opt: {condition: service_started, required: false}}}
  opt: {image: o, profiles: [p1]}
  both: {image: b, profiles: [p1, p2], depends_on: [opt]}
  q: {image: q, profiles: [p2]}
`

const corpusVersion = `
version: "3.8"
services:
  v: {image: v, ports: ["80"], scale: 2}
`

const corpusInvalidSchema = `
services:
  bad: {image: x, ports: {a: b}}
`

const corpusInvalidConsistency = `
services:
  bad: {image: x, networks: [nope]}
`

const corpusInvalidCycle = `
services:
  a: {image: a, depends_on: [b]}
  b: {image: b, depends_on: [a]}
`

// CorpusScns returns the named corpus scenarios.
func CorpusScns() map[string]*Scn {
	files := func(kv ...string) map[string]string {
		m := map[string]string{}
		for i := 0; i+1 < len(kv); i += 2 {
			m[kv[i]] = kv[i+1]
		}
		return m
	}
	richFiles := func() map[string]string {
		return files("compose.yaml", corpusRich, "override.yaml", corpusOverride,
			"a.env", "FA=1\nSHARED=a\nZ_VAR=fromfile\n", "b.env", "FB=2\nSHARED=b\n", "c.env", "FC=3\nSHARED=c\n",
			"secret.txt", "filesecret", "conf.txt", "conf")
	}
	env := map[string]string{"SECRET_ENV": "CANARY-s3cr3t-env", "SECRET_EXTRA": "CANARY-extra", "FROM_ENV": "fromenv", "TAG": "9"}
	return map[string]*Scn{
		"rich":     {Files: richFiles(), Main: []string{"compose.yaml"}, Env: env},
		"override": {Files: richFiles(), Main: []string{"compose.yaml", "override.yaml"}, Env: env},
		"override-debug": {Files: richFiles(), Main: []string{"compose.yaml", "override.yaml"}, Env: env,
			Opts: nil},
		"extends": {Files: files("compose.yaml", corpusExtendsMain, "base/base.yaml", corpusExtendsBase, "base/base.env", "BE=1\n"),
			Main: []string{"compose.yaml"}},
		"include": {Files: files("compose.yaml", corpusIncludeMain, "inc/one.yaml", corpusIncludeOne, "inc/one.env", "O=1\n",
			"inc/.env", "ONETAG=fromdotenv\n", "inc2/two.yaml", corpusIncludeTwo, "inc2/two.env", "TWOTAG=fromenvfile\n", "inc2/two.conf", "c"),
			Main: []string{"compose.yaml"}, Env: map[string]string{"MAINTAG": "m"}},
		"profiles":     {Files: files("compose.yaml", corpusProfiles), Main: []string{"compose.yaml"}},
		"version":      {Files: files("compose.yaml", corpusVersion), Main: []string{"compose.yaml"}},
		"bad-schema":   {Files: files("compose.yaml", corpusInvalidSchema), Main: []string{"compose.yaml"}},
		"bad-consist":  {Files: files("compose.yaml", corpusInvalidConsistency), Main: []string{"compose.yaml"}},
		"bad-cycle":    {Files: files("compose.yaml", corpusInvalidCycle), Main: []string{"compose.yaml"}},
		"missing-file": {Files: files("compose.yaml", corpusExtendsMain), Main: []string{"compose.yaml"}},
	}
}
