package props

import (
	"fmt"
	"strings"
)

// Shared corpus of multi-feature compose scenarios (used by C02, C09, C19, C20 …).

const corpusRich = `
name: rich
x-top: {a: 1, b: [x, y]}
services:
  web:
    image: nginx:${TAG:-1.25}
    build:
      context: ./web
      dockerfile: Dockerfile.web
      args:
        B_ARG: "2"
        A_ARG: one
        NOVAL:
      ssh:
        - default
        - key1=./k1
        - key2=/abs/k2
      labels: {b.l: "2", a.l: "1"}
      additional_contexts:
        res: ./res
        base: docker-image://alpine
      extra_hosts:
        - "bh=10.0.0.9"
      cache_from: [alpine, busybox]
      secrets: [s_file]
      tags: [t2, t1]
      platforms: [linux/amd64, linux/arm64]
      ulimits: {nofile: {soft: 10, hard: 20}, nproc: 5}
    command: ["run", "--flag", "a b"]
    entrypoint: /bin/ep -x
    ports:
      - "8080-8082:80-82"
      - "127.0.0.1:9000:9000/udp"
      - 7000
      - target: 443
        published: "8443"
        protocol: tcp
        mode: host
    expose: ["3000", 4000]
    volumes:
      - data:/data:ro
      - ./src:/src
      - /abs:/abs2:rw,z
      - type: tmpfs
        target: /tmp/x
        tmpfs: {size: 1000000}
      - type: volume
        source: data2
        target: /d2
        volume: {nocopy: true, subpath: sub}
    networks:
      front:
        aliases: [w2, w1]
        ipv4_address: 10.5.0.5
        priority: 10
      back:
    depends_on: [db, cache]
    environment:
      - Z_VAR=z
      - A_VAR=a
      - FROM_ENV
      - EMPTY=
    env_file:
      - ./a.env
      - path: ./b.env
        required: false
    labels:
      com.b: "2"
      com.a: "1"
    extra_hosts:
      - "h2=10.0.0.2"
      - "h1=10.0.0.1"
      - "h6=::1"
    dns: [8.8.8.8, 1.1.1.1]
    dns_search: example.com
    dns_opt: [ndots:2]
    sysctls:
      net.core.somaxconn: 1024
      net.ipv4.tcp_syncookies: 0
    ulimits:
      nproc: 65535
      nofile: {soft: 20000, hard: 40000}
    healthcheck:
      test: ["CMD", "curl", "-f", "http://localhost"]
      interval: 1m30s
      timeout: 10s
      retries: 3
      start_period: 40s
    logging:
      driver: json-file
      options: {max-size: "10m", max-file: "3"}
    deploy:
      replicas: 2
      labels: [d.b=2, d.a=1]
      resources:
        limits: {cpus: "0.5", memory: 50M, pids: 10}
        reservations:
          cpus: "0.25"
          memory: 20M
          devices:
            - capabilities: [gpu]
              count: all
              driver: nvidia
      restart_policy: {condition: on-failure, delay: 5s, max_attempts: 3, window: 120s}
      update_config: {parallelism: 2, delay: 10s, order: stop-first}
      placement:
        constraints: [node.role==manager]
        preferences: [{spread: node.labels.zone}]
    secrets:
      - s_file
      - source: s_env
        target: renamed
        uid: "103"
        gid: "103"
        mode: 0440
    configs:
      - c_file
      - source: c_content
        target: /etc/c2
    cap_add: [NET_ADMIN, SYS_TIME]
    cap_drop: [ALL]
    devices: ["/dev/ttyUSB0:/dev/ttyUSB1:rwm"]
    tmpfs: [/run, /tmp]
    annotations: {an.b: "2", an.a: "1"}
    group_add: [mail, "1001"]
    profiles: []
    stop_grace_period: 1m
    shm_size: 64m
    x-svc: {k: v}
  db:
    image: postgres
    networks: [back]
    volumes: ["data:/var/lib/postgresql/data"]
    environment: {POSTGRES_PASSWORD: pw, N: 1, B: true}
    depends_on:
      cache: {condition: service_healthy, restart: true, required: true}
    links: [cache:c]
  cache:
    image: redis
    network_mode: host
    pid: host
    develop:
      watch:
        - path: ./cache
          action: sync
          target: /c
          ignore: [node_modules/]
networks:
  front:
    driver: bridge
    driver_opts: {o2: "2", o1: "1"}
    ipam:
      driver: default
      config:
        - subnet: 10.5.0.0/16
          gateway: 10.5.0.1
          ip_range: 10.5.1.0/24
          aux_addresses: {h2: 10.5.0.7, h1: 10.5.0.6}
        - subnet: 2001:db8::/64
      options: {io2: b, io1: a}
    labels: [n.b=2, n.a=1]
  back:
    internal: true
    attachable: true
volumes:
  data:
    labels: {v.b: "2", v.a: "1"}
    driver_opts: {type: nfs, o: addr=10.0.0.1, device: ":/x"}
  data2:
    name: explicit_data2
secrets:
  s_file: {file: ./secret.txt}
  s_env: {environment: SECRET_ENV}
configs:
  c_file: {file: ./conf.txt}
  c_content: {content: "hello ${TAG:-x}"}
`

const corpusRich2 = `
services:
  misc:
    image: misc
    attach: false
    blkio_config:
      weight: 300
      weight_device: [{path: /dev/sda, weight: 400}]
      device_read_bps: [{path: /dev/sdb, rate: '12mb'}]
      device_read_iops: [{path: /dev/sdb, rate: 120}]
      device_write_bps: [{path: /dev/sdb, rate: '1024k'}]
      device_write_iops: [{path: /dev/sdb, rate: 30}]
    cgroup: private
    cgroup_parent: m-executor-abcd
    container_name: misc-1
    cpu_count: 2
    cpu_percent: 50
    cpu_period: 50000
    cpu_quota: 25000
    cpu_rt_period: 1400
    cpu_rt_runtime: 400
    cpu_shares: 73
    cpus: 0.5
    cpuset: "0,1"
    credential_spec: {file: my-credential-spec.json}
    device_cgroup_rules: ["c 1:3 mr", "a 7:* rmw"]
    domainname: example.org
    external_links: [redis, "database:mysql"]
    gpus: [{driver: nvidia, count: 2, capabilities: [gpu], options: {o: "1"}}]
    hostname: mischost
    init: true
    ipc: shareable
    isolation: default
    label_file: [./misc.labels]
    mac_address: 02:42:ac:11:65:43
    mem_limit: 300m
    mem_swappiness: 10
    memswap_limit: 1g
    oom_kill_disable: true
    oom_score_adj: 500
    pids_limit: 100
    platform: linux/amd64
    post_start:
      - command: ["echo", "hi"]
        user: root
        privileged: true
        working_dir: /
        environment: [A=b]
    pre_stop:
      - command: echo bye
    privileged: true
    pull_policy: always
    read_only: true
    restart: on-failure:3
    runtime: runc
    scale: 1
    security_opt: ["label=level:s0:c100,c200", "label=type:svirt_apache_t"]
    stdin_open: true
    stop_signal: SIGUSR1
    storage_opt: {size: 1G}
    tty: true
    user: "1000:1000"
    userns_mode: host
    uts: host
    volumes_from: ["other:ro", "container:ext"]
    working_dir: /code
    links: [other]
    env_file:
      - path: ./raw.env
        format: raw
    deploy:
      mode: replicated
      endpoint_mode: vip
      rollback_config: {parallelism: 1, delay: 1s, failure_action: pause, monitor: 2s, max_failure_ratio: 0.5, order: start-first}
      resources:
        reservations:
          generic_resources: [{discrete_resource_spec: {kind: gpu, value: 2}}]
          devices: [{capabilities: [tpu], device_ids: ["0", "1"], options: {k: v}}]
      placement: {max_replicas_per_node: 2}
    healthcheck: {disable: true}
    logging: {driver: syslog}
    develop:
      watch:
        - {path: ./w, action: rebuild}
        - {path: ./x, action: sync+restart, target: /x}
  other:
    image: other
    mem_reservation: 100m
    healthcheck: {test: NONE}
    ports:
      - {name: web, target: 80, host_ip: 127.0.0.1, published: "8080-8081", protocol: tcp, app_protocol: http, mode: ingress}
    volumes:
      - type: bind
        source: /b
        target: /b
        read_only: true
        consistency: cached
        bind: {propagation: rshared, create_host_path: false, selinux: z}
    ulimits: {nofile: 5}
networks:
  default:
    external: true
    name: outer
volumes:
  ext: {external: true}
secrets:
  ext_s: {external: true, name: outer_s}
configs:
  ext_c: {external: true}
`

const corpusRich3 = `
services:
  b1:
    image: b1
    build:
      context: ./b1
      cache_to: ["type=local,dest=./cache"]
      entitlements: [network.host]
      isolation: default
      network: host
      no_cache: true
      privileged: true
      pull: true
      shm_size: 128m
      target: prod
      x-build: {k: v}
    configs:
      - source: c_env
        target: /etc/c_env
        uid: "7"
        gid: "8"
        mode: 0444
        x-sc: 1
    secrets:
      - source: s_lab
        x-ss: 1
    credential_spec: {config: cs, registry: reg, x-cs: 1}
    healthcheck:
      test: ["CMD", "true"]
      start_interval: 5s
      x-hc: 1
    networks:
      n6:
        ipv6_address: 2001:db8::5
        link_local_ips: [169.254.0.5]
        mac_address: 02:42:ac:11:00:05
        driver_opts: {o: "1"}
        x-sn: 1
    volumes:
      - type: bind
        source: /r
        target: /r
        bind: {recursive: enabled, x-b: 1}
        x-v: 1
      - type: tmpfs
        target: /t
        tmpfs: {size: 1024, mode: 0755, x-t: 1}
      - type: volume
        source: dv
        target: /dv
        volume: {nocopy: true, x-vv: 1}
    ports:
      - target: 81
        x-p: 1
    depends_on:
      b2: {condition: service_started, x-d: 1}
    deploy:
      x-dep: 1
      resources:
        x-res: 1
        limits: {cpus: "1", x-lim: 1}
        reservations:
          generic_resources: [{discrete_resource_spec: {kind: k, value: 1, x-dr: 1}, x-gr: 1}]
      placement: {x-pl: 1, preferences: [{spread: s, x-pp: 1}]}
      restart_policy: {condition: any, x-rp: 1}
      update_config: {parallelism: 1, x-uc: 1}
    develop:
      x-dev: 1
      watch:
        - {path: ./b1, action: sync+exec, target: /b1, exec: {command: ["echo", "x"]}, x-tr: 1}
    logging: {driver: none, x-log: 1}
    blkio_config: {weight: 10, weight_device: [{path: /dev/sda, weight: 5}], device_read_bps: [{path: /dev/sda, rate: 1}]}
    ulimits: {nofile: {soft: 1, hard: 2, x-ul: 1}}
    devices:
      - source: /dev/a
        target: /dev/b
        permissions: rw
        x-dm: 1
    post_start: [{command: "true", x-hook: 1}]
  b2:
    image: b2
    build:
      context: .
      dockerfile_inline: |
        FROM alpine
        RUN echo hi
networks:
  n6:
    enable_ipv6: true
    ipam: {x-ipam: 1, config: [{subnet: 2001:db8::/64, x-pool: 1}]}
    x-net: 1
volumes:
  dv: {driver: local, x-vol: 1}
secrets:
  s_lab:
    file: ./s
    labels: {sl: "1"}
    driver: d
    driver_opts: {o: "1"}
    template_driver: golang
    x-sec: 1
configs:
  c_env:
    environment: CENV
    labels: {cl: "1"}
    x-cfg: 1
  c_drv:
    file: ./c
    template_driver: golang
`

const corpusOverride = `
services:
  web:
    build:
      args: [C_ARG=3, A_ARG=uno]
      ssh: {key3: ./k3, key1: ./k1bis}
      labels: [c.l=3, a.l=uno]
      additional_contexts: [extra=./extra, res=./res2]
      extra_hosts: {bh2: 10.0.0.10}
      tags: [t3, t1]
    command: other
    ports:
      - "8081:81"
      - "6000:6000"
    volumes:
      - ./src2:/src
      - newvol:/nv
    networks:
      front: {aliases: [w3, w1]}
      third: {}
    depends_on:
      extra: {condition: service_started}
    environment: {A_VAR: a2, NEW: n}
    env_file: [./c.env, ./a.env]
    labels: [com.c=3, com.a=uno]
    extra_hosts: {h3: 10.0.0.3, h1: 10.0.0.1}
    dns: 9.9.9.9
    dns_search: [b.example.com]
    dns_opt: [timeout:1]
    sysctls: [net.core.somaxconn=2048, kernel.x=1]
    ulimits: {nofile: {soft: 1, hard: 2}, core: 0}
    logging: {driver: json-file, options: {max-size: "20m"}}
    deploy:
      labels: {d.c: "3", d.a: uno}
    secrets: [{source: s_file, target: other}, s_extra]
    configs: [{source: c_file, target: /etc/other}]
    cap_add: [SYS_TIME, SYS_PTRACE]
    devices: ["/dev/null:/dev/ttyUSB1"]
    tmpfs: /run2
    annotations: [an.c=3, an.a=uno]
    healthcheck: {test: "curl -f http://x"}
    expose: [4000, "5000"]
    profiles: [debug]
  extra:
    image: extra
    profiles: [debug]
networks:
  third: {}
  front:
    ipam:
      config:
        - subnet: 10.5.0.0/16
          gateway: 10.5.0.254
        - subnet: 10.9.0.0/16
      options: {io3: c, io1: z}
    labels: {n.c: "3", n.a: uno}
volumes:
  newvol: {}
  data:
    labels: [v.c=3, v.a=uno]
secrets:
  s_extra: {environment: SECRET_EXTRA}
`

const corpusExtendsMain = `
services:
  app:
    extends: {service: mid}
    environment: [APP=1]
    ports: ["1000:1000"]
  mid:
    extends: {file: ./base/base.yaml, service: base2}
    environment: {MID: "1", SHARED: mid}
    labels: {l.mid: "1"}
    volumes: ["./midsrc:/mid"]
  other:
    extends: {file: ./base/base.yaml, service: base1}
    image: other
  sib:
    extends: {file: ./base/base.yaml, service: base2}
    environment: [SIB=1]
  local:
    extends: app
    command: local
`

const corpusExtendsBase = `
services:
  base1:
    image: base1
    build: {context: ./ctx1}
    environment: {B1: "1", SHARED: base1}
    env_file: ./base.env
    volumes: ["./b1:/b1"]
    labels: [l.base=1]
    ports: ["2000:2000"]
  base2:
    extends: base1
    environment: [B2=1, SHARED=base2]
    cap_add: [NET_ADMIN]
    depends_on: []
`

const corpusIncludeMain = `
include:
  - ./inc/one.yaml
  - path: ./inc2/two.yaml
    project_directory: ./inc2
    env_file: ./inc2/two.env
services:
  main:
    image: main:${MAINTAG:-latest}
    depends_on: [one, two]
    networks: [shared]
networks:
  shared: {}
`

const corpusIncludeOne = `
services:
  one:
    image: one:${ONETAG:-1}
    build: ./onectx
    volumes: ["./onedata:/d"]
    env_file: ./one.env
  onepass:
    image: onepass
    environment: [ONETAG, NOT_SET_ANYWHERE]
  oneplain:
    image: oneplain
volumes:
  onevol: {}
`

const corpusIncludeTwo = `
services:
  two:
    image: two:${TWOTAG}
    environment:
      - T=${TWOTAG}
    configs: [twoconf]
  twopass:
    image: twopass
    environment:
      - TWOTAG
      - MAINTAG
  twomapped:
    image: twomapped
    environment: {K: v, TWOTAG: }
  twoplain:
    image: twoplain
configs:
  twoconf: {file: ./two.conf}
`

const corpusProfiles = `
services:
  always: {image: a, depends_on: {opt: {condition: service_started, required: false}}}
  opt: {image: o, profiles: [p1]}
  both: {image: b, profiles: [p1, p2], depends_on: [opt]}
  q: {image: q, profiles: [p2]}
`

const corpusVersion = `
version: "3.8"
services:
  v: {image: v, ports: ["80"], scale: 2}
`

const corpusTypedStrings = `
services:
  typed:
    image: "t:${TAG:-1}"
    privileged: "true"
    init: "${INIT:-false}"
    read_only: "yes"
    cpus: "${CPUS:-0.5}"
    scale: "${N:-2}"
    pids_limit: "100"
    ports:
      - target: "80"
        published: "8080"
    healthcheck: {test: [CMD, x], retries: "3"}
    ulimits: {nofile: "1024"}
    deploy:
      replicas: "2"
networks:
  default:
    internal: "false"
`

// user-defined names in unusual but legal shapes: extension-like, dotted, numeric, with separators
const corpusOddNames = `
services:
  x-ray:
    image: "xr:${TAG:-1}"
    privileged: "true"
    scale: "${N:-2}"
    depends_on: [web.api, "007"]
    networks: [x-net, net.one]
    volumes: ["x-vol:/data", "vol.data.v1:/d2"]
    secrets: [x-sec, db.password]
    configs: [x-cfg]
    environment: {x-key: v, A.B: c}
    labels: {x-label: l, com.example.a: "1"}
  web.api:
    image: w
    depends_on:
      "007": {condition: service_started}
    ports: ["8009-8010:9-10"]
  "007":
    image: bond
  a_b-c:
    image: abc
    extends: {service: web.api}
networks:
  x-net: {internal: "false"}
  net.one: {driver: bridge}
volumes:
  x-vol: {}
  vol.data.v1: {labels: {x-l: "1"}}
secrets:
  x-sec: {file: ./s}
  db.password: {environment: DBPW}
configs:
  x-cfg: {content: "c ${TAG:-1}"}
`

// KEY=VALUE attributes in list spelling with every value shape; the environment defines some of the keys
const corpusKVShapes = `
services:
  kv:
    image: kv
    build:
      context: .
      args: [EMPTY=, BARE, SET=v, "SPACED=a b", "EQ=a=b", UNSET_BARE]
      labels: [EMPTY=, SET=v, "EQ=a=b"]
    environment: [EMPTY=, BARE, SET=v, "SPACED=a b", "EQ=a=b", UNSET_BARE]
    labels: [EMPTY=, SET=v, "EQ=a=b"]
    annotations: [EMPTY=, SET=v]
    extra_hosts: ["h1=1.1.1.1", "h2:2.2.2.2"]
    sysctls: [net.a=1, net.b=]
  kvmap:
    image: kvmap
    build:
      context: .
      args: {EMPTY: "", BARE: , SET: v, NUM: 1, BOOL: true}
    environment: {EMPTY: "", BARE: , SET: v, NUM: 1, BOOL: true, UNSET_BARE: }
    labels: {EMPTY: "", SET: v, NUM: 1}
`

// two services share an env file whose value refers to a variable each service defines differently in an earlier file
const corpusEnvChain = `
services:
  a:
    image: a
    env_file: [./a.env, ./shared.env]
  b:
    image: b
    env_file:
      - ./b.env
      - path: ./shared.env
        required: false
  c:
    image: c
    env_file: [./shared.env]
    environment: {HOST: from-c}
`

// entries of keyed lists stated twice, once in each spelling (the second statement of an entry says nothing new)
const corpusRestated = `
services:
  r:
    image: r
    ports:
      - "8080:80"
      - {target: 80, published: "8080"}
      - "127.0.0.1:9000:9000/udp"
      - {target: 9000, published: "9000", host_ip: 127.0.0.1, protocol: udp}
    volumes:
      - data:/d
      - {type: volume, source: data, target: /d}
    secrets:
      - sec
      - {source: sec}
    configs:
      - cfg
      - {source: cfg}
    env_file:
      - ./e.env
      - {path: ./e.env}
    expose: ["3000", 3000]
    dns: [1.1.1.1, 1.1.1.1]
    cap_add: [NET_ADMIN, NET_ADMIN]
volumes: {data: {}}
secrets: {sec: {file: ./s}}
configs: {cfg: {content: c}}
`

// anchors carrying merge tags, aliased by several services of an override file
const corpusAnchorTagsBase = `
services:
  api: {image: api, ports: ["8080:80"], environment: {A: "1"}, command: [base]}
  web: {image: web, ports: ["8081:81"], environment: {A: "1"}, command: [base]}
  job: {image: job, ports: ["8082:82"], environment: {A: "1"}, command: [base]}
`
const corpusAnchorTagsOver = `
x-ports: &ports !override ["9090:90"]
x-common: &common
  environment: !override {B: "2"}
  command: !reset null
services:
  api:
    ports: *ports
    <<: *common
  web:
    ports: *ports
    <<: *common
  job:
    <<: *common
`

// attributes that are present but empty: "set to nothing" is not "not set"
const corpusEmpties = `
services:
  e:
    image: e
    entrypoint: ""
    command: []
    environment: {}
    labels: []
    healthcheck: {disable: true}
    dns: []
    profiles: []
    cap_drop: []
    ports: []
    volumes: []
    user: ""
    working_dir: ""
  f:
    image: f
    entrypoint: []
    command: ""
    environment: []
    labels: {}
    depends_on: []
    networks: {}
    network_mode: none
`

// deprecated spellings that the loader still accepts (and warns about once)
const corpusLegacy = `
version: "3.8"
services:
  old:
    image: old
    volumes: ["data:/d"]
    networks: [net]
    secrets: [tok]
    configs: [cfg]
volumes:
  data:
    external: {name: shared_data}
networks:
  net:
    external: {name: shared_net}
secrets:
  tok:
    external: {name: vault_token}
configs:
  cfg:
    external: {name: shared_cfg}
`

// every substitution operator, nested and mixed, so that consecutive substitutions never use the same one
const corpusOperators = `
services:
  ops:
    image: "i:${SET:-d}"
    hostname: "${UNSET-d}"
    domainname: "${SET:+alt}"
    user: "${SET+alt}"
    working_dir: "/${SET:?must}"
    container_name: "c-${SET?must}"
    labels:
      a: "${UNSET:-${SET:+x}}"
      b: "${SET:+${UNSET-y}}"
      c: "${EMPTY:-e}${EMPTY-f}${EMPTY:+g}${EMPTY+h}"
      d: "$SET ${SET}"
    environment:
      K1: "${UNSET:-1}"
      K2: "${SET?x}"
      K3: "${UNSET+3}"
`

const corpusSymlinks = `
services:
  app:
    image: app
    build:
      context: ./one/src
    env_file: [./envlink.env]
    volumes:
      - ./chain/src:/chain
      - {type: bind, source: ./outer/inner/src, target: /nested}
    develop:
      watch:
        - {action: sync, path: ./plain/src, target: /plain}
        - {action: sync, path: ./one/src, target: /one}
        - {action: sync, path: ./chain/src, target: /chain}
        - {action: sync, path: ./outer/inner/src, target: /nested}
        - {action: rebuild, path: ./deep/src}
        - {action: rebuild, path: ./one/not-there-yet}
`

// corpusExtShapes: extension payloads of every shape, at every level that takes extensions; payloads are opaque: keys
// starting with x- inside a payload are data like any other
const corpusExtShapes = `
x-scalar: v
x-number: 3
x-list: [a, {x-in-list: 1, plain: 2}, [b]]
x-platform:
  tier: gold
  x-owner: team-a
  nested: {x-deep: {x-deeper: true}, other: {k: v}}
services:
  app:
    image: app
    x-svc: {x-inner: i, list: [{x-l: 1}]}
    build:
      context: .
      x-build: {x-b: 1}
    deploy:
      x-deploy: {x-d: [1, 2]}
      resources:
        x-res: {x-r: r}
    healthcheck:
      test: ["CMD", "true"]
      x-hc: {x-h: h}
    networks:
      front:
        x-attach: {x-a: a}
    volumes:
      - {type: volume, source: data, target: /d, x-mount: {x-m: m}}
networks:
  front:
    x-net: {x-n: n}
    ipam:
      x-ipam: {x-i: i}
volumes:
  data:
    x-vol: {x-v: [v]}
secrets:
  s1:
    file: ./s
    x-sec: {x-s: s}
configs:
  c1:
    content: c
    x-cfg: {x-c: c}
`

// corpusExtendsTree: three leaves sharing an intermediate service that extends a root, every level adding to the same sequences
const corpusExtendsTree = `
services:
  web:
    extends: {service: mid}
    cap_add: [NET_RAW]
    environment: [ROLE=web, OWN_WEB=1]
    dns: [10.0.0.3]
  worker:
    extends: {service: mid}
    cap_add: [SYS_TIME]
    environment: [ROLE=worker, OWN_WORKER=1]
    dns: [10.0.0.4]
  cron:
    extends: {service: mid}
    cap_add: [SYS_NICE]
    environment: [ROLE=cron]
    dns: [10.0.0.5]
  mid:
    extends: {service: root}
    cap_add: [CHOWN]
    environment: [TIER=mid]
    dns: [10.0.0.2]
  root:
    image: common
    cap_add: [NET_ADMIN, SYS_PTRACE]
    environment: [A=1, B=2]
    dns: [10.0.0.1, 10.0.1.1]
`

const corpusInvalidSchema = `
services:
  bad: {image: x, ports: {a: b}}
`

const corpusInvalidConsistency = `
services:
  bad: {image: x, networks: [nope]}
`

const corpusInvalidCycle = `
services:
  a: {image: a, depends_on: [b]}
  b: {image: b, depends_on: [a]}
`

// corpusWide: collections beyond the sizes at which library algorithms change behaviour (sort.Slice is an insertion
// sort up to 12 elements), with entries that compare equal under a partial key (two addresses of one host, two
// protocols of one port, two mounts of one source).
func corpusWide() string {
	var sb strings.Builder
	sb.WriteString("services:\n  wide:\n    image: wide\n    extra_hosts:\n")
	for i := 0; i < 9; i++ {
		fmt.Fprintf(&sb, "      - \"host%d=10.0.0.%d\"\n      - \"host%d=fd00::%d\"\n", i, i+1, i, i+1)
	}
	sb.WriteString("    build:\n      context: .\n      extra_hosts:\n")
	for i := 0; i < 7; i++ {
		fmt.Fprintf(&sb, "        bh%d: [\"10.1.0.%d\", \"fd01::%d\"]\n", i, i+1, i+1)
	}
	sb.WriteString("      args:\n")
	for i := 0; i < 14; i++ {
		fmt.Fprintf(&sb, "        ARG%02d: \"a%d\"\n", i, i)
	}
	sb.WriteString("    environment:\n")
	for i := 0; i < 16; i++ {
		fmt.Fprintf(&sb, "      - ENV%02d=v%d\n", 15-i, i)
	}
	sb.WriteString("    labels:\n")
	for i := 0; i < 16; i++ {
		fmt.Fprintf(&sb, "      lab.%02d: \"l%d\"\n", (i*7)%16, i)
	}
	sb.WriteString("    ports:\n")
	for i := 0; i < 7; i++ {
		fmt.Fprintf(&sb, "      - \"%d:80%d/tcp\"\n      - \"%d:80%d/udp\"\n", 9000+i, i, 9000+i, i)
	}
	sb.WriteString("    volumes:\n")
	for i := 0; i < 7; i++ {
		fmt.Fprintf(&sb, "      - data%d:/mnt/a%d\n      - data%d:/mnt/b%d:ro\n", i, i, i, i)
	}
	sb.WriteString("    networks:\n")
	for i := 0; i < 14; i++ {
		fmt.Fprintf(&sb, "      net%02d: {aliases: [w%d, w%db]}\n", (i*5)%14, i, i)
	}
	sb.WriteString("    depends_on:\n")
	for i := 0; i < 14; i++ {
		fmt.Fprintf(&sb, "      - dep%02d\n", (i*3)%14)
	}
	sb.WriteString("    dns: [")
	for i := 0; i < 14; i++ {
		fmt.Fprintf(&sb, "10.2.0.%d, ", 14-i)
	}
	sb.WriteString("10.2.0.99]\n    cap_add: [")
	for i := 0; i < 14; i++ {
		fmt.Fprintf(&sb, "CAP_%c, ", 'N'-i)
	}
	sb.WriteString("CAP_Z]\n    sysctls:\n")
	for i := 0; i < 14; i++ {
		fmt.Fprintf(&sb, "      net.x%02d: %d\n", (i*9)%14, i)
	}
	sb.WriteString("    secrets:\n")
	for i := 0; i < 13; i++ {
		fmt.Fprintf(&sb, "      - sec%02d\n", (i*4)%13)
	}
	// a second service with the long spellings: typed attributes inside list items at positions 0..11
	sb.WriteString("  wide2:\n    image: wide2\n    network_mode: none\n    ports:\n")
	for i := 0; i < 12; i++ {
		fmt.Fprintf(&sb, "      - {target: %d, published: \"%d\", protocol: tcp, mode: host}\n", 7000+i, 17000+i)
	}
	sb.WriteString("    volumes:\n")
	for i := 0; i < 6; i++ {
		fmt.Fprintf(&sb, "      - {type: volume, source: data%d, target: /w/a%d, read_only: true, volume: {nocopy: true}}\n", i, i)
		fmt.Fprintf(&sb, "      - {type: tmpfs, target: /w/t%d, tmpfs: {size: %d, mode: %d}}\n", i, 1000+i, 400+i)
	}
	sb.WriteString("    secrets:\n")
	for i := 0; i < 12; i++ {
		fmt.Fprintf(&sb, "      - {source: sec%02d, target: /run/secrets/w%d, mode: %d}\n", i, i, 256+i)
	}
	sb.WriteString("    configs:\n")
	for i := 0; i < 12; i++ {
		fmt.Fprintf(&sb, "      - {source: cfg%02d, target: /etc/w%d, mode: %d}\n", i, i, 256+i)
	}
	sb.WriteString("    env_file:\n")
	for i := 0; i < 12; i++ {
		fmt.Fprintf(&sb, "      - {path: ./w%d.env, required: false}\n", i)
	}
	sb.WriteString("    deploy:\n      resources:\n        reservations:\n          devices:\n")
	for i := 0; i < 12; i++ {
		fmt.Fprintf(&sb, "            - {capabilities: [gpu], driver: d%d, count: %d}\n", i, i+1)
	}
	sb.WriteString("    develop:\n      watch:\n")
	for i := 0; i < 12; i++ {
		fmt.Fprintf(&sb, "        - {action: sync, path: ./w%d, target: /w%d, ignore: [a, b]}\n", i, i)
	}
	for i := 0; i < 14; i++ {
		fmt.Fprintf(&sb, "  dep%02d:\n    image: dep\n    network_mode: none\n", i)
	}
	sb.WriteString("networks:\n")
	for i := 0; i < 14; i++ {
		fmt.Fprintf(&sb, "  net%02d: {}\n", i)
	}
	sb.WriteString("volumes:\n")
	for i := 0; i < 7; i++ {
		fmt.Fprintf(&sb, "  data%d: {}\n", i)
	}
	sb.WriteString("  bound: {driver: local, driver_opts: {type: none, o: bind, device: ./bound}}\n")
	sb.WriteString("secrets:\n")
	for i := 0; i < 13; i++ {
		fmt.Fprintf(&sb, "  sec%02d: {file: ./s}\n", i)
	}
	sb.WriteString("configs:\n")
	for i := 0; i < 12; i++ {
		fmt.Fprintf(&sb, "  cfg%02d: {content: c%d}\n", i, i)
	}
	return sb.String()
}

// CorpusScns returns the named corpus scenarios.
func CorpusScns() map[string]*Scn {
	files := func(kv ...string) map[string]string {
		m := map[string]string{}
		for i := 0; i+1 < len(kv); i += 2 {
			m[kv[i]] = kv[i+1]
		}
		return m
	}
	richFiles := func() map[string]string {
		return files("compose.yaml", corpusRich, "override.yaml", corpusOverride,
			"a.env", "FA=1\nSHARED=a\nZ_VAR=fromfile\n", "b.env", "FB=2\nSHARED=b\n", "c.env", "FC=3\nSHARED=c\n",
			"secret.txt", "filesecret", "conf.txt", "conf")
	}
	env := map[string]string{"SECRET_ENV": "CANARY-s3cr3t-env", "SECRET_EXTRA": "CANARY-extra", "FROM_ENV": "fromenv", "TAG": "9"}
	return map[string]*Scn{
		"rich":     {Files: richFiles(), Main: []string{"compose.yaml"}, Env: env},
		"override": {Files: richFiles(), Main: []string{"compose.yaml", "override.yaml"}, Env: env},
		"override-debug": {Files: richFiles(), Main: []string{"compose.yaml", "override.yaml"}, Env: env,
			Opts: nil},
		"extends": {Files: files("compose.yaml", corpusExtendsMain, "base/base.yaml", corpusExtendsBase, "base/base.env", "BE=1\n"),
			Main: []string{"compose.yaml"}},
		"include": {Files: files("compose.yaml", corpusIncludeMain, "inc/one.yaml", corpusIncludeOne, "inc/one.env", "O=1\n",
			"inc/.env", "ONETAG=fromdotenv\n", "inc2/two.yaml", corpusIncludeTwo, "inc2/two.env", "TWOTAG=fromenvfile\n", "inc2/two.conf", "c"),
			Main: []string{"compose.yaml"}, Env: map[string]string{"MAINTAG": "m"}},
		"rich2":         {Files: files("compose.yaml", corpusRich2, "misc.labels", "ML=1\n", "raw.env", "RAW=not interpolated #kept\n"), Main: []string{"compose.yaml"}},
		"rich3":         {Files: files("compose.yaml", corpusRich3, "s", "sec", "c", "cfg"), Main: []string{"compose.yaml"}, Env: map[string]string{"CENV": "CANARY-config-env"}},
		"typed-strings": {Files: files("compose.yaml", corpusTypedStrings), Main: []string{"compose.yaml"}},
		"odd-names":     {Files: files("compose.yaml", corpusOddNames, "s", "sec"), Main: []string{"compose.yaml"}, Env: map[string]string{"DBPW": "CANARY-dbpw"}},
		"kv-shapes":     {Files: files("compose.yaml", corpusKVShapes), Main: []string{"compose.yaml"}, Env: map[string]string{"EMPTY": "env-empty", "BARE": "env-bare", "SET": "env-set"}},
		"env-chain":     {Files: files("compose.yaml", corpusEnvChain, "a.env", "HOST=host-a\n", "b.env", "HOST=host-b\n", "shared.env", "URL=http://${HOST}/\nPLAIN=p\n"), Main: []string{"compose.yaml"}},
		"restated":      {Files: files("compose.yaml", corpusRestated, "s", "sec", "e.env", "E=1\n"), Main: []string{"compose.yaml"}},
		"anchor-tags":   {Files: files("compose.yaml", corpusAnchorTagsBase, "over.yaml", corpusAnchorTagsOver), Main: []string{"compose.yaml", "over.yaml"}},
		// local paths that run through symbolic links: one link, a link to a link, a second link below the first one,
		// a link whose target lies below another link, a link next to plain directories
		"symlinks": {Files: files("compose.yaml", corpusSymlinks,
			"real/src/", "", "one", SymlinkTo+"real",
			"mid", SymlinkTo+"real", "chain", SymlinkTo+"mid",
			"realo/", "", "reali/src/", "", "outer", SymlinkTo+"realo", "realo/inner", SymlinkTo+"../reali",
			"r2/real2/src/", "", "l2", SymlinkTo+"r2", "deep", SymlinkTo+"l2/real2",
			"plain/src/", "", "e.env", "E=1\n", "envlink.env", SymlinkTo+"e.env"), Main: []string{"compose.yaml"}},
		"wide":         {Files: files("compose.yaml", corpusWide(), "s", "sec"), Main: []string{"compose.yaml"}},
		"ext-shapes":   {Files: files("compose.yaml", corpusExtShapes, "s", "sec"), Main: []string{"compose.yaml"}},
		"extends-tree": {Files: files("compose.yaml", corpusExtendsTree), Main: []string{"compose.yaml"}},
		"empties":      {Files: files("compose.yaml", corpusEmpties), Main: []string{"compose.yaml"}},
		"legacy":       {Files: files("compose.yaml", corpusLegacy), Main: []string{"compose.yaml"}},
		"operators":    {Files: files("compose.yaml", corpusOperators), Main: []string{"compose.yaml"}, Env: map[string]string{"SET": "set", "EMPTY": ""}},
		"profiles":     {Files: files("compose.yaml", corpusProfiles), Main: []string{"compose.yaml"}},
		"version":      {Files: files("compose.yaml", corpusVersion), Main: []string{"compose.yaml"}},
		"bad-schema":   {Files: files("compose.yaml", corpusInvalidSchema), Main: []string{"compose.yaml"}},
		"bad-consist":  {Files: files("compose.yaml", corpusInvalidConsistency), Main: []string{"compose.yaml"}},
		"bad-cycle":    {Files: files("compose.yaml", corpusInvalidCycle), Main: []string{"compose.yaml"}},
		"missing-file": {Files: files("compose.yaml", corpusExtendsMain), Main: []string{"compose.yaml"}},
	}
}
