package props

import (
	"encoding/json"
	"fmt"
	"regexp"
	"strings"

	"github.com/compose-spec/compose-go/v2/loader"
	"github.com/compose-spec/compose-go/v2/types"
	"gopkg.in/yaml.v3"

	"verifh/core"
)

func init() { core.Register(c20{}) }

type c20 struct{}

func (c20) ID() string    { return "C20" }
func (c20) Level() string { return "exploration" }
func (c20) Rule() string {
	return "models with 1..3 secrets over source kinds {file, environment, external} and 1..2 configs over {file, environment, content, external} (all kind vectors), each environment value a unique canary from 9 shapes (plain, ': ', '#', quotes, multi-line, ${X}-looking, anchor-looking, leading '-', 200 bytes), referenced by a service / a build / nothing, delivered in the main file, an override file or an included file; for each: every rendering history of length <=3 over {YAML, JSON} x {default, with secret content} on the loaded project, on each derived project (profiles, enable, select, prune, environment/labels resolved, images) and on the reloaded default rendering. Oracle: no canary (raw, per line, JSON- or YAML-escaped) in any default rendering; config renders its source variable; with-content rendering decodes to exactly the canary; Content available on the project; project unchanged by rendering. distinct = distinct (model, history) outcomes"
}
func (c20) Assumptions() []string {
	return []string{
		"a leak is a canary occurring as a substring of the output in raw, JSON-escaped or YAML double-quoted form, or (multi-line canaries) any of its lines of >= 8 characters",
	}
}

var c20canaries = []string{
	"CANARYplain0001",
	"CANARY: colon-space 0002",
	"CANARY #hash 0003",
	"CANARY\"dq'sq 0004",
	"CANARYline1-0005\nCANARYline2-0005\n",
	"CANARY${X}-$Y-0006",
	"&CANARYanchor *alias 0007",
	"- CANARYdash 0008",
	"CANARY0009" + strings.Repeat("z", 190),
}

var c20plain = regexp.MustCompile(`^[A-Za-z0-9]+$`)

type c20obj struct {
	name   string
	kind   string // file | environment | content | external
	canary string
	envVar string
}

type c20model struct {
	id       string
	secrets  []c20obj
	configs  []c20obj
	refMode  int // 0 service, 1 build (secrets) , 2 none
	delivery string
}

func (m c20model) scn() *Scn {
	var sec, cfg strings.Builder
	env := map[string]string{"X": "xval"}
	decl := func(sb *strings.Builder, o c20obj) {
		switch o.kind {
		case "file":
			fmt.Fprintf(sb, "  %s: {file: ./%s.txt}\n", o.name, o.name)
		case "environment":
			fmt.Fprintf(sb, "  %s: {environment: %s}\n", o.name, o.envVar)
			env[o.envVar] = o.canary
		case "content":
			fmt.Fprintf(sb, "  %s: {content: literal-content-of-%s}\n", o.name, o.name)
		case "external":
			fmt.Fprintf(sb, "  %s: {external: true}\n", o.name)
		}
	}
	for _, o := range m.secrets {
		decl(&sec, o)
	}
	for _, o := range m.configs {
		decl(&cfg, o)
	}
	var svc strings.Builder
	svc.WriteString("  app:\n    image: app\n")
	switch m.refMode {
	case 0:
		svc.WriteString("    secrets:\n")
		for _, o := range m.secrets {
			fmt.Fprintf(&svc, "      - %s\n", o.name)
		}
		svc.WriteString("    configs:\n")
		for _, o := range m.configs {
			fmt.Fprintf(&svc, "      - source: %s\n        target: /etc/%s\n", o.name, o.name)
		}
	case 1:
		svc.WriteString("    build:\n      context: .\n      secrets:\n")
		for _, o := range m.secrets {
			fmt.Fprintf(&svc, "        - %s\n", o.name)
		}
	}
	svc.WriteString("  side:\n    image: side\n    profiles: [extra]\n    depends_on: [app]\n")
	resources := "secrets:\n" + sec.String() + "configs:\n" + cfg.String()
	files := map[string]string{}
	for _, o := range append(append([]c20obj{}, m.secrets...), m.configs...) {
		if o.kind == "file" {
			files[o.name+".txt"] = "file content of " + o.name
		}
	}
	s := &Scn{Files: files, Env: env}
	switch m.delivery {
	case "main":
		files["compose.yaml"] = "services:\n" + svc.String() + resources
		s.Main = []string{"compose.yaml"}
	case "override":
		files["compose.yaml"] = "services:\n" + svc.String()
		files["override.yaml"] = resources
		s.Main = []string{"compose.yaml", "override.yaml"}
	case "include":
		files["compose.yaml"] = "include:\n  - ./res.yaml\nservices:\n" + svc.String()
		files["res.yaml"] = resources
		s.Main = []string{"compose.yaml"}
	case "include-own-env":
		// the included project lives in its own directory and brings the values in its own .env
		// (values the dotenv grammar needs no quoting for; the others stay in the caller's environment)
		files["compose.yaml"] = "include:\n  - ./inc/res.yaml\nservices:\n" + svc.String()
		files["inc/res.yaml"] = resources
		dotenv := ""
		for _, o := range append(append([]c20obj{}, m.secrets...), m.configs...) {
			if o.kind == "file" {
				delete(files, o.name+".txt")
				files["inc/"+o.name+".txt"] = "file content of " + o.name
			}
			if o.kind == "environment" && c20plain.MatchString(o.canary) {
				dotenv += o.envVar + "=" + o.canary + "\n"
				delete(env, o.envVar)
			}
		}
		files["inc/.env"] = dotenv + "UNRELATED=1\n"
		s.Main = []string{"compose.yaml"}
	case "two-includes":
		// as include-own-env, plus a sibling included project that gives the same variables other values in its own .env
		// and declares a secret sourced from the first of them: each included project sees its own environment
		files["compose.yaml"] = "include:\n  - ./inc/res.yaml\n  - ./inc2/probe.yaml\nservices:\n" + svc.String()
		files["inc/res.yaml"] = resources
		dotenv, dotenv2, probeVar := "", "", ""
		for _, o := range append(append([]c20obj{}, m.secrets...), m.configs...) {
			if o.kind == "file" {
				delete(files, o.name+".txt")
				files["inc/"+o.name+".txt"] = "file content of " + o.name
			}
			if o.kind == "environment" && c20plain.MatchString(o.canary) {
				dotenv += o.envVar + "=" + o.canary + "\n"
				dotenv2 += o.envVar + "=siblingvalue\n"
				delete(env, o.envVar)
				if probeVar == "" && strings.HasPrefix(o.name, "s") {
					probeVar = o.envVar
				}
			}
		}
		files["inc/.env"] = dotenv + "UNRELATED=1\n"
		files["inc2/.env"] = dotenv2
		if probeVar == "" {
			probeVar = "NOWHERE_DEFINED"
		}
		files["inc2/probe.yaml"] = "secrets:\n  probe: {environment: " + probeVar + "}\n"
		s.Main = []string{"compose.yaml"}
	}
	return s
}

func c20models(quick bool) []c20model {
	var out []c20model
	skinds := []string{"file", "environment", "external"}
	ckinds := []string{"file", "environment", "content", "external"}
	can := 0
	next := func() string { c := c20canaries[can%len(c20canaries)]; can++; return c }
	for ns := 1; ns <= 3; ns++ {
		for nc := 1; nc <= 2; nc++ {
			tot := 1
			for i := 0; i < ns; i++ {
				tot *= 3
			}
			for i := 0; i < nc; i++ {
				tot *= 4
			}
			for v := 0; v < tot; v++ {
				x := v
				var m c20model
				hasEnv := false
				for i := 0; i < ns; i++ {
					k := skinds[x%3]
					x /= 3
					o := c20obj{name: fmt.Sprintf("s%d", i), kind: k}
					if k == "environment" {
						o.canary, o.envVar = next(), fmt.Sprintf("SVAR%d", i)
						hasEnv = true
					}
					m.secrets = append(m.secrets, o)
				}
				for i := 0; i < nc; i++ {
					k := ckinds[x%4]
					x /= 4
					o := c20obj{name: fmt.Sprintf("c%d", i), kind: k}
					if k == "environment" {
						o.canary, o.envVar = next(), fmt.Sprintf("CVAR%d", i)
						hasEnv = true
					}
					m.configs = append(m.configs, o)
				}
				if !hasEnv {
					continue
				}
				for ref := 0; ref < 3; ref++ {
					for _, del := range []string{"main", "override", "include", "include-own-env", "two-includes"} {
						if quick && ns == 3 && (ref != 0 || del != "main") {
							continue
						}
						mm := m
						mm.refMode, mm.delivery = ref, del
						mm.id = fmt.Sprintf("s%d-c%d-v%d-ref%d-%s", ns, nc, v, ref, del)
						out = append(out, mm)
					}
				}
			}
		}
	}
	return out
}

func c20leaks(out string, canary string) string {
	forms := []string{canary}
	if jb, err := json.Marshal(canary); err == nil {
		forms = append(forms, strings.Trim(string(jb), `"`))
	}
	for _, l := range strings.Split(canary, "\n") {
		if len(l) >= 8 {
			forms = append(forms, l)
		}
	}
	for _, f := range forms {
		if f != "" && strings.Contains(out, f) {
			return f
		}
	}
	return ""
}

type c20render struct {
	name string
	json bool
	with bool
}

var c20renders = []c20render{{"yaml", false, false}, {"json", true, false}, {"yaml+content", false, true}, {"json+content", true, true}}

// lastRaw is the byte slice returned by the most recent rendering (kept WITHOUT copying: a renderer that
// hands out memory it later reuses would change it behind the caller's back).
var lastRaw []byte

func c20do(p *types.Project, r c20render) (string, error) {
	var b []byte
	var err error
	perr := core.Try(func() error {
		switch {
		case !r.json && !r.with:
			b, err = p.MarshalYAML()
		case r.json && !r.with:
			b, err = p.MarshalJSON()
		case !r.json && r.with:
			b, err = p.MarshalYAML(types.WithSecretContent)
		default:
			b, err = p.MarshalJSON(types.WithSecretContent)
		}
		return nil
	})
	if perr != nil {
		return "", perr
	}
	lastRaw = b
	return string(b), err
}

// c20checkRender renders p with r and checks the oracle for this rendering.
func c20checkRender(m c20model, p *types.Project, r c20render, where string) *core.Violation {
	snap := snapshotOf(p)
	out, err := c20do(p, r)
	if err != nil {
		return &core.Violation{Key: "render-error:" + r.name, Msg: fmt.Sprintf("%s: %s rendering of %s fails: %v", m.id, r.name, where, err)}
	}
	if d := ProjectDiff(snap, p); d != "" || !deepEqualProjects(snap, p) {
		return &core.Violation{Key: "render-modifies-project:" + r.name, Msg: fmt.Sprintf("%s: %s rendering modified the project (%s)", m.id, r.name, where)}
	}
	if !r.with {
		for _, o := range append(append([]c20obj{}, m.secrets...), m.configs...) {
			if o.kind != "environment" {
				continue
			}
			if f := c20leaks(out, o.canary); f != "" {
				what := "secret"
				if strings.HasPrefix(o.name, "c") {
					what = "config"
				}
				return &core.Violation{Key: "leak:" + what + ":" + r.name + ":" + whereClass(where),
					Msg: fmt.Sprintf("%s: the value of environment-sourced %s %s (%q) appears in the default %s rendering of %s", m.id, what, o.name, trunc(f, 40), r.name, where), Detail: out}
			}
		}
		return nil
	}
	// with secret content: decoded content equals the canary exactly
	var doc map[string]any
	if err := yaml.Unmarshal([]byte(out), &doc); err != nil {
		return &core.Violation{Key: "render-unparsable:" + r.name, Msg: fmt.Sprintf("%s: %s rendering is not parsable: %v", m.id, r.name, err)}
	}
	secs, _ := doc["secrets"].(map[string]any)
	for _, o := range m.secrets {
		if o.kind != "environment" {
			continue
		}
		if _, kept := p.Secrets[o.name]; !kept {
			continue // pruned by a derivation
		}
		e, _ := secs[o.name].(map[string]any)
		got, _ := e["content"].(string)
		if got != o.canary {
			return &core.Violation{Key: "content-not-exact:" + r.name, Msg: fmt.Sprintf("%s: rendering %s with secret content gives %q for secret %s, expected %q (%s)", m.id, r.name, trunc(got, 60), o.name, trunc(o.canary, 60), where)}
		}
	}
	return nil
}

func whereClass(w string) string {
	if i := strings.Index(w, ":"); i > 0 {
		return w[:i]
	}
	return w
}

func deepEqualProjects(a, b *types.Project) bool {
	return Canon(a, "") == Canon(b, "") && fmt.Sprint(secretFlags(a)) == fmt.Sprint(secretFlags(b))
}

// secretFlags exposes the unexported marshalling flag through the observable behaviour only:
// the default rendering of each secret alone.
func secretFlags(p *types.Project) []string {
	var out []string
	for _, k := range sortedKeys(p.Secrets) {
		b, _ := json.Marshal(p.Secrets[k])
		out = append(out, string(b))
	}
	return out
}

func (c20) Run(c *core.Ctx) {
	models := c20models(c.Quick())
	// rendering histories of length <= 3 ending in any rendering
	var hists [][]int
	var gen func(prefix []int, d int)
	gen = func(prefix []int, d int) {
		if len(prefix) > 0 {
			hists = append(hists, append([]int{}, prefix...))
		}
		if d == 0 {
			return
		}
		for i := range c20renders {
			gen(append(prefix, i), d-1)
		}
	}
	hd := 2
	if !c.Quick() {
		hd = 3
	}
	gen(nil, hd)
	// the same models under every load option that changes which loader stages run: each rendering once
	optSets := []struct {
		name string
		fn   func(*loader.Options)
	}{
		{"SkipResolveEnvironment", func(o *loader.Options) { o.SkipResolveEnvironment = true }},
		{"SkipNormalization", func(o *loader.Options) { o.SkipNormalization = true }},
		{"SkipConsistencyCheck", func(o *loader.Options) { o.SkipConsistencyCheck = true }},
		{"NoResolvePaths", func(o *loader.Options) { o.ResolvePaths = false }},
		{"SkipDefaultValues", func(o *loader.Options) { o.SkipDefaultValues = true }},
		{"SkipValidation", func(o *loader.Options) { o.SkipValidation = true }},
		{"KnownExtensions", func(o *loader.Options) {
			o.KnownExtensions = map[string]any{"x-known": struct {
				A string `yaml:"a" json:"a"`
			}{}}
		}},
		{"all-skips", func(o *loader.Options) {
			o.SkipResolveEnvironment, o.SkipNormalization, o.SkipConsistencyCheck, o.SkipDefaultValues, o.SkipValidation = true, true, true, true, true
			o.ResolvePaths = false
		}},
	}
	for _, m := range models {
		for _, os := range optSets {
			if c.Expired() {
				return
			}
			m, os := m, os
			c.Do(m.id+"/opt/"+os.name, func() core.Outcome {
				s := m.scn()
				s.Opts = []func(*loader.Options){os.fn}
				root := s.Materialise()
				p, err := s.LoadAt(root)
				sample := map[string]any{"model": m.id, "files": s.Files, "load_option": os.name}
				if err != nil {
					return core.Outcome{Class: "load-failed", Trivial: true}
				}
				for _, r := range c20renders {
					lastRaw = nil
					if v := c20checkRender(m, snapshotOf(p), r, "loaded with "+os.name); v != nil {
						v.Key += ":" + os.name
						return core.Outcome{Class: "viol", Sample: sample, Viol: v}
					}
				}
				return core.Outcome{Class: m.id + "/" + os.name, Sample: sample}
			})
		}
	}
	for _, m := range models {
		if c.Expired() {
			return
		}
		m := m
		c.Do(m.id, func() core.Outcome {
			s := m.scn()
			root := s.Materialise()
			p, err := s.LoadAt(root)
			sample := map[string]any{"model": m.id, "files": s.Files}
			if err != nil {
				// not a C20 matter (an environment-sourced config in an included file is rejected: see C06)
				c.Count("models_that_do_not_load", 1)
				return core.Outcome{Class: "load-failed", Trivial: true}
			}
			// value available on the project
			if pr, ok := p.Secrets["probe"]; ok && m.delivery == "two-includes" {
				want := ""
				if pr.Environment != "NOWHERE_DEFINED" {
					want = "siblingvalue"
				}
				if pr.Content != want {
					return core.Outcome{Class: "probe", Sample: sample, Viol: &core.Violation{Key: "secret-value-from-another-include",
						Msg: fmt.Sprintf("%s: secret probe of the second included project (environment: %s) has content %q, expected %q from that project's own .env", m.id, pr.Environment, trunc(pr.Content, 40), want)}}
				}
			}
			for _, o := range m.secrets {
				if o.kind == "environment" && p.Secrets[o.name].Content != o.canary {
					return core.Outcome{Class: "content-missing", Sample: sample, Viol: &core.Violation{Key: "content-not-on-project",
						Msg: fmt.Sprintf("%s: Project.Secrets[%s].Content = %q, expected the environment value", m.id, o.name, trunc(p.Secrets[o.name].Content, 40))}}
				}
			}
			// config renders its source variable
			y0, _ := c20do(p, c20renders[0])
			for _, o := range m.configs {
				if o.kind == "environment" && !strings.Contains(y0, "environment: "+o.envVar) {
					return core.Outcome{Class: "config-source", Sample: sample, Viol: &core.Violation{Key: "config-source-not-rendered",
						Msg: fmt.Sprintf("%s: config %s does not render `environment: %s`", m.id, o.name, o.envVar), Detail: y0}}
				}
			}
			n := 0
			// projects to render: loaded, derived, reloaded
			type proj struct {
				where string
				p     *types.Project
			}
			projs := []proj{{"loaded", p}}
			add := func(w string, q *types.Project, err error) {
				if err == nil && q != nil {
					projs = append(projs, proj{"derived:" + w, q})
				}
			}
			q, e := p.WithProfiles([]string{"extra"})
			add("WithProfiles", q, e)
			q, e = p.WithServicesEnabled("side")
			add("WithServicesEnabled", q, e)
			q, e = p.WithSelectedServices([]string{"app"})
			add("WithSelectedServices", q, e)
			add("WithoutUnnecessaryResources", p.WithoutUnnecessaryResources(), nil)
			q, e = p.WithServicesEnvironmentResolved(true)
			add("WithServicesEnvironmentResolved", q, e)
			q, e = p.WithServicesTransform(func(_ string, s types.ServiceConfig) (types.ServiceConfig, error) { return s, nil })
			add("WithServicesTransform", q, e)
			if y0 != "" {
				// the rendering is reloaded with every variable the original load saw (the included project's .env counted)
				fullEnv := map[string]string{}
				for k, v := range s.Env {
					fullEnv[k] = v
				}
				for _, o := range append(append([]c20obj{}, m.secrets...), m.configs...) {
					if o.kind == "environment" {
						fullEnv[o.envVar] = o.canary
					}
				}
				rs := &Scn{Files: map[string]string{"__r.yaml": y0}, Main: []string{"__r.yaml"}, Env: fullEnv, Opts: []func(*loader.Options){}}
				rs.MaterialiseAt(root)
				if rp, err := rs.LoadAt(root); err == nil {
					projs = append(projs, proj{"reloaded", rp})
				}
			}
			for _, pr := range projs {
				for _, h := range hists {
					// each history on a fresh copy of the project (the library's own deep copy is not trusted here)
					cp := snapshotOf(pr.p)
					type held struct {
						raw  []byte
						copy string
						r    c20render
					}
					var kept []held
					for i, ri := range h {
						n++
						lastRaw = nil
						if v := c20checkRender(m, cp, c20renders[ri], fmt.Sprintf("%s after renderings %v", pr.where, h[:i])); v != nil {
							return core.Outcome{Class: "viol", Sample: sample, Viol: v}
						}
						// outputs handed out earlier must still read the same, and still not contain a canary
						for _, k := range kept {
							if string(k.raw) != k.copy {
								leak := ""
								if !k.r.with {
									for _, o := range append(append([]c20obj{}, m.secrets...), m.configs...) {
										if o.kind == "environment" && c20leaks(string(k.raw), o.canary) != "" {
											leak = " and now shows the value of " + o.name
										}
									}
								}
								return core.Outcome{Class: "viol", Sample: sample, Viol: &core.Violation{Key: "returned-output-overwritten:" + k.r.name,
									Msg: fmt.Sprintf("%s: the bytes returned by an earlier %s rendering were changed by a later %s rendering%s (%s, history %v)", m.id, k.r.name, c20renders[ri].name, leak, pr.where, h)}}
							}
						}
						if lastRaw != nil {
							kept = append(kept, held{lastRaw, string(lastRaw), c20renders[ri]})
						}
					}
				}
			}
			c.Count("renderings", int64(n))
			return core.Outcome{Class: m.id, Sample: sample}
		})
	}
}
