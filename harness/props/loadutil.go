package props

import (
	"bytes"
	"context"
	"crypto/sha256"
	"encoding/hex"
	"encoding/json"
	"fmt"
	"io"
	"os"
	"path/filepath"
	"sort"
	"strings"
	"sync"
	"time"

	"github.com/compose-spec/compose-go/v2/dotenv"
	"github.com/compose-spec/compose-go/v2/loader"
	"github.com/compose-spec/compose-go/v2/types"

	"verifh/core"
)

// Scn is a closed load scenario: files on disk, environment, options.
type Scn struct {
	Files map[string]string // path relative to the scenario root -> content
	Main  []string          // compose files, relative to root
	Env   map[string]string
	WD    string // working directory relative to root ("" = root)
	Name  string // explicit project name ("" = "proj"; "-" = none)
	Opts  []func(*loader.Options)
	// InMem: pass the main files' content in memory instead of by file name only
	InMem bool
	// RelNames: (with InMem) name the main files relative to the working directory, as callers holding the content may
	RelNames bool
}

// RootToken in an Env value stands for the scenario's root directory.
const RootToken = "<<ROOT>>"

// UnboundedRecursion is the panic value of the guard every load carries: more include/extends events than any
// scenario of this harness can legitimately produce means the loader is not terminating.
const UnboundedRecursion = "verif: more than 5000 include/extends events in one load: unbounded recursion"

func recursionGuard() func(*loader.Options) {
	return func(o *loader.Options) {
		n := 0
		o.Listeners = append(o.Listeners, func(event string, _ map[string]any) {
			if event == "include" || event == "extends" {
				n++
				if n > 5000 {
					panic(UnboundedRecursion)
				}
			}
		})
	}
}

var scratchOnce sync.Once
var scratchRoot string
var scratchSeq int

// Scratch returns this process's scratch directory (removed by CleanScratch).
func Scratch() string {
	scratchOnce.Do(func() {
		d, err := os.MkdirTemp(os.Getenv("VERIF_SCRATCH"), "verifw-")
		if err != nil {
			panic(err)
		}
		scratchRoot = d
	})
	return scratchRoot
}

func CleanScratch() {
	if scratchRoot != "" {
		os.RemoveAll(scratchRoot)
	}
}

// Materialise writes the scenario's files under a fresh directory and returns it.
func (s *Scn) Materialise() string {
	scratchSeq++
	root := filepath.Join(Scratch(), fmt.Sprintf("s%d", scratchSeq))
	s.MaterialiseAt(root)
	return root
}

func (s *Scn) MaterialiseAt(root string) {
	os.MkdirAll(root, 0o755)
	for p, c := range s.Files {
		full := filepath.Join(root, p)
		os.MkdirAll(filepath.Dir(full), 0o755)
		if strings.HasSuffix(p, "/") {
			os.MkdirAll(full, 0o755)
			continue
		}
		if strings.HasPrefix(c, SymlinkTo) {
			// a symbolic link: the target is relative to the link's directory unless absolute
			os.Remove(full)
			os.Symlink(strings.TrimPrefix(c, SymlinkTo), full)
			continue
		}
		os.WriteFile(full, []byte(c), 0o644)
	}
}

// SymlinkTo marks a Files entry as a symbolic link to the path that follows the marker.
const SymlinkTo = "\x00symlink:"

// Details builds the ConfigDetails of the scenario rooted at root.
func (s *Scn) Details(root string) types.ConfigDetails {
	wd := filepath.Join(root, s.WD)
	env := map[string]string{}
	for k, v := range s.Env {
		env[k] = strings.ReplaceAll(v, RootToken, root)
	}
	cd := types.ConfigDetails{WorkingDir: wd, Environment: env}
	for _, m := range s.Main {
		cf := types.ConfigFile{Filename: filepath.Join(root, m)}
		if s.InMem {
			cf.Content = []byte(s.Files[m])
			if s.RelNames {
				if rel, err := filepath.Rel(wd, cf.Filename); err == nil {
					cf.Filename = rel
				}
			}
		}
		cd.ConfigFiles = append(cd.ConfigFiles, cf)
	}
	return cd
}

// LoadDetails loads with a ConfigDetails value supplied by the caller (possibly shared with other loads).
// imperativeName: set the project name through the option, as LoadAt does; otherwise the loader derives it.
func (s *Scn) LoadDetails(cd types.ConfigDetails, imperativeName bool) (p *types.Project, err error) {
	opts := append([]func(*loader.Options){recursionGuard()}, s.Opts...)
	if imperativeName {
		opts = append([]func(*loader.Options){func(o *loader.Options) { o.SetProjectName("proj", true) }}, opts...)
	}
	perr := core.Try(func() error {
		p, err = loader.LoadWithContext(context.Background(), cd, opts...)
		return nil
	})
	if perr != nil {
		return nil, perr
	}
	return p, err
}

// LoadAt loads the scenario materialised at root. Panics become *core.PanicError.
func (s *Scn) LoadAt(root string) (p *types.Project, err error) {
	cd := s.Details(root)
	opts := append([]func(*loader.Options){recursionGuard()}, s.Opts...)
	name := s.Name
	if name == "" {
		name = "proj"
	}
	if name != "-" {
		opts = append([]func(*loader.Options){func(o *loader.Options) { o.SetProjectName(name, true) }}, opts...)
	}
	perr := core.Try(func() error {
		p, err = loader.LoadWithContext(context.Background(), cd, opts...)
		return nil
	})
	if perr != nil {
		return nil, perr
	}
	return p, err
}

// Load materialises, loads and removes the scenario directory.
func (s *Scn) Load() (*types.Project, error, string) {
	root := s.Materialise()
	p, err := s.LoadAt(root)
	return p, err, root
}

// Render returns the YAML and JSON renderings (panics and errors folded into the strings).
func Render(p *types.Project) (y, j string, err error) {
	perr := core.Try(func() error {
		yb, e := p.MarshalYAML()
		if e != nil {
			return fmt.Errorf("MarshalYAML: %w", e)
		}
		jb, e := p.MarshalJSON()
		if e != nil {
			return fmt.Errorf("MarshalJSON: %w", e)
		}
		y, j = string(yb), string(jb)
		return nil
	})
	return y, j, perr
}

// Canon renders a project to a canonical JSON text (Go's encoding/json sorts map keys),
// including the fields the YAML/JSON renderings omit. root is replaced by a placeholder.
func Canon(p *types.Project, root string) string {
	if p == nil {
		return "<nil>"
	}
	type full struct {
		Name             string
		WorkingDir       string
		Services         types.Services
		Networks         types.Networks
		Volumes          types.Volumes
		Secrets          types.Secrets
		Configs          types.Configs
		Extensions       types.Extensions
		ComposeFiles     []string
		Environment      types.Mapping
		DisabledServices types.Services
		Profiles         []string
		SecretContent    map[string]string
		SvcExt           map[string]any
	}
	f := full{p.Name, p.WorkingDir, p.Services, p.Networks, p.Volumes, p.Secrets, p.Configs, p.Extensions,
		p.ComposeFiles, p.Environment, p.DisabledServices, p.Profiles, map[string]string{}, map[string]any{}}
	for k, s := range p.Secrets {
		f.SecretContent[k] = s.Content
	}
	var b []byte
	perr := core.Try(func() error {
		var e error
		b, e = json.Marshal(f)
		return e
	})
	if perr != nil {
		return "<canon-error: " + perr.Error() + ">"
	}
	s := string(b)
	if root != "" {
		s = strings.ReplaceAll(s, root, "<ROOT>")
	}
	return s
}

func Digest(parts ...string) string {
	h := sha256.New()
	for _, p := range parts {
		h.Write([]byte(p))
		h.Write([]byte{0})
	}
	return hex.EncodeToString(h.Sum(nil))[:16]
}

// ErrClass gives a coarse, message-independent class of an error.
func ErrClass(err error) string {
	if err == nil {
		return "ok"
	}
	if pe, ok := err.(*core.PanicError); ok {
		return "panic@" + pe.Site
	}
	return "error"
}

func sortedKeys[V any](m map[string]V) []string {
	ks := make([]string, 0, len(m))
	for k := range m {
		ks = append(ks, k)
	}
	sort.Strings(ks)
	return ks
}

func firstDiff(a, b string) string {
	la, lb := strings.Split(a, "\n"), strings.Split(b, "\n")
	for i := 0; i < len(la) && i < len(lb); i++ {
		if la[i] != lb[i] {
			return fmt.Sprintf("line %d: %q vs %q", i+1, trunc(la[i], 160), trunc(lb[i], 160))
		}
	}
	if len(la) != len(lb) {
		return fmt.Sprintf("lengths differ: %d vs %d lines", len(la), len(lb))
	}
	// single-line texts: find the byte
	for i := 0; i < len(a) && i < len(b); i++ {
		if a[i] != b[i] {
			lo := i - 60
			if lo < 0 {
				lo = 0
			}
			return fmt.Sprintf("byte %d: …%q vs …%q", i, trunc(a[lo:], 140), trunc(b[lo:], 140))
		}
	}
	return "equal"
}

func trunc(s string, n int) string {
	if len(s) > n {
		return s[:n] + "…"
	}
	return s
}

var _ = bytes.NewBuffer

func init() { core.AtExit(CleanScratch) }

func nowNano() int64 { return time.Now().UnixNano() }

func init() {
	// an env_file `format` the corpus can use: KEY=VALUE lines, no quoting, no interpolation
	dotenv.RegisterFormat("raw", func(r io.Reader, filename string, lookup func(key string) (string, bool)) (map[string]string, error) {
		b, err := io.ReadAll(r)
		if err != nil {
			return nil, err
		}
		out := map[string]string{}
		for _, l := range strings.Split(string(b), "\n") {
			if k, v, ok := strings.Cut(l, "="); ok {
				out[k] = v
			}
		}
		return out, nil
	})
}

// RepoDir is the compose-go tree the harness was built against (/repo unless VERIF_REPO says otherwise,
// which only the self-test of seeded changes uses).
func RepoDir() string {
	if d := os.Getenv("VERIF_REPO"); d != "" {
		return d
	}
	return "/repo"
}
