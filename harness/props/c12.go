package props

import (
	"context"
	"fmt"
	"os"
	"path/filepath"
	"sort"
	"strings"

	"github.com/compose-spec/compose-go/v2/loader"
	"github.com/compose-spec/compose-go/v2/types"

	"verifh/core"
)

func init() { core.Register(c12{}) }

type c12 struct{}

func (c12) ID() string    { return "C12" }
func (c12) Level() string { return "exploration" }
func (c12) Rule() string {
	return "10 path-bearing attribute kinds (build context, additional context, env_file, label_file, bind source in short and long syntax, secret file, config file, develop watch path, bind device of a local volume) x 17 path shapes (./x, x/y, ../x, ., /abs, ~/x, ~, C:\\x, \\\\srv\\share, https://, git@, docker-image://, ssh://) x 12 origins (main, main given as content under a relative name, base and extending service in one file - in the main file and in an included file -, override, include depth 1, include depth 2, extended base in another directory, extended base used from an included file, extended base / included file in a sibling directory whose name starts with the project directory's name) x 3 working-directory shapes, and again with the service and resources named with an x- prefix, and with a remote resource loader registered that recognises none of the references, with resolution on (and off for main/override); expected value from the anchoring reference (Appendix A.5); references recognised by one of three registered remote loaders (each position; directly and nested below a file extended from another directory); plus the corpus documents with `./p` placed in every non-path string position (nothing may be anchored), and idempotence (render, reload, compare). distinct = distinct (attribute, shape, origin) outcomes"
}
func (c12) Assumptions() []string {
	return []string{
		"HOME is set (every case with a ~ path runs under two home directories one after the other); Windows path strings are exercised on Linux; a relative working directory is not exercised (the worker does not chdir)",
		"URL-like shapes are asserted for build contexts only; for other attributes they are ordinary relative paths by the statement",
	}
}

type c12attr struct {
	name string
	// doc returns (service body lines, top-level lines) with path v
	doc func(v string) (string, string)
	// get extracts the loaded value
	get      func(p *types.Project) string
	context  bool // build context kind: URL-like values are left as written
	winAbsOK bool // Windows-absolute values are left as written
	needFile bool // the loader opens the file: only relative shapes inside the tree are used
	bindOnly bool // short volume syntax: the source must look like a path
}

func yq(s string) string { return "'" + strings.ReplaceAll(s, "'", "''") + "'" }

// c12pre is put in front of the names of the service and of the resources of the case being run ("" or "x-": a
// resource may be named like an extension key and is a resource all the same).
var c12pre = ""

func c12attrs() []c12attr {
	svc := func(p *types.Project) types.ServiceConfig { return p.Services[c12pre+"s"] }
	return []c12attr{
		{name: "build.context", context: true, doc: func(v string) (string, string) { return "    build: {context: " + yq(v) + "}\n", "" },
			get: func(p *types.Project) string { return svc(p).Build.Context }},
		{name: "build.additional_contexts", context: true, doc: func(v string) (string, string) {
			return "    build:\n      context: .\n      additional_contexts:\n        extra: " + yq(v) + "\n", ""
		}, get: func(p *types.Project) string { return svc(p).Build.AdditionalContexts["extra"] }},
		{name: "env_file", doc: func(v string) (string, string) {
			return "    image: i\n    env_file:\n      - {path: " + yq(v) + ", required: false}\n", ""
		}, get: func(p *types.Project) string { return svc(p).EnvFiles[0].Path }},
		{name: "label_file", needFile: true, doc: func(v string) (string, string) { return "    image: i\n    label_file: [" + yq(v) + "]\n", "" },
			get: func(p *types.Project) string { return svc(p).LabelFiles[0] }},
		{name: "volume.short", winAbsOK: true, bindOnly: true, doc: func(v string) (string, string) { return "    image: i\n    volumes: [" + yq(v+":/t") + "]\n", "" },
			get: func(p *types.Project) string { return svc(p).Volumes[0].Source }},
		{name: "volume.bind", winAbsOK: true, doc: func(v string) (string, string) {
			return "    image: i\n    volumes:\n      - {type: bind, source: " + yq(v) + ", target: /t}\n", ""
		}, get: func(p *types.Project) string { return svc(p).Volumes[0].Source }},
		{name: "secret.file", winAbsOK: true, doc: func(v string) (string, string) { return "    image: i\n", "secrets:\n  sec: {file: " + yq(v) + "}\n" },
			get: func(p *types.Project) string { return p.Secrets[c12pre+"sec"].File }},
		{name: "config.file", winAbsOK: true, doc: func(v string) (string, string) { return "    image: i\n", "configs:\n  cfg: {file: " + yq(v) + "}\n" },
			get: func(p *types.Project) string { return p.Configs[c12pre+"cfg"].File }},
		{name: "develop.watch.path", doc: func(v string) (string, string) {
			return "    image: i\n    develop:\n      watch:\n        - {path: " + yq(v) + ", action: rebuild}\n", ""
		}, get: func(p *types.Project) string { return svc(p).Develop.Watch[0].Path }},
		{name: "volume.device", winAbsOK: true, doc: func(v string) (string, string) {
			return "    image: i\n", "volumes:\n  data:\n    driver: local\n    driver_opts: {type: none, o: bind, device: " + yq(v) + "}\n"
		}, get: func(p *types.Project) string { return p.Volumes[c12pre+"data"].DriverOpts["device"] }},
	}
}

type c12shape struct {
	v    string
	kind string // rel | abs | home | win | url
}

var c12shapes = []c12shape{
	{"./x", "rel"}, {"x/y", "rel"}, {"../x", "rel"}, {".", "rel"}, {"/abs/p", "abs"}, {"~/x", "home"}, {"~", "home"},
	{`C:\x`, "win"}, {`\\srv\share\dir`, "win"}, {"https://h.example/r.git", "url"}, {"git@h.example:r", "url"}, {"docker-image://img", "url"}, {"ssh://h.example/r", "url"},
	// scheme:// references that are not well-formed URLs (a tag, a digest, a stage name after the host part)
	{"docker-image://alpine:3.19", "url"}, {"docker-image://reg.example:5000/img:tag", "url"}, {"oci-layout://store@sha256:0123abcd", "url"}, {"target://base:stage", "url"},
}

// non-path positions receiving "./p": none of them may be anchored
var c12nonPath = []string{"image", "command", "entrypoint", "working_dir", "user", "hostname", "container_name", "labels", "environment", "extra_hosts", "dns_search", "logging.options", "healthcheck.test", "volume.named"}

func (c12) Run(c *core.Ctx) {
	home, _ := os.UserHomeDir()
	attrs := c12attrs()
	origins := []string{"main", "main-content-relname", "override", "include1", "include2", "extends-samefile", "extends-samefile-in-include", "extends-otherdir", "extends-in-include", "extends-shared", "extends-prefix-sibling", "include-prefix-sibling"}
	wds := []string{"proj", "proj dir", "nested/deep/proj"}
	for _, a := range attrs {
		for _, sh := range c12shapes {
			if a.needFile && sh.kind != "rel" {
				continue
			}
			if a.bindOnly && (sh.v == "x/y" || sh.kind == "url" || sh.v == `\\srv\share\dir`) {
				continue // not a path in the short volume grammar (named volume / not addressed)
			}
			if sh.kind == "url" && !a.context {
				continue
			}
			if a.name == "env_file" && (sh.v == "." || sh.v == "~") {
				continue // denotes a directory: the loader reads env files
			}
			for _, origin := range origins {
				for wi, wd := range wds {
					if c.Quick() && wi > 0 && (origin != "main" && origin != "include1") {
						continue
					}
					for _, resolve := range []bool{true, false} {
						if !resolve && origin != "main" && origin != "override" {
							continue
						}
						a, sh, origin, wd, resolve := a, sh, origin, wd, resolve
						id := fmt.Sprintf("%s/%s/%s/wd%d/r%v", a.name, sh.v, origin, wi, resolve)
						c.Do(id, func() core.Outcome { c12pre = ""; return c12case(id, a, sh, origin, wd, resolve, home) })
						if wi == 0 && resolve {
							// the same with a remote resource loader registered that recognises none of the references
							c.Do(id+"/idle-remote-loader", func() core.Outcome {
								c12pre = ""
								c12idleLoader = true
								defer func() { c12idleLoader = false }()
								return c12case(id+"/idle-remote-loader", a, sh, origin, wd, resolve, home)
							})
						}
						if (wi == 0 || !c.Quick()) && resolve {
							// the same with the service and the resources named like extension keys
							c.Do(id+"/x-names", func() core.Outcome {
								c12pre = "x-"
								defer func() { c12pre = "" }()
								return c12case(id+"/x-names", a, sh, origin, wd, resolve, home)
							})
						}
					}
				}
			}
		}
	}
	// universal part: "./p" in non-path string positions
	c12remotes(c)
	for _, pos := range c12nonPath {
		pos := pos
		c.Do("nonpath/"+pos, func() core.Outcome {
			body := "    image: img\n"
			top := ""
			switch pos {
			case "image":
				body = "    image: ./p\n"
			case "command":
				body += "    command: [./p, run]\n"
			case "entrypoint":
				body += "    entrypoint: ./p\n"
			case "working_dir":
				body += "    working_dir: ./p\n"
			case "user":
				body += "    user: ./p\n"
			case "hostname":
				body += "    hostname: ./p\n"
			case "container_name":
				body += "    container_name: ./p\n"
			case "labels":
				body += "    labels: {l: ./p}\n"
			case "environment":
				body += "    environment: {E: ./p}\n"
			case "extra_hosts":
				body += "    extra_hosts: {./p: 1.2.3.4}\n"
			case "dns_search":
				body += "    dns_search: [./p]\n"
			case "logging.options":
				body += "    logging: {driver: d, options: {o: ./p}}\n"
			case "healthcheck.test":
				body += "    healthcheck: {test: [CMD, ./p]}\n"
			case "volume.named":
				body += "    volumes: [\"named:/t\"]\n"
				top = "volumes:\n  named: {}\n"
			}
			doc := "services:\n  s:\n" + body + top
			s := &Scn{Files: map[string]string{"proj/compose.yaml": doc}, Main: []string{"proj/compose.yaml"}, WD: "proj"}
			root := s.Materialise()
			p, err := s.LoadAt(root)
			if err != nil {
				return core.Outcome{Class: "skip", Trivial: true}
			}
			canon := Canon(p, "")
			canon = strings.ReplaceAll(canon, fmt.Sprintf("%q", filepath.Join(root, "proj")), `"<WD>"`) // the WorkingDir field itself
			if strings.Contains(canon, filepath.Join(root, "proj")) {
				return core.Outcome{Class: "anch", Sample: doc, Viol: &core.Violation{Key: "non-path-attribute-anchored:" + pos,
					Msg: fmt.Sprintf("non-path attribute %s was rewritten with the project directory", pos), Detail: doc}}
			}
			return core.Outcome{Class: "nonpath/" + pos, Sample: doc}
		})
	}
}

// c12remote is a ResourceLoader for references of the form "<scheme>:<name>", served from a local directory.
type c12remote struct {
	scheme, dir string
}

func (r c12remote) Accept(path string) bool { return strings.HasPrefix(path, r.scheme+":") }
func (r c12remote) Load(_ context.Context, path string) (string, error) {
	return filepath.Join(r.dir, strings.TrimPrefix(path, r.scheme+":")), nil
}
func (r c12remote) Dir(path string) string { return r.dir }

// c12remotes: references that one of several registered remote loaders recognises are left as written wherever the
// loader resolves paths (here: extends.file inside a file extended from another directory), and what they bring is
// anchored on the directory the loader names. Every position of the recognising loader among three is covered.
func c12remotes(c *core.Ctx) {
	schemes := []string{"rem1", "rem2", "rem3"}
	for which := range schemes {
		for _, nested := range []bool{false, true} {
			which, nested := which, nested
			id := fmt.Sprintf("remote/%s/nested%v", schemes[which], nested)
			c.Do(id, func() core.Outcome {
				ref := schemes[which] + ":base.yaml"
				files := map[string]string{
					"remotes/" + schemes[which] + "/base.yaml": "services:\n  b:\n    image: i\n    build: {context: ./ctx}\n    volumes: [\"./data:/d\"]\n",
				}
				if nested {
					files["proj/compose.yaml"] = "services:\n  s:\n    extends: {file: ../lib/mid.yaml, service: m}\n"
					files["lib/mid.yaml"] = "services:\n  m:\n    extends: {file: \"" + ref + "\", service: b}\n    hostname: h\n"
				} else {
					files["proj/compose.yaml"] = "services:\n  s:\n    extends: {file: \"" + ref + "\", service: b}\n"
				}
				s := &Scn{Files: files, Main: []string{"proj/compose.yaml"}, WD: "proj"}
				root := s.Materialise()
				s.Opts = []func(*loader.Options){func(o *loader.Options) {
					for _, sc := range schemes {
						o.ResourceLoaders = append(o.ResourceLoaders, c12remote{sc, filepath.Join(root, "remotes", sc)})
					}
				}}
				p, err := s.LoadAt(root)
				sample := map[string]any{"case": id, "files": files}
				if err != nil {
					if pe, ok := err.(*core.PanicError); ok {
						return core.Outcome{Class: "panic", Sample: sample, Viol: &core.Violation{Key: "panic@" + pe.Site, Msg: id + ": " + pe.Error(), Detail: pe.Stack}}
					}
					return core.Outcome{Class: "err", Sample: sample, Viol: &core.Violation{Key: "remote-reference-not-left-as-written", Msg: fmt.Sprintf("%s: a reference recognised by registered loader %s makes the load fail: %v", id, schemes[which], err)}}
				}
				base := filepath.Join(root, "remotes", schemes[which])
				svc := p.Services["s"]
				if svc.Build == nil || svc.Build.Context != filepath.Join(base, "ctx") || len(svc.Volumes) != 1 || svc.Volumes[0].Source != filepath.Join(base, "data") {
					got := ""
					if svc.Build != nil {
						got = svc.Build.Context
					}
					return core.Outcome{Class: "wrong", Sample: sample, Viol: &core.Violation{Key: "wrong-anchor:remote-base", Msg: fmt.Sprintf("%s: build context %q / volumes %v, expected them under %s", id, got, svc.Volumes, base)}}
				}
				return core.Outcome{Class: id, Sample: sample}
			})
		}
	}
}

// c12idleLoader: the case being run registers a remote loader that recognises none of its references
var c12idleLoader bool

// c12case: a case with a `~` path is run twice, under two different home directories one after the other: `~` is the home
// directory of the moment, not the one of the first load of the process.
func c12case(id string, a c12attr, sh c12shape, origin, wd string, resolve bool, home string) core.Outcome {
	if sh.kind != "home" {
		return c12caseAt(id, a, sh, origin, wd, resolve, home)
	}
	prev, had := os.LookupEnv("HOME")
	defer func() {
		if had {
			os.Setenv("HOME", prev)
		} else {
			os.Unsetenv("HOME")
		}
	}()
	var out core.Outcome
	for _, h := range []string{"homeA", "homeB"} {
		dir := filepath.Join(Scratch(), h)
		os.MkdirAll(dir, 0o755)
		os.Setenv("HOME", dir)
		out = c12caseAt(id+"@"+h, a, sh, origin, wd, resolve, dir)
		if out.Viol != nil {
			return out
		}
	}
	return out
}

func c12caseAt(id string, a c12attr, sh c12shape, origin, wd string, resolve bool, home string) core.Outcome {
	body, top := a.doc(sh.v)
	svcDoc := "services:\n  s:\n" + body + top
	files := map[string]string{}
	main := []string{wd + "/compose.yaml"}
	originDir := wd // directory (relative to root) the attribute is anchored on
	switch origin {
	case "main", "main-content-relname":
		// (relname: the caller holds the content and names the file relative to the working directory)
		files[wd+"/compose.yaml"] = svcDoc
	case "override":
		files[wd+"/compose.yaml"] = "services:\n  other: {image: o}\n"
		files[wd+"/over.yaml"] = svcDoc
		main = append(main, wd+"/over.yaml")
	case "include1":
		files[wd+"/compose.yaml"] = "include:\n  - ./sub/inc.yaml\nservices:\n  other: {image: o}\n"
		files[wd+"/sub/inc.yaml"] = svcDoc
		originDir = wd + "/sub"
	case "include2":
		files[wd+"/compose.yaml"] = "include:\n  - ./sub/inc.yaml\nservices:\n  other: {image: o}\n"
		files[wd+"/sub/inc.yaml"] = "include:\n  - path: ./deep/inc2.yaml\nservices:\n  mid: {image: m}\n"
		files[wd+"/sub/deep/inc2.yaml"] = svcDoc
		originDir = wd + "/sub/deep"
	case "extends-samefile", "extends-samefile-in-include":
		// base and extending service in one file: both carry the attribute, each resolved once
		if top != "" {
			return core.Outcome{Class: "na", Trivial: true}
		}
		doc := "services:\n  b:\n" + body + "  s:\n    extends: {service: b}\n"
		if origin == "extends-samefile" {
			files[wd+"/compose.yaml"] = doc
		} else {
			files[wd+"/compose.yaml"] = "include:\n  - ./sub/inc.yaml\nservices:\n  other: {image: o}\n"
			files[wd+"/sub/inc.yaml"] = doc
			originDir = wd + "/sub"
		}
	case "extends-otherdir":
		if top != "" {
			return core.Outcome{Class: "na", Trivial: true}
		}
		files[wd+"/compose.yaml"] = "services:\n  s:\n    extends: {file: ../lib/base.yaml, service: s}\n"
		files["lib/base.yaml"] = svcDoc
		if strings.Contains(wd, "/") {
			return core.Outcome{Class: "na", Trivial: true}
		}
		originDir = "lib"
	case "extends-in-include":
		if top != "" {
			return core.Outcome{Class: "na", Trivial: true}
		}
		files[wd+"/compose.yaml"] = "include:\n  - ./sub/inc.yaml\nservices:\n  other: {image: o}\n"
		relLib, _ := filepath.Rel(wd+"/sub", "lib")
		files[wd+"/sub/inc.yaml"] = "services:\n  s:\n    extends: {file: \"" + relLib + "/base.yaml\", service: s}\n"
		files["lib/base.yaml"] = svcDoc
		originDir = "lib"
	case "extends-prefix-sibling":
		// the other directory is a sibling whose name starts with the project directory's name
		if top != "" || strings.Contains(wd, "/") {
			return core.Outcome{Class: "na", Trivial: true}
		}
		files[wd+"/compose.yaml"] = "services:\n  s:\n    extends: {file: \"../" + wd + "-base/base.yaml\", service: s}\n"
		files[wd+"-base/base.yaml"] = svcDoc
		originDir = wd + "-base"
	case "include-prefix-sibling":
		if strings.Contains(wd, "/") {
			return core.Outcome{Class: "na", Trivial: true}
		}
		files[wd+"/compose.yaml"] = "include:\n  - \"../" + wd + "2/inc.yaml\"\nservices:\n  other: {image: o}\n"
		files[wd+"2/inc.yaml"] = svcDoc
		originDir = wd + "2"
	case "extends-shared":
		// the same base file is extended by the main project and by an included project (other project directory)
		if top != "" || strings.Contains(wd, "/") {
			return core.Outcome{Class: "na", Trivial: true}
		}
		files[wd+"/compose.yaml"] = "include:\n  - ./sub/inc.yaml\nservices:\n  s0:\n    extends: {file: ../lib/base.yaml, service: s}\n"
		files[wd+"/sub/inc.yaml"] = "services:\n  s:\n    extends: {file: ../../lib/base.yaml, service: s}\n"
		files["lib/base.yaml"] = svcDoc
		originDir = "lib"
	}
	if c12pre != "" {
		r := strings.NewReplacer("\n  s:\n", "\n  "+c12pre+"s:\n", "\n  sec: ", "\n  "+c12pre+"sec: ", "\n  cfg: ", "\n  "+c12pre+"cfg: ", "\n  data:\n", "\n  "+c12pre+"data:\n", "service: s}", "service: "+c12pre+"s}")
		for k, v := range files {
			files[k] = r.Replace(v)
		}
	}
	s := &Scn{Files: files, Main: main, WD: wd, InMem: origin == "main-content-relname", RelNames: origin == "main-content-relname"}
	if c12idleLoader {
		s.Opts = append(s.Opts, func(o *loader.Options) {
			o.ResourceLoaders = append(o.ResourceLoaders, c12remote{"idle", filepath.Join(Scratch(), "idle-remote")})
		})
	}
	if !resolve {
		s.Opts = []func(*loader.Options){func(o *loader.Options) { o.ResolvePaths = false }}
	}
	root := s.Materialise()
	// files the loader opens
	expected := ""
	base := filepath.Join(root, originDir)
	switch {
	case !resolve:
		expected = sh.v
	case sh.kind == "abs":
		expected = sh.v
	case sh.kind == "home":
		expected = filepath.Join(home, sh.v[1:])
	case sh.kind == "url":
		expected = sh.v
	case sh.kind == "win" && a.winAbsOK:
		expected = sh.v
	default:
		expected = filepath.Join(base, sh.v)
	}
	if a.needFile {
		os.MkdirAll(filepath.Dir(filepath.Join(base, sh.v)), 0o755)
		target := filepath.Join(base, sh.v)
		if sh.v == "." {
			return core.Outcome{Class: "na", Trivial: true}
		}
		os.WriteFile(target, []byte("k=v\n"), 0o644)
		if !resolve {
			// the loader opens the unresolved path relative to the process directory: not meaningful
			return core.Outcome{Class: "na", Trivial: true}
		}
	}
	p, err := s.LoadAt(root)
	sample := map[string]any{"case": id, "files": files, "workdir": wd}
	if err != nil {
		if pe, ok := err.(*core.PanicError); ok {
			return core.Outcome{Class: "panic", Sample: sample, Viol: &core.Violation{Key: "panic@" + pe.Site, Msg: id + ": " + pe.Error(), Detail: pe.Stack}}
		}
		return core.Outcome{Class: "err", Sample: sample, Viol: &core.Violation{Key: "load-error:" + a.name + ":" + sh.kind + ":" + origin, Msg: id + ": " + err.Error()}}
	}
	var got string
	if perr := core.Try(func() error { got = a.get(p); return nil }); perr != nil {
		return core.Outcome{Class: "shape", Sample: sample, Viol: &core.Violation{Key: "attribute-missing:" + a.name, Msg: id + ": the attribute is not where expected in the project: " + perr.Error()}}
	}
	if strings.HasPrefix(origin, "extends-samefile") && got == expected {
		// the base service itself
		q := *p
		q.Services = types.Services{"s": p.Services["b"], c12pre + "s": p.Services["b"]}
		core.Try(func() error { got = a.get(&q); return nil })
	}
	if origin == "extends-shared" && got == expected {
		// the second user of the shared base (service s0, extended from the main project)
		q := *p
		q.Services = types.Services{"s": p.Services["s0"]}
		core.Try(func() error { got = a.get(&q); return nil })
	}
	if got != expected {
		return core.Outcome{Class: "wrong", Sample: sample, Viol: &core.Violation{Key: fmt.Sprintf("wrong-anchor:%s:%s:%s", a.name, sh.kind, origin),
			Msg: fmt.Sprintf("%s: %s = %q, expected %q (base directory %s)", id, a.name, got, expected, base)}}
	}
	if resolve && a.name != "label_file" {
		// idempotence: render, reload with resolution on, compare
		y, _, rerr := Render(p)
		if rerr == nil {
			rs := &Scn{Files: map[string]string{wd + "/__r.yaml": y}, Main: []string{wd + "/__r.yaml"}, WD: wd}
			rs.MaterialiseAt(root)
			if p2, err := rs.LoadAt(root); err == nil {
				var got2 string
				core.Try(func() error { got2 = a.get(p2); return nil })
				if got2 != got {
					return core.Outcome{Class: "idem", Sample: sample, Viol: &core.Violation{Key: "not-idempotent:" + a.name + ":" + sh.kind,
						Msg: fmt.Sprintf("%s: resolving the already resolved model changes %s from %q to %q", id, a.name, got, got2)}}
				}
			}
		}
	}
	return core.Outcome{Class: fmt.Sprintf("%s/%s/%s", a.name, sh.kind, origin), Sample: sample}
}

var _ = sort.Strings
