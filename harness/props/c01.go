package props

import (
	"context"
	"encoding/json"
	"fmt"
	"github.com/compose-spec/compose-go/v2/cli"
	"os"
	"path/filepath"
	"regexp"
	"sort"
	"strings"

	"github.com/compose-spec/compose-go/v2/loader"
	"github.com/compose-spec/compose-go/v2/types"

	"gopkg.in/yaml.v3"

	"verifh/core"
	"verifh/mapctl"
	"verifh/schemagen"
)

func init() { core.Register(c01{}) }

type c01 struct{}

func (c01) ID() string    { return "C01" }
func (c01) Level() string { return "exploration" }
func (c01) Rule() string {
	return "(a) every attribute path of the schema (read from /repo/schema/compose-spec.json at run time) (plus the keys the code singles out below user-keyed mappings, read from path patterns in the sources of /repo) x 21 YAML node kinds (incl. two lists repeating their keys, an integral float, integers beyond int64 / uint32, a negative integer) placed at that path, as a single file, as a second document, as an override of the valid witness, as the base under a valid override, in an extended base, in an included file, and against the full corpus document as override / overridden / extending / extended / including / included; every pair of kinds as (base, override) and as (base service, service extending it in the same file) at the same path; the single-file matrix through loader.LoadModelWithContext, cli LoadProject and cli LoadModel; every scalar leaf of 8 full corpus documents replaced by 10 node kinds; every file-naming attribute pointed at 6 shapes of symbolic link (file, directory, dangling, self, loop, chain into a loop); the tags !reset / !override on 6 node shapes at every path and at the document root (single file, override of the full document, second document); (b) the single-file matrix under each of 10 load options flipped alone and all together (thorough: more option sets); (b') every pair of valid service attribute values of the three full corpus documents (whole, and cut down to each single child / grandchild of a mapping) on one service; (c) YAML alias/anchor cycles and merge keys, extends, include (every syntactic form of every edge incl. multi-path entries; 7 path spellings - relative, bare, through another directory, absolute, absolute with ., .. or // - of every edge of cycles of length 1..2; every load carries a listener that reports more than 5000 include/extends events as unbounded recursion) and depends_on cycles; (d) every {present, absent, directory-in-place} state vector of the files referenced by 5 scenarios, through the loader and through the cli entry point (override, extends chain, nested include with env files, env_file/label_file, cli .env); (e) every distance-1 byte edit (delete, insert/replace by 18 significant bytes and 4 multi-byte characters) of 6 seed documents. Oracle: exactly one of project/error, no panic, no process death, no hang; cycles and missing required files are errors naming the file. distinct = distinct (position, kind, route, options) outcomes"
}
func (c01) Assumptions() []string {
	return []string{
		"a load that makes no progress for 180 s is a hang (normal: milliseconds)",
		"panics are recovered per case and keyed by the first compose-go frame; stack overflow / fatal errors kill the worker and are attributed by the START/DONE protocol",
	}
}

var c01kinds = []struct {
	name string
	val  any
}{
	{"null", nil}, {"true", true}, {"zero", 0}, {"float", 1.5}, {"empty-string", ""}, {"string", "s"}, {"var", "${U}"},
	{"empty-list", []any{}}, {"list-str", []any{"s"}}, {"list-int", []any{0}}, {"list-emptymap", []any{map[string]any{}}}, {"list-map", []any{map[string]any{"k": "s"}}},
	{"empty-map", map[string]any{}}, {"map-str", map[string]any{"k": "s"}}, {"map-map", map[string]any{"k": map[string]any{}}},
	// sequences that repeat their keys (two keys, each given twice, first pair before the second key appears)
	// numbers at the edges of what the decoders expect: a float that is an integer for the schema, an integer beyond int64,
	// beyond uint32, and a negative one
	{"float-integral", &yaml.Node{Kind: yaml.ScalarNode, Tag: "!!float", Value: "1.0"}},
	{"huge-int", &yaml.Node{Kind: yaml.ScalarNode, Tag: "!!int", Value: "99999999999999999999"}},
	{"int-2^32", 4294967296}, {"neg-int", -1},
	{"list-dup-kv", []any{"A=1", "A=2", "B=1", "B=2"}},
	{"list-dup-map", []any{map[string]any{"source": "a", "target": "/t", "published": "1"}, map[string]any{"source": "b", "target": "/t", "published": "1"},
		map[string]any{"source": "a", "target": "/u", "published": "2"}, map[string]any{"source": "b", "target": "/u", "published": "2"}}},
}

var c01edgeKind = map[string]bool{"float-integral": true, "huge-int": true, "int-2^32": true, "neg-int": true}

// c01renamed moves the witness document onto the names the full corpus document uses, so that both define the same entries.
func c01renamed(doc map[string]any) map[string]any {
	ren := map[string][2]string{"services": {"s", "web"}, "networks": {"n", "front"}, "volumes": {"v", "data"}, "secrets": {"x", "s_file"}, "configs": {"x", "c_file"}}
	for top, r := range ren {
		if m, ok := doc[top].(map[string]any); ok {
			if v, ok := m[r[0]]; ok {
				delete(m, r[0])
				m[r[1]] = v
			}
		}
	}
	return doc
}

// c01docAt builds a minimal document with v at path (keys, "[]" = first list item, "key" = a free key).
func c01docAt(path []string, v any) map[string]any {
	doc := map[string]any{"services": map[string]any{"s": map[string]any{"image": "i"}}}
	var cur any = doc
	for i, k := range path {
		last := i == len(path)-1
		var next any
		if last {
			next = v
		} else if path[i+1] == "[]" {
			next = []any{nil}
		} else {
			next = map[string]any{}
		}
		switch c := cur.(type) {
		case map[string]any:
			if ex, ok := c[k]; ok && !last {
				if _, isMap := ex.(map[string]any); isMap {
					next = ex
				}
			}
			c[k] = next
		case []any:
			c[0] = next
		}
		cur = next
	}
	return doc
}

type c01opt struct {
	name string
	fn   func(*loader.Options)
}

var c01opts = []c01opt{
	{"default", func(o *loader.Options) {}},
	{"SkipValidation", func(o *loader.Options) { o.SkipValidation = true }},
	{"SkipInterpolation", func(o *loader.Options) { o.SkipInterpolation = true }},
	{"SkipNormalization", func(o *loader.Options) { o.SkipNormalization = true }},
	{"NoResolvePaths", func(o *loader.Options) { o.ResolvePaths = false }},
	{"SkipConsistencyCheck", func(o *loader.Options) { o.SkipConsistencyCheck = true }},
	{"SkipExtends", func(o *loader.Options) { o.SkipExtends = true }},
	{"SkipInclude", func(o *loader.Options) { o.SkipInclude = true }},
	{"SkipResolveEnvironment", func(o *loader.Options) { o.SkipResolveEnvironment = true }},
	{"SkipDefaultValues", func(o *loader.Options) { o.SkipDefaultValues = true }},
	{"ConvertWindowsPaths", func(o *loader.Options) { o.ConvertWindowsPaths = true }},
	{"all", func(o *loader.Options) {
		o.SkipValidation, o.SkipInterpolation, o.SkipNormalization, o.ResolvePaths, o.SkipConsistencyCheck = true, true, true, false, true
		o.SkipExtends, o.SkipInclude, o.SkipResolveEnvironment, o.SkipDefaultValues, o.ConvertWindowsPaths = true, true, true, true, true
	}},
	{"profiles-star", loader.WithProfiles([]string{"*"})},
	{"discard-env-files", loader.WithDiscardEnvFiles},
}

// c01total runs one load and applies the totality oracle.
func c01total(id string, s *Scn, optName string) core.Outcome {
	var p *types.Project
	var err error
	if s.InMem {
		// nothing but the compose files themselves: no need to touch the disk
		p, err = s.LoadAt(filepath.Join(Scratch(), "inmem"))
	} else {
		root := s.Materialise()
		p, err = s.LoadAt(root)
		os.RemoveAll(root)
	}
	if os.Getenv("C01_DEBUG") != "" {
		fmt.Fprintf(os.Stderr, "C01DBG %s: files=%v err=%v\n", id, s.Files, err)
	}
	cls := "ok"
	if pe, ok := err.(*core.PanicError); ok && pe.Val == UnboundedRecursion {
		return core.Outcome{Class: "unbounded", Sample: map[string]any{"case": id, "files": s.Files},
			Viol: &core.Violation{Key: "unbounded-recursion:" + strings.SplitN(id, "/", 2)[0], Msg: id + ": " + UnboundedRecursion,
				Detail: map[string]any{"files": s.Files}}}
	}
	if pe, ok := err.(*core.PanicError); ok {
		oc := "default"
		if optName != "default" {
			oc = "needs-option"
		}
		return core.Outcome{Class: "panic", Sample: map[string]any{"case": id, "files": s.Files},
			Viol: &core.Violation{Key: "panic-site=" + pe.Site + ":" + panicClass(pe.Val) + ":" + oc,
				Msg:    fmt.Sprintf("%s: load panics: %v (at %s)", id, pe.Val, pe.Site),
				Detail: map[string]any{"files": s.Files, "stack": trunc(pe.Stack, 3000)}}}
	}
	if (p == nil) == (err == nil) {
		return core.Outcome{Class: "both", Viol: &core.Violation{Key: "neither-or-both", Msg: fmt.Sprintf("%s: project nil=%v error nil=%v", id, p == nil, err == nil)}}
	}
	if err != nil {
		cls = "error"
	}
	return core.Outcome{Class: id + "/" + cls, Sample: map[string]any{"case": id, "outcome": cls}}
}

var c01patRe = regexp.MustCompile(`"((?:services|networks|volumes|secrets|configs)\\.[a-z_*.\\[\\]-]+)"`)

// c01codePaths reads the path patterns written as string literals in the library's sources and turns them into concrete
// paths of the witness document (first * = the witness name, later * = a free key).
func c01codePaths() [][]string {
	witness := map[string]string{"services": "s", "networks": "n", "volumes": "v", "secrets": "x", "configs": "x"}
	seen := map[string]bool{}
	var out [][]string
	for _, dir := range []string{"paths", "transform", "override", "validation", "loader", "interpolation", "types"} {
		ents, _ := os.ReadDir(filepath.Join(RepoDir(), dir))
		for _, e := range ents {
			if !strings.HasSuffix(e.Name(), ".go") || strings.HasSuffix(e.Name(), "_test.go") {
				continue
			}
			b, err := os.ReadFile(filepath.Join(RepoDir(), dir, e.Name()))
			if err != nil {
				continue
			}
			for _, m := range c01patRe.FindAllStringSubmatch(string(b), -1) {
				parts := strings.Split(m[1], ".")
				if len(parts) < 3 || parts[1] != "*" {
					continue
				}
				p := []string{parts[0], witness[parts[0]]}
				for _, x := range parts[2:] {
					if x == "*" {
						x = "key"
					}
					p = append(p, x)
				}
				if k := strings.Join(p, "."); !seen[k] {
					seen[k] = true
					out = append(out, p)
				}
			}
		}
	}
	sort.Slice(out, func(i, j int) bool { return strings.Join(out[i], ".") < strings.Join(out[j], ".") })
	return out
}

func panicClass(v any) string {
	s := fmt.Sprint(v)
	switch {
	case strings.Contains(s, "interface conversion"):
		return "type-assertion"
	case strings.Contains(s, "nil pointer") || strings.Contains(s, "nil map"):
		return "nil-dereference"
	case strings.Contains(s, "index out of range") || strings.Contains(s, "slice bounds"):
		return "index"
	}
	return "other"
}

func (c01) Run(c *core.Ctx) {
	sch, err := schemagen.Load(RepoDir() + "/schema/compose-spec.json")
	if err != nil {
		c.Note("cannot read schema: " + err.Error())
		return
	}
	var paths [][]string
	for _, root := range [][]string{{"services", "s"}, {"networks", "n"}, {"volumes", "v"}, {"secrets", "x"}, {"configs", "x"}} {
		paths = append(paths, root)
		paths = append(paths, sch.Paths(root, "key", 7)...)
	}
	for _, top := range []string{"services", "networks", "volumes", "secrets", "configs", "name", "version", "include"} {
		paths = append(paths, []string{top})
	}
	paths = append(paths, sch.Paths([]string{"include"}, "key", 4)...)
	// keys the code singles out below user-keyed mappings (path patterns found as string literals in the sources of
	// /repo, e.g. volumes.*.driver_opts.device): the schema walk only has a free key there
	{
		have := map[string]bool{}
		for _, p := range paths {
			have[strings.Join(p, ".")] = true
		}
		for _, p := range c01codePaths() {
			if !have[strings.Join(p, ".")] {
				have[strings.Join(p, ".")] = true
				paths = append(paths, p)
				c.Count("code_derived_paths", 1)
			}
		}
	}
	c.Count("schema_paths", int64(len(paths)))
	valid := "services:\n  s:\n    image: i\n"
	routes := []string{"single", "second-doc", "override-on-valid", "valid-override-on-it", "extends-base", "included",
		"over-rich", "rich-over-it", "it-extends-rich", "rich-extends-it", "it-includes-rich", "rich-includes-it"}
	richExtending := strings.Replace(corpusRich, "\n  web:\n", "\n  web:\n    extends: {file: ./base.yaml, service: s}\n", 1)
	for _, p := range paths {
		ps := strings.Join(p, ".")
		for _, k := range c01kinds {
			doc := mapToYAML(c01docAt(p, k.val))
			for _, route := range routes {
				if c.Expired() {
					return
				}
				if c.Quick() && c01edgeKind[k.name] && (strings.Contains(route, "rich") || route == "second-doc" || route == "valid-override-on-it") {
					continue // quick: the numeric edge kinds on the four basic routes only
				}
				p, k, doc, route := p, k, doc, route
				id := fmt.Sprintf("kind/%s/%s/%s", ps, k.name, route)
				c.Do(id, func() core.Outcome {
					files := map[string]string{}
					main := []string{"compose.yaml"}
					switch route {
					case "single":
						files["compose.yaml"] = doc
					case "second-doc":
						files["compose.yaml"] = valid + "---\n" + doc
					case "override-on-valid":
						files["compose.yaml"] = valid
						files["over.yaml"] = doc
						main = append(main, "over.yaml")
					case "valid-override-on-it":
						files["compose.yaml"] = doc
						files["over.yaml"] = valid
						main = append(main, "over.yaml")
					case "extends-base":
						if p[0] != "services" {
							return core.Outcome{Class: "na", Trivial: true}
						}
						files["base.yaml"] = doc
						files["compose.yaml"] = "services:\n  child:\n    image: c\n    extends: {file: ./base.yaml, service: s}\n"
					case "included":
						files["inc.yaml"] = doc
						files["compose.yaml"] = "include:\n  - ./inc.yaml\nservices:\n  main:\n    image: m\n"
					// the same, against the full corpus document: both sides define the attribute
					case "over-rich":
						files["compose.yaml"] = corpusRich
						files["over.yaml"] = mapToYAML(c01renamed(c01docAt(p, k.val)))
						main = append(main, "over.yaml")
					case "rich-over-it":
						files["compose.yaml"] = mapToYAML(c01renamed(c01docAt(p, k.val)))
						files["over.yaml"] = corpusRich
						main = append(main, "over.yaml")
					case "it-extends-rich":
						d := c01docAt(p, k.val)
						var svc map[string]any
						ok := false
						if svcs, isMap := d["services"].(map[string]any); isMap {
							svc, ok = svcs["s"].(map[string]any)
						}
						if p[0] != "services" || !ok {
							return core.Outcome{Class: "na", Trivial: true}
						}
						if _, has := svc["extends"]; has {
							return core.Outcome{Class: "na", Trivial: true}
						}
						svc["extends"] = map[string]any{"file": "./rich.yaml", "service": "web"}
						files["compose.yaml"] = mapToYAML(d)
						files["rich.yaml"] = corpusRich
					case "rich-extends-it":
						if p[0] != "services" {
							return core.Outcome{Class: "na", Trivial: true}
						}
						files["base.yaml"] = doc
						files["compose.yaml"] = richExtending
					case "it-includes-rich":
						if p[0] == "include" {
							return core.Outcome{Class: "na", Trivial: true}
						}
						d := c01docAt(p, k.val) // own names: a clash of names would end the import before the later sections
						d["include"] = []any{"./rich.yaml"}
						files["compose.yaml"] = mapToYAML(d)
						files["rich.yaml"] = corpusRich
					case "rich-includes-it":
						files["compose.yaml"] = "include:\n  - ./inc.yaml\n" + corpusRich
						files["inc.yaml"] = doc
					}
					inmem := route == "single" || route == "second-doc" || route == "override-on-valid" || route == "valid-override-on-it" || route == "over-rich" || route == "rich-over-it"
					return c01total(id, &Scn{Files: files, Main: main, Env: map[string]string{"U": "u"}, InMem: inmem}, "default")
				})
			}
			// option lattice on the single-file route
			for _, o := range c01opts[1:] {
				if c.Quick() && c01edgeKind[k.name] && o.name != "SkipValidation" {
					continue
				}
				if c.Quick() && (o.name == "SkipInclude" || o.name == "ConvertWindowsPaths" || o.name == "discard-env-files" || o.name == "profiles-star" || o.name == "SkipExtends") {
					continue
				}
				o := o
				id := fmt.Sprintf("opt/%s/%s/%s", ps, k.name, o.name)
				c.Do(id, func() core.Outcome {
					return c01total(id, &Scn{Files: map[string]string{"compose.yaml": doc}, Main: []string{"compose.yaml"}, Env: map[string]string{"U": "u"}, Opts: []func(*loader.Options){o.fn}, InMem: true}, o.name)
				})
			}
		}
	}
	{
		// every pair of node kinds as (base, override) at the same path (quick: 6 representative kinds; thorough: all 15)
		reprPair := map[string]bool{"null": true, "zero": true, "string": true, "list-str": true, "list-emptymap": true, "empty-map": true, "map-str": true}
		for _, p := range paths {
			ps := strings.Join(p, ".")
			for _, k1 := range c01kinds {
				if c.Quick() && !reprPair[k1.name] {
					continue
				}
				d1 := mapToYAML(c01docAt(p, k1.val))
				for _, k2 := range c01kinds {
					if c.Quick() && !reprPair[k2.name] {
						continue
					}
					if c.Expired() {
						return
					}
					d2 := mapToYAML(c01docAt(p, k2.val))
					id := fmt.Sprintf("pair/%s/%s/%s", ps, k1.name, k2.name)
					c.Do(id, func() core.Outcome {
						return c01total(id, &Scn{Files: map[string]string{"compose.yaml": d1, "over.yaml": d2}, Main: []string{"compose.yaml", "over.yaml"}, Env: map[string]string{"U": "u"}, InMem: true}, "default")
					})
					// the same pair as (base service, service extending it) in one file: neither side has been validated
					// when they are merged
					if p[0] == "services" && len(p) > 2 && p[2] != "extends" {
						p, k1, k2 := p, k1, k2
						id := fmt.Sprintf("pair-extends/%s/%s/%s", ps, k1.name, k2.name)
						c.Do(id, func() core.Outcome {
							base := c01docAt(p, k1.val)["services"].(map[string]any)["s"]
							d := c01docAt(p, k2.val)
							svcs := d["services"].(map[string]any)
							svc, ok := svcs["s"].(map[string]any)
							if !ok {
								return core.Outcome{Class: "na", Trivial: true}
							}
							svc["extends"] = map[string]any{"service": "b"}
							svcs["b"] = base
							return c01total(id, &Scn{Files: map[string]string{"compose.yaml": mapToYAML(d)}, Main: []string{"compose.yaml"}, Env: map[string]string{"U": "u"}, InMem: true}, "default")
						})
					}
				}
			}
		}
	}
	if !c.Quick() {
		// thorough: the full lattice of the 10 boolean load options on 5 representative node kinds
		flags := []func(*loader.Options, bool){
			func(o *loader.Options, v bool) { o.SkipValidation = v }, func(o *loader.Options, v bool) { o.SkipInterpolation = v },
			func(o *loader.Options, v bool) { o.SkipNormalization = v }, func(o *loader.Options, v bool) { o.ResolvePaths = !v },
			func(o *loader.Options, v bool) { o.SkipConsistencyCheck = v }, func(o *loader.Options, v bool) { o.SkipExtends = v },
			func(o *loader.Options, v bool) { o.SkipInclude = v }, func(o *loader.Options, v bool) { o.SkipResolveEnvironment = v },
			func(o *loader.Options, v bool) { o.SkipDefaultValues = v }, func(o *loader.Options, v bool) { o.ConvertWindowsPaths = v },
		}
		repr := map[string]bool{"null": true, "string": true, "list-map": true, "map-str": true, "zero": true}
		for _, p := range paths {
			ps := strings.Join(p, ".")
			for _, k := range c01kinds {
				if !repr[k.name] {
					continue
				}
				doc := mapToYAML(c01docAt(p, k.val))
				for mask := 1; mask < 1<<len(flags); mask++ {
					if mask&255 == 0 && c.Expired() {
						return
					}
					mask := mask
					id := fmt.Sprintf("lattice/%s/%s/%03x", ps, k.name, mask)
					c.Do(id, func() core.Outcome {
						fn := func(o *loader.Options) {
							for i, f := range flags {
								f(o, mask&(1<<i) != 0)
							}
						}
						out := c01total(id, &Scn{Files: map[string]string{"compose.yaml": doc}, Main: []string{"compose.yaml"}, Env: map[string]string{"U": "u"}, Opts: []func(*loader.Options){fn}, InMem: true}, "lattice")
						out.Class = fmt.Sprintf("%s/%s/%s", ps, k.name, out.Class[strings.LastIndex(out.Class, "/")+1:])
						return out
					})
				}
			}
		}
	}
	c01entryPoints(c, paths)
	c01corpusLeaves(c)
	c01symlinks(c)
	c01tags(c, paths)
	c01validPairs(c)
	c01cycles(c)
	dependsOnDigraphs(c, "depends_on/")
	c01refcycles(c)
	c01files(c)
	c01bytes(c)
}

// c01symlinks: every attribute that names a local file or directory, pointed at a symbolic link of every shape (to a
// file, to a directory, dangling, to itself, two links to each other, a link below a looping link): a project or an
// error, never a hang or a crash.
func c01symlinks(c *core.Ctx) {
	attrs := []struct{ name, doc string }{
		{"env_file", "services:\n  s:\n    image: i\n    env_file: [./LINK]\n"},
		{"env_file-optional", "services:\n  s:\n    image: i\n    env_file:\n      - {path: ./LINK, required: false}\n"},
		{"label_file", "services:\n  s:\n    image: i\n    label_file: [./LINK]\n"},
		{"build.context", "services:\n  s:\n    build: {context: ./LINK}\n"},
		{"bind", "services:\n  s:\n    image: i\n    volumes: [\"./LINK:/t\"]\n"},
		{"watch", "services:\n  s:\n    image: i\n    develop:\n      watch:\n        - {action: sync, path: ./LINK, target: /t}\n"},
		{"watch-below", "services:\n  s:\n    image: i\n    develop:\n      watch:\n        - {action: rebuild, path: ./LINK/src}\n"},
		{"secret.file", "services:\n  s:\n    image: i\nsecrets:\n  x: {file: ./LINK}\n"},
		{"config.file", "services:\n  s:\n    image: i\nconfigs:\n  x: {file: ./LINK}\n"},
		{"extends.file", "services:\n  s:\n    extends: {file: ./LINK, service: b}\n"},
		{"include", "include:\n  - ./LINK\nservices:\n  s:\n    image: i\n"},
		{"include.project_directory", "include:\n  - path: ./inc.yaml\n    project_directory: ./LINK\nservices:\n  s:\n    image: i\n"},
		{"include.env_file", "include:\n  - path: ./inc.yaml\n    env_file: ./LINK\nservices:\n  s:\n    image: i\n"},
	}
	shapes := []struct {
		name  string
		files map[string]string
	}{
		{"to-file", map[string]string{"LINK": SymlinkTo + "real.yaml"}},
		{"to-dir", map[string]string{"LINK": SymlinkTo + "realdir", "realdir/src/": ""}},
		{"dangling", map[string]string{"LINK": SymlinkTo + "nowhere"}},
		{"self", map[string]string{"LINK": SymlinkTo + "LINK"}},
		{"two-loop", map[string]string{"LINK": SymlinkTo + "LINK2", "LINK2": SymlinkTo + "LINK"}},
		{"chain-into-loop", map[string]string{"LINK": SymlinkTo + "mid", "mid": SymlinkTo + "LINK2", "LINK2": SymlinkTo + "mid"}},
	}
	for _, a := range attrs {
		for _, sh := range shapes {
			a, sh := a, sh
			id := "symlink/" + a.name + "/" + sh.name
			c.Do(id, func() core.Outcome {
				files := map[string]string{"compose.yaml": a.doc, "real.yaml": "services:\n  b:\n    image: b\n", "inc.yaml": "services:\n  inc:\n    image: i\n"}
				for k, v := range sh.files {
					files[k] = v
				}
				return c01total(id, &Scn{Files: files, Main: []string{"compose.yaml"}}, "default")
			})
		}
	}
}

// c01corpusLeaves: every scalar leaf of the full corpus documents replaced by a node of another kind: the leaf keeps
// the surroundings a real document gives it (sibling attributes that switch code paths on), which the minimal witness
// documents of the kind matrix do not have.
func c01corpusLeaves(c *core.Ctx) {
	corpus := CorpusScns()
	kinds := map[string]bool{"null": true, "true": true, "zero": true, "float-integral": true, "huge-int": true, "neg-int": true, "string": true,
		"list-str": true, "empty-map": true, "map-str": true}
	few := map[string]bool{"zero": true, "float-integral": true, "list-str": true, "map-str": true}
	for _, dn := range []string{"rich", "rich2", "rich3", "odd-names", "kv-shapes", "restated", "legacy", "wide"} {
		base := corpus[dn]
		if base == nil || len(base.Main) != 1 {
			continue
		}
		doc := yamlToMap(base.Files[base.Main[0]])
		for li, lf := range c08leaves(doc) {
			for _, k := range c01kinds {
				if !kinds[k.name] || (dn == "wide" && c.Quick() && !few[k.name]) {
					continue
				}
				if c.Expired() {
					return
				}
				lf, k, li := lf, k, li
				id := fmt.Sprintf("leaf/%s/%d:%s/%s", dn, li, strings.Join(lf.path, "."), k.name)
				c.Do(id, func() core.Outcome {
					lf.set(k.val)
					text := mapToYAML(doc)
					lf.set(lf.val)
					files := map[string]string{}
					for f, v := range base.Files {
						files[f] = v
					}
					files[base.Main[0]] = text
					return c01total(id, &Scn{Files: files, Main: base.Main, Env: base.Env}, "default")
				})
			}
		}
	}
}

// c01entryPoints: the single-file kind matrix through the other public ways of loading: the dictionary-returning
// loader.LoadModelWithContext and the cli package (NewProjectOptions + LoadProject / LoadModel). Same oracle: exactly
// one of result / error, no panic.
func c01entryPoints(c *core.Ctx, paths [][]string) {
	for _, p := range paths {
		ps := strings.Join(p, ".")
		for _, k := range c01kinds {
			doc := mapToYAML(c01docAt(p, k.val))
			for _, via := range []string{"LoadModelWithContext", "cli.LoadProject", "cli.LoadModel"} {
				if c.Expired() {
					return
				}
				doc, via := doc, via
				id := fmt.Sprintf("via/%s/%s/%s", via, ps, k.name)
				c.Do(id, func() core.Outcome {
					var resNil bool
					var err error
					perr := core.Try(func() error {
						switch via {
						case "LoadModelWithContext":
							cd := types.ConfigDetails{WorkingDir: Scratch(), Environment: map[string]string{"U": "u"},
								ConfigFiles: []types.ConfigFile{{Filename: filepath.Join(Scratch(), "compose.yaml"), Content: []byte(doc)}}}
							var m map[string]any
							m, err = loader.LoadModelWithContext(context.Background(), cd, func(o *loader.Options) { o.SetProjectName("proj", true) })
							resNil = m == nil
						default:
							scratchSeq++
							dir := filepath.Join(Scratch(), fmt.Sprintf("cli%d", scratchSeq&63))
							os.MkdirAll(dir, 0o755)
							f := filepath.Join(dir, "compose.yaml")
							os.WriteFile(f, []byte(doc), 0o644)
							var po *cli.ProjectOptions
							po, err = cli.NewProjectOptions([]string{f}, cli.WithWorkingDirectory(dir), cli.WithName("proj"), cli.WithEnv([]string{"U=u"}))
							if err != nil {
								resNil = true
								return nil
							}
							if via == "cli.LoadProject" {
								var p *types.Project
								p, err = po.LoadProject(context.Background())
								resNil = p == nil
							} else {
								var m map[string]any
								m, err = po.LoadModel(context.Background())
								resNil = m == nil
							}
						}
						return nil
					})
					if pe, ok := perr.(*core.PanicError); ok {
						return core.Outcome{Class: "panic", Sample: map[string]any{"case": id, "doc": doc},
							Viol: &core.Violation{Key: "panic-site=" + pe.Site + ":" + panicClass(pe.Val) + ":" + via, Msg: fmt.Sprintf("%s: panics: %v (at %s)", id, pe.Val, pe.Site), Detail: map[string]any{"doc": doc, "stack": trunc(pe.Stack, 3000)}}}
					}
					if resNil == (err == nil) {
						return core.Outcome{Class: "both", Sample: map[string]any{"case": id, "doc": doc}, Viol: &core.Violation{Key: "neither-or-both:" + via, Msg: fmt.Sprintf("%s: result nil=%v error nil=%v", id, resNil, err == nil)}}
					}
					cls := "ok"
					if err != nil {
						cls = "error"
					}
					return core.Outcome{Class: "via/" + via + "/" + ps + "/" + k.name + "/" + cls}
				})
			}
		}
	}
}

// c01tags: the merge tags !reset and !override on a node of every kind at every schema path and at the document root,
// in a single file, in an override of the full corpus document, and in a second document.
func c01tags(c *core.Ctx, paths [][]string) {
	vals := []string{"", "null", "x", "[a]", "{k: v}", "{}"}
	all := append([][]string{nil}, paths...)
	for _, p := range all {
		ps := strings.Join(p, ".")
		if p == nil {
			ps = "<root>"
		}
		for _, tag := range []string{"!reset", "!override"} {
			for vi, v := range vals {
				var text string
				if p == nil {
					text = tag + " " + v + "\n"
				} else {
					y := mapToYAML(c01docAt(p, "@TAG@"))
					if !strings.Contains(y, "'@TAG@'") && !strings.Contains(y, "\"@TAG@\"") && !strings.Contains(y, "@TAG@") {
						continue
					}
					y = strings.Replace(y, "'@TAG@'", "@TAG@", 1)
					y = strings.Replace(y, "\"@TAG@\"", "@TAG@", 1)
					text = strings.Replace(y, "@TAG@", tag+" "+v, 1)
				}
				for _, route := range []string{"single", "over-rich", "second-doc"} {
					if c.Expired() {
						return
					}
					text, route := text, route
					id := fmt.Sprintf("tag/%s/%s/%d/%s", ps, tag, vi, route)
					c.Do(id, func() core.Outcome {
						files := map[string]string{}
						main := []string{"compose.yaml"}
						switch route {
						case "single":
							files["compose.yaml"] = text
						case "over-rich":
							files["compose.yaml"] = corpusRich
							files["over.yaml"] = strings.NewReplacer("\n    s:", "\n    web:", "\n    n:", "\n    front:", "\n    v:", "\n    data:").Replace(text)
							main = append(main, "over.yaml")
						case "second-doc":
							files["compose.yaml"] = "services:\n  s:\n    image: i\n---\n" + text
						}
						out := c01total(id, &Scn{Files: files, Main: main, Env: map[string]string{"U": "u"}, InMem: true}, "default")
						if out.Viol == nil {
							out.Sample = nil
						}
						return out
					})
				}
			}
		}
	}
}

// c01validPairs: every pair of valid service attribute values taken from the three full corpus documents - each value
// whole, and cut down to every single child (and grandchild) of a mapping value - on one service. Validation stages
// that relate two attributes (legacy resources vs deploy, network_mode vs networks, ...) see every combination of
// presence and absence of their operands.
func c01validPairs(c *core.Ctx) {
	type av struct {
		attr, tag, sig string
		val            any
		tops           map[string]any
	}
	var vars []av
	seen := map[string]bool{}
	add := func(attr, tag string, val any, tops map[string]any) {
		b, _ := json.Marshal(val)
		sig := attr + "=" + string(b)
		if seen[sig] {
			return
		}
		seen[sig] = true
		vars = append(vars, av{attr, tag, sig, val, tops})
	}
	for di, text := range []string{corpusRich, corpusRich2, corpusRich3} {
		doc := yamlToMap(text)
		tops := map[string]any{}
		for _, k := range []string{"networks", "volumes", "secrets", "configs"} {
			if v, ok := doc[k]; ok {
				tops[k] = v
			}
		}
		svcs, _ := doc["services"].(map[string]any)
		for _, sn := range sortedKeys(svcs) {
			svc, _ := svcs[sn].(map[string]any)
			for _, attr := range sortedKeys(svc) {
				if attr == "extends" {
					continue
				}
				v := svc[attr]
				tag := fmt.Sprintf("d%d.%s.%s", di, sn, attr)
				add(attr, tag, v, tops)
				if m, ok := v.(map[string]any); ok {
					for _, ck := range sortedKeys(m) {
						add(attr, tag+"."+ck, map[string]any{ck: m[ck]}, tops)
						if gm, ok := m[ck].(map[string]any); ok {
							for _, gk := range sortedKeys(gm) {
								add(attr, tag+"."+ck+"."+gk, map[string]any{ck: map[string]any{gk: gm[gk]}}, tops)
							}
						}
					}
				}
			}
		}
	}
	c.Count("valid_attribute_values", int64(len(vars)))
	for i, a := range vars {
		for j := i + 1; j < len(vars); j++ {
			b := vars[j]
			if a.attr == b.attr {
				continue
			}
			if c.Quick() && strings.Count(a.tag, ".") > 3 && strings.Count(b.tag, ".") > 3 {
				continue // quick: grandchild cuts are paired with whole values and child cuts only
			}
			if (i+j)&1023 == 0 && c.Expired() {
				return
			}
			a, b := a, b
			id := "validpair/" + a.tag + "+" + b.tag
			c.Do(id, func() core.Outcome {
				svc := map[string]any{"image": "i"}
				svc[a.attr] = a.val
				svc[b.attr] = b.val
				doc := map[string]any{"services": map[string]any{"s": svc}}
				for _, t := range []map[string]any{a.tops, b.tops} {
					for k, v := range t {
						m, _ := doc[k].(map[string]any)
						if m == nil {
							m = map[string]any{}
							doc[k] = m
						}
						for n, x := range v.(map[string]any) {
							if _, ok := m[n]; !ok {
								m[n] = x
							}
						}
					}
				}
				out := c01total(id, &Scn{Files: map[string]string{"compose.yaml": mapToYAML(doc)}, Main: []string{"compose.yaml"}, Env: map[string]string{"U": "u"}, InMem: true}, "default")
				if out.Viol == nil {
					out.Class = "validpair/" + a.attr + "+" + b.attr + out.Class[strings.LastIndex(out.Class, "/"):]
					out.Sample = nil
				}
				return out
			})
		}
	}
}

func c01cycles(c *core.Ctx) {
	docs := map[string]string{
		"alias-self-map":     "services:\n  s: &a\n    image: i\n    labels:\n      x: *a\n",
		"alias-self-list":    "services:\n  s:\n    image: i\n    command: &c [a, *c]\n",
		"alias-mutual":       "x-a: &a\n  b: &b\n    a: *a\nservices:\n  s:\n    image: i\n",
		"merge-key-self":     "services:\n  s: &s\n    <<: *s\n    image: i\n",
		"merge-key-ok":       "x-base: &base\n  image: i\n  labels: {a: \"1\"}\nservices:\n  s:\n    <<: *base\n    hostname: h\n",
		"alias-ok-twice":     "x-env: &env {A: \"1\"}\nservices:\n  s:\n    image: i\n    environment: *env\n  t:\n    image: t\n    environment: *env\n",
		"alias-deep-chain":   "x-a: &a {k: v}\nx-b: &b {a: *a}\nx-c: &c {b: *b}\nservices:\n  s:\n    image: i\n    labels: {l: \"1\"}\n",
		"alias-below-anchor": "services:\n  s: &svc\n    image: i\n    build:\n      context: .\n      args:\n        self: *svc\n",
		"alias-undefined":    "services:\n  s:\n    image: *nope\n",
		"billion-laughs":     "x-a: &a [l, l, l, l, l, l, l, l, l]\nx-b: &b [*a, *a, *a, *a, *a, *a, *a, *a, *a]\nx-c: &c [*b, *b, *b, *b, *b, *b, *b, *b, *b]\nx-d: &d [*c, *c, *c, *c, *c, *c, *c, *c, *c]\nx-e: &e [*d, *d, *d, *d, *d, *d, *d, *d, *d]\nx-f: &f [*e, *e, *e, *e, *e, *e, *e, *e, *e]\nservices:\n  s:\n    image: i\n",
	}
	mustErr := map[string]bool{"alias-self-map": true, "alias-self-list": true, "alias-mutual": true, "merge-key-self": true, "alias-below-anchor": true, "alias-undefined": true}
	for _, k := range sortedKeys(docs) {
		for _, o := range []c01opt{c01opts[0], c01opts[1], c01opts[11]} {
			k, o := k, o
			id := "yamlcycle/" + k + "/" + o.name
			c.Do(id, func() core.Outcome {
				s := &Scn{Files: map[string]string{"compose.yaml": docs[k]}, Main: []string{"compose.yaml"}, Opts: []func(*loader.Options){o.fn}}
				out := c01total(id, s, o.name)
				if out.Viol == nil && mustErr[k] && strings.HasSuffix(out.Class, "/ok") {
					out.Viol = &core.Violation{Key: "reference-cycle-accepted:" + k, Msg: id + ": a self-referential YAML document loads without error"}
				}
				return out
			})
		}
	}
}

// c01refcycles: extends and include cycles are errors (short versions of the C05/C06 enumerations).
func c01refcycles(c *core.Ctx) {
	for n := 1; n <= 3; n++ {
		for mask := 0; mask < 1<<n; mask++ {
			n, mask := n, mask
			id := fmt.Sprintf("extendscycle/n%d/%b", n, mask)
			c.Do(id, func() core.Outcome {
				fileOf := func(i int) string {
					if mask&(1<<i) != 0 {
						return "b.yaml"
					}
					return "compose.yaml"
				}
				docs := map[string]string{"compose.yaml": "services:\n  entry:\n    image: e\n", "b.yaml": "services:\n  other:\n    image: o\n"}
				for i := 0; i < n; i++ {
					j := (i + 1) % n
					ext := fmt.Sprintf("{service: c%d}", j)
					if fileOf(i) != fileOf(j) {
						ext = fmt.Sprintf("{file: ./%s, service: c%d}", fileOf(j), j)
					}
					docs[fileOf(i)] += fmt.Sprintf("  c%d:\n    image: i\n    extends: %s\n", i, ext)
				}
				if mask&1 != 0 {
					docs["compose.yaml"] += "  start:\n    extends: {file: ./b.yaml, service: c0}\n"
				}
				out := c01total(id, &Scn{Files: docs, Main: []string{"compose.yaml"}}, "default")
				if out.Viol == nil && strings.HasSuffix(out.Class, "/ok") {
					out.Viol = &core.Violation{Key: "reference-cycle-accepted:extends", Msg: id + ": a cyclic extends chain loads without error"}
				}
				return out
			})
		}
	}
	inc := map[string]map[string]string{
		"include-1": {"compose.yaml": "include:\n  - ./compose.yaml\nservices:\n  m: {image: m}\n"},
		"include-2": {"compose.yaml": "include:\n  - ./a.yaml\nservices:\n  m: {image: m}\n", "a.yaml": "include:\n  - ./compose.yaml\nservices:\n  a: {image: a}\n"},
		"include-3": {"compose.yaml": "include:\n  - ./a.yaml\nservices:\n  m: {image: m}\n", "a.yaml": "include:\n  - path: ./sub/b.yaml\nservices:\n  a: {image: a}\n", "sub/b.yaml": "include:\n  - ../a.yaml\nservices:\n  b: {image: b}\n"},
	}
	// every spelling of every edge of an include cycle of length 1..3: short, long, and a multi-path entry
	// (first path + override files) with the cycle-closing file in first or in second position
	forms := []string{"short", "long", "multi-first", "multi-second"}
	names := []string{"compose.yaml", "a.yaml", "b.yaml"}
	for n := 1; n <= 3; n++ {
		tot := 1
		for i := 0; i < n; i++ {
			tot *= len(forms)
		}
		for code := 0; code < tot; code++ {
			files := map[string]string{}
			x := code
			var used []string
			for i := 0; i < n; i++ {
				form := forms[x%len(forms)]
				x /= len(forms)
				used = append(used, form)
				target := "./" + names[(i+1)%n]
				benign := fmt.Sprintf("./benign%d.yaml", i)
				var entry string
				switch form {
				case "short":
					entry = "  - " + target + "\n"
				case "long":
					entry = "  - path: " + target + "\n"
				case "multi-first":
					entry = "  - path: [" + target + ", " + benign + "]\n"
					files[benign[2:]] = fmt.Sprintf("services:\n  s%d: {hostname: h}\n", (i+1)%n)
				case "multi-second":
					entry = "  - path: [" + benign + ", " + target + "]\n"
					files[benign[2:]] = fmt.Sprintf("services:\n  x%d: {image: x}\n", i)
				}
				files[names[i]] = "include:\n" + entry + fmt.Sprintf("services:\n  s%d: {image: i}\n", i)
			}
			k := fmt.Sprintf("n%d/%s", n, strings.Join(used, "+"))
			inc[k] = files
		}
	}
	// every spelling of the path of every edge of a cycle of length 1..2 (relative, through another directory, absolute,
	// absolute but not in canonical form), short and long syntax
	spell := []struct{ name, pre string }{{"dot", "./"}, {"bare", ""}, {"updown", "./d/../"}, {"abs", "${ROOT}/"}, {"abs-dot", "${ROOT}/./"}, {"abs-updown", "${ROOT}/d/../"}, {"abs-slashes", "${ROOT}//"}}
	for n := 1; n <= 2; n++ {
		tot := 1
		for i := 0; i < n; i++ {
			tot *= 2 * len(spell)
		}
		for code := 0; code < tot; code++ {
			files := map[string]string{"d/.keep": ""}
			x := code
			var used []string
			allDot := true
			for i := 0; i < n; i++ {
				long := x%2 == 1
				x /= 2
				sp := spell[x%len(spell)]
				x /= len(spell)
				allDot = allDot && sp.name == "dot"
				target := sp.pre + names[(i+1)%n]
				entry := "  - " + target + "\n"
				nm := sp.name
				if long {
					entry = "  - path: " + target + "\n"
					nm += "-long"
				}
				used = append(used, nm)
				files[names[i]] = "include:\n" + entry + fmt.Sprintf("services:\n  s%d: {image: i}\n", i)
			}
			if allDot {
				continue // covered above
			}
			inc[fmt.Sprintf("spelled/n%d/%s", n, strings.Join(used, "+"))] = files
		}
	}
	for _, k := range sortedKeys(inc) {
		k := k
		c.Do("includecycle/"+k, func() core.Outcome {
			out := c01total("includecycle/"+k, &Scn{Files: inc[k], Main: []string{"compose.yaml"}, Env: map[string]string{"ROOT": RootToken}}, "default")
			if out.Viol == nil && strings.HasSuffix(out.Class, "/ok") {
				out.Viol = &core.Violation{Key: "reference-cycle-accepted:include", Msg: k + ": an include cycle loads without error"}
			}
			return out
		})
	}
}

// c01files: every {present, absent, directory} state vector of the referenced files.
func c01files(c *core.Ctx) {
	type fscn struct {
		name  string
		files map[string]string
		main  []string
		// required reports, given which files are present, the set of required files that are missing/unreadable
		deps func(present func(string) bool) []string
		opts []func(*loader.Options)
	}
	svc := "services:\n  s:\n    image: i\n"
	scns := []fscn{
		{name: "override", files: map[string]string{"compose.yaml": svc, "over.yaml": "services:\n  s:\n    hostname: h\n"}, main: []string{"compose.yaml", "over.yaml"},
			deps: func(pr func(string) bool) []string { return missingOf(pr, "compose.yaml", "over.yaml") }},
		{name: "extends-chain", files: map[string]string{
			"compose.yaml": "services:\n  s:\n    extends: {file: ./b1.yaml, service: s}\n",
			"b1.yaml":      "services:\n  s:\n    extends: {file: ./sub/b2.yaml, service: s}\n    hostname: h\n",
			"sub/b2.yaml":  "services:\n  s:\n    image: i\n"}, main: []string{"compose.yaml"},
			deps: func(pr func(string) bool) []string {
				if !pr("compose.yaml") {
					return []string{"compose.yaml"}
				}
				if !pr("b1.yaml") {
					return []string{"b1.yaml"}
				}
				return missingOf(pr, "sub/b2.yaml")
			}},
		{name: "include-nested", files: map[string]string{
			"compose.yaml":      "include:\n  - path: ./inc/one.yaml\n    env_file: ./one.env\nservices:\n  m:\n    image: m\n",
			"one.env":           "V=1\n",
			"inc/one.yaml":      "include:\n  - ./deep/two.yaml\nservices:\n  one:\n    image: \"one:${V}\"\n",
			"inc/deep/two.yaml": "services:\n  two:\n    image: two\n",
			"inc/deep/.env":     "W=2\n"}, main: []string{"compose.yaml"},
			deps: func(pr func(string) bool) []string {
				if !pr("compose.yaml") {
					return []string{"compose.yaml"}
				}
				var m []string
				if !pr("one.env") {
					m = append(m, "one.env")
				}
				if !pr("inc/one.yaml") {
					m = append(m, "one.yaml")
					return m
				}
				if len(m) > 0 {
					return m
				}
				return missingOf(pr, "inc/deep/two.yaml")
			}},
		{name: "shared-env-file", files: map[string]string{
			// the same file is optional for one service and required for another: it is required
			"compose.yaml": "services:\n  a:\n    image: i\n    env_file:\n      - {path: ./shared.env, required: false}\n  b:\n    image: i\n    env_file: [./shared.env]\n  c:\n    image: i\n    env_file:\n      - {path: ./shared.env, required: false}\n",
			"shared.env":   "A=1\n"}, main: []string{"compose.yaml"},
			deps: func(pr func(string) bool) []string { return missingOf(pr, "compose.yaml", "shared.env") }},
		{name: "env-label-files", files: map[string]string{
			"compose.yaml": "services:\n  s:\n    image: i\n    env_file:\n      - ./req.env\n      - {path: ./opt.env, required: false}\n    label_file: [./l.labels]\n",
			"req.env":      "A=1\n", "opt.env": "B=2\n", "l.labels": "l=1\n"}, main: []string{"compose.yaml"},
			deps: func(pr func(string) bool) []string { return missingOf(pr, "compose.yaml", "req.env", "l.labels") }},
	}
	for _, fs := range scns {
		names := sortedKeys(fs.files)
		tot := 1
		for range names {
			tot *= 3
		}
		for code := 0; code < tot*2; code++ {
			fs, code, viaCli := fs, code%tot, code >= tot
			if viaCli && fs.opts != nil {
				continue
			}
			id := fmt.Sprintf("files/%s/%d", fs.name, code)
			if viaCli {
				// the same file states through the cli entry point (it reads the top-level files itself)
				id += "/cli"
			}
			c.Do(id, func() core.Outcome {
				state := map[string]int{}
				x := code
				files := map[string]string{}
				for _, n := range names {
					st := x % 3
					x /= 3
					state[n] = st
					switch st {
					case 0:
						files[n] = fs.files[n]
					case 2:
						files[n+"/"] = "" // a directory in its place
					}
				}
				// parents of absent nested files still exist
				files["inc/deep/.keep"] = ""
				files["sub/.keep"] = ""
				s := &Scn{Files: files, Main: fs.main, Opts: fs.opts}
				root := s.Materialise()
				loadAt := s.LoadAt
				if viaCli {
					loadAt = func(root string) (p *types.Project, err error) {
						var paths []string
						for _, m := range fs.main {
							paths = append(paths, filepath.Join(root, m))
						}
						perr := core.Try(func() error {
							po, e := cli.NewProjectOptions(paths, cli.WithWorkingDirectory(root), cli.WithName("proj"))
							if e != nil {
								err = e
								return nil
							}
							p, err = po.LoadProject(context.Background())
							return nil
						})
						if perr != nil {
							return nil, perr
						}
						return p, err
					}
				}
				p, err := loadAt(root)
				// services are visited in map order: the outcome class must be the same under every rotation
				for k := uintptr(1); k < 8; k++ {
					mapctl.SetUniform(k)
					p2, err2 := loadAt(root)
					mapctl.SetUniform(0)
					if (err2 == nil) != (err == nil) {
						os.RemoveAll(root)
						return core.Outcome{Class: "order", Sample: map[string]any{"case": id, "state": state}, Viol: &core.Violation{Key: "missing-file-outcome-depends-on-order:" + fs.name,
							Msg: fmt.Sprintf("%s: with files in state %v the load gives err=%v under one map iteration order and err=%v under another", id, state, err, err2)}}
					}
					if err != nil && err2 == nil {
						p = p2
					}
					if err2 != nil && err == nil {
						err = err2
					}
				}
				os.RemoveAll(root)
				sample := map[string]any{"case": id, "state": state}
				if pe, ok := err.(*core.PanicError); ok {
					return core.Outcome{Class: "panic", Sample: sample, Viol: &core.Violation{Key: "panic-site=" + pe.Site + ":" + panicClass(pe.Val) + ":files", Msg: id + ": " + pe.Error(), Detail: pe.Stack}}
				}
				if (p == nil) == (err == nil) {
					return core.Outcome{Class: "both", Viol: &core.Violation{Key: "neither-or-both", Msg: id}}
				}
				if fs.name == "env-label-files" && state["opt.env"] == 2 {
					// a directory in place of an optional env file: the statement does not say whether that is "missing"
					return core.Outcome{Class: "open", Trivial: true}
				}
				missing := fs.deps(func(n string) bool { return state[n] == 0 })
				if len(missing) > 0 {
					if err == nil {
						return core.Outcome{Class: "acc", Sample: sample, Viol: &core.Violation{Key: "missing-file-skipped:" + fs.name, Msg: fmt.Sprintf("%s: required files %v are missing or unreadable but the load succeeds (state %v)", id, missing, state)}}
					}
					named := false
					for _, m := range missing {
						if strings.Contains(err.Error(), filepath.Base(m)) {
							named = true
						}
					}
					if !named {
						return core.Outcome{Class: "unnamed", Sample: sample, Viol: &core.Violation{Key: "missing-file-not-named:" + fs.name, Msg: fmt.Sprintf("%s: error %q names none of the missing files %v", id, trunc(err.Error(), 200), missing)}}
					}
					return core.Outcome{Class: fs.name + "/error-names-file", Sample: sample}
				}
				if err != nil {
					return core.Outcome{Class: "rej", Sample: sample, Viol: &core.Violation{Key: "optional-file-required:" + fs.name, Msg: fmt.Sprintf("%s: every required file is present (state %v) but the load fails: %v", id, state, err)}}
				}
				return core.Outcome{Class: id, Sample: sample}
			})
		}
	}
}

func missingOf(pr func(string) bool, names ...string) []string {
	var m []string
	for _, n := range names {
		if !pr(n) {
			m = append(m, n)
		}
	}
	return m
}

func c01bytes(c *core.Ctx) {
	corpus := CorpusScns()
	seeds := map[string]string{
		"small":    "services:\n  s:\n    image: \"i:${T:-1}\"\n    ports: [\"80:80\"]\n    environment:\n      - A=1\n    depends_on: [t]\n  t: {image: t, volumes: [\"v:/d\"]}\nvolumes: {v: {}}\n",
		"anchors":  "x-b: &b\n  image: i\n  labels: &l {a: \"1\"}\nservices:\n  s:\n    <<: *b\n    annotations: *l\n",
		"extends":  "services:\n  s:\n    extends: {service: t}\n    command: [\"a\", 'b']\n  t:\n    image: t\n    healthcheck: {test: [CMD, x], interval: 1m}\n",
		"multidoc": "services:\n  s: {image: i}\n---\nservices:\n  s:\n    ports: !override [\"1:1\"]\n    hostname: !reset null\n",
		"profiles": corpus["profiles"].Files["compose.yaml"],
		"networks": "services:\n  s:\n    image: i\n    networks:\n      n: {aliases: [a], ipv4_address: 10.0.0.2}\nnetworks:\n  n:\n    ipam:\n      config: [{subnet: 10.0.0.0/24}]\n",
	}
	var edits []string
	for _, e := range []byte(":-[]{}&*!|>#\"' \t\n\x00\xff$") {
		edits = append(edits, string([]byte{e}))
	}
	// characters that take more than one byte: a symbol, a letter, a space, an ideograph
	edits = append(edits, "€", "é", "\u00a0", "日")
	for _, name := range sortedKeys(seeds) {
		b := []byte(seeds[name])
		if c.Quick() && len(b) > 220 {
			b = b[:220]
		}
		run := func(id string, doc string) {
			c.Do(id, func() core.Outcome {
				out := c01total(id, &Scn{Files: map[string]string{"compose.yaml": doc}, Main: []string{"compose.yaml"}, InMem: true}, "default")
				if out.Viol != nil {
					out.Viol.Key += ":byte-mutation"
				}
				out.Class = strings.TrimPrefix(out.Class, id) // outcome kind only: thousands of near-identical cases
				out.Class = name + out.Class
				return out
			})
		}
		for i := 0; i <= len(b); i++ {
			if c.Expired() {
				return
			}
			if i < len(b) {
				run(fmt.Sprintf("bytes/%s/del%d", name, i), string(b[:i])+string(b[i+1:]))
			}
			for _, e := range edits {
				run(fmt.Sprintf("bytes/%s/ins%d/%x", name, i, e), string(b[:i])+e+string(b[i:]))
				if i < len(b) {
					run(fmt.Sprintf("bytes/%s/rep%d/%x", name, i, e), string(b[:i])+e+string(b[i+1:]))
				}
			}
		}
	}
}

var _ = sort.Strings
