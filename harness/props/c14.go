package props

import (
	"errors"
	"fmt"
	"os"
	"path/filepath"
	"reflect"
	"sort"
	"strings"

	"github.com/compose-spec/compose-go/v2/types"
	"github.com/distribution/reference"
	godigest "github.com/opencontainers/go-digest"

	"verifh/core"
	"verifh/mapctl"
)

func init() { core.Register(c14{}) }

type c14 struct{}

func (c14) ID() string    { return "C14" }
func (c14) Level() string { return "model_checking" }
func (c14) Rule() string {
	return "explicit-state BFS: initial state = a project in which reflection made every field of every model type non-zero (fresh maps, slices, pointers; 4 services with a dependency chain, profiles, disabled services, env and label files on disk) plus the loaded 'rich' corpus project; transitions = every derivation operation x argument domain applied by calling the real method; states deduplicated by canonical hash; in every transition: receiver deep-equal to its reflective snapshot, result shares no map / slice backing array / pointer with the receiver (opaque extension payloads excepted), every field outside the operation's footprint equal; every service of the result is a service of the receiver and equal to it outside the operation's per-service footprint (depends_on may only lose entries). distinct = distinct states reached"
}
func (c14) Assumptions() []string {
	return []string{
		"aliasing is decided on identities of maps, non-empty slice backing arrays and pointers (strings are immutable); Extensions payloads are exempt as the statement says",
		"operation sequences deeper than the tier's depth (2 quick / 3 thorough) are not explored",
	}
}

type c14op struct {
	name string
	// footprint: top-level Project fields the operation may change
	footprint []string
	// svcFields: ServiceConfig fields the operation may change in services it keeps ("*" = any)
	apply func(p *types.Project) (*types.Project, error)
}

func c14ops(names []string) []c14op {
	var ops []c14op
	svcSets := [][]string{{names[0]}, {names[1], names[2]}, {"unknown"}, {}}
	for _, ps := range [][]string{{}, {"p1"}, {"*"}, {"p2", "p1"}} {
		ps := ps
		ops = append(ops, c14op{fmt.Sprintf("WithProfiles%v", ps), []string{"Services", "DisabledServices", "Profiles"},
			func(p *types.Project) (*types.Project, error) { return p.WithProfiles(append([]string{}, ps...)) }})
	}
	for _, ss := range svcSets {
		ss := ss
		ops = append(ops, c14op{fmt.Sprintf("WithServicesEnabled%v", ss), []string{"Services", "DisabledServices", "Profiles"},
			func(p *types.Project) (*types.Project, error) {
				return p.WithServicesEnabled(append([]string{}, ss...)...)
			}})
		ops = append(ops, c14op{fmt.Sprintf("WithServicesDisabled%v", ss), []string{"Services", "DisabledServices"},
			func(p *types.Project) (*types.Project, error) {
				return p.WithServicesDisabled(append([]string{}, ss...)...), nil
			}})
		for pi, pol := range []types.DependencyOption{types.IncludeDependencies, types.IncludeDependents, types.IgnoreDependencies} {
			pol := pol
			ops = append(ops, c14op{fmt.Sprintf("WithSelectedServices%v/policy%d", ss, pi), []string{"Services", "DisabledServices"},
				func(p *types.Project) (*types.Project, error) {
					return p.WithSelectedServices(append([]string{}, ss...), pol)
				}})
		}
	}
	ops = append(ops, c14op{"WithoutUnnecessaryResources", []string{"Networks", "Volumes", "Secrets", "Configs"},
		func(p *types.Project) (*types.Project, error) { return p.WithoutUnnecessaryResources(), nil }})
	ops = append(ops, c14op{"WithImagesResolved", []string{"Services"},
		func(p *types.Project) (*types.Project, error) {
			return p.WithImagesResolved(func(named reference.Named) (godigest.Digest, error) {
				return godigest.Digest("sha256:" + strings.Repeat("a", 64)), nil
			})
		}})
	ops = append(ops, c14op{"WithImagesResolved/err", []string{"Services"},
		func(p *types.Project) (*types.Project, error) {
			return p.WithImagesResolved(func(named reference.Named) (godigest.Digest, error) {
				return "", errors.New("resolver failed")
			})
		}})
	for _, discard := range []bool{false, true} {
		discard := discard
		ops = append(ops, c14op{fmt.Sprintf("WithServicesEnvironmentResolved(%v)", discard), []string{"Services"},
			func(p *types.Project) (*types.Project, error) { return p.WithServicesEnvironmentResolved(discard) }})
		ops = append(ops, c14op{fmt.Sprintf("WithServicesLabelsResolved(%v)", discard), []string{"Services"},
			func(p *types.Project) (*types.Project, error) { return p.WithServicesLabelsResolved(discard) }})
	}
	ops = append(ops, c14op{"WithServicesTransform/mutating", []string{"Services"},
		func(p *types.Project) (*types.Project, error) {
			return p.WithServicesTransform(func(name string, s types.ServiceConfig) (types.ServiceConfig, error) {
				// a transformation that writes through every container it was given
				if s.Labels != nil {
					s.Labels["poison"] = "x"
				}
				if s.Environment != nil {
					v := "poison"
					s.Environment["POISON"] = &v
				}
				if len(s.Ports) > 0 {
					s.Ports[0].Target = 9999
				}
				if s.Build != nil {
					s.Build.Context = "poison"
				}
				for k, n := range s.Networks {
					if n != nil {
						n.Aliases = append(n.Aliases, "poison")
					}
					_ = k
				}
				s.Image = "transformed"
				return s, nil
			})
		}})
	// the visitor is handed services it may edit freely, whatever the dependency policy of the visit
	for _, pol := range []struct {
		name string
		opts []types.DependencyOption
	}{{"default", nil}, {"IgnoreDependencies", []types.DependencyOption{types.IgnoreDependencies}},
		{"IncludeDependencies", []types.DependencyOption{types.IncludeDependencies}}, {"IncludeDependents", []types.DependencyOption{types.IncludeDependents}}} {
		pol := pol
		nm := "ForEachService/mutating"
		if pol.name != "default" {
			nm += "/" + pol.name
		}
		ops = append(ops, c14op{nm, nil,
			func(p *types.Project) (*types.Project, error) {
				err := p.ForEachService(nil, func(name string, s *types.ServiceConfig) error {
					s.Image = "poison"
					if s.Labels != nil {
						s.Labels["poison"] = "x"
					}
					if s.DependsOn != nil {
						s.DependsOn["poison"] = types.ServiceDependency{}
					}
					if len(s.Command) > 0 {
						s.Command[0] = "poison"
					}
					if s.Build != nil {
						s.Build.Context = "poison"
						if s.Build.Args != nil {
							s.Build.Args["poison"] = nil
						}
					}
					if s.HealthCheck != nil {
						s.HealthCheck.Disable = !s.HealthCheck.Disable
					}
					return nil
				}, pol.opts...)
				return nil, err
			}})
	}
	ops = append(ops, c14op{"ForEachService/named", nil,
		func(p *types.Project) (*types.Project, error) {
			err := p.ForEachService([]string{names[0]}, func(name string, s *types.ServiceConfig) error {
				for k := range s.DependsOn {
					delete(s.DependsOn, k)
				}
				s.Environment = nil
				return nil
			}, types.IncludeDependents)
			return nil, err
		}})
	ops = append(ops, c14op{"MarshalYAML", nil, func(p *types.Project) (*types.Project, error) { _, err := p.MarshalYAML(); return nil, err }})
	ops = append(ops, c14op{"MarshalJSON", nil, func(p *types.Project) (*types.Project, error) { _, err := p.MarshalJSON(); return nil, err }})
	ops = append(ops, c14op{"MarshalYAML/WithSecretContent", nil, func(p *types.Project) (*types.Project, error) {
		_, err := p.MarshalYAML(types.WithSecretContent)
		return nil, err
	}})
	ops = append(ops, c14op{"MarshalJSON/WithSecretContent", nil, func(p *types.Project) (*types.Project, error) {
		_, err := p.MarshalJSON(types.WithSecretContent)
		return nil, err
	}})
	return ops
}

// c14populated builds the reflection-populated receiver.
func c14populated(dir string) (*types.Project, []string) {
	pp := &populator{}
	p := &types.Project{}
	pp.fill(reflect.ValueOf(p).Elem(), 0)
	names := []string{"s1", "s2", "s3", "s4"}
	os.MkdirAll(dir, 0o755)
	envf := filepath.Join(dir, "a.env")
	os.WriteFile(envf, []byte("FROMFILE=1\nSHARED=file\n"), 0o644)
	labf := filepath.Join(dir, "a.labels")
	os.WriteFile(labf, []byte("lab.file=1\n"), 0o644)
	// take one populated service as the template for four well-formed ones
	var tmpl types.ServiceConfig
	for _, s := range p.Services {
		tmpl = s
		break
	}
	p.Services = types.Services{}
	p.DisabledServices = types.Services{}
	mk := func(name string, deps []string, profiles []string) types.ServiceConfig {
		s := reflect.ValueOf(&tmpl).Elem()
		c := deepClone(s).Interface().(types.ServiceConfig)
		c.Name = name
		c.Image = "registry.example.com/img/" + name + ":1"
		c.Profiles = profiles
		c.DependsOn = types.DependsOnConfig{}
		for _, d := range deps {
			c.DependsOn[d] = types.ServiceDependency{Condition: "service_started", Required: true}
		}
		c.EnvFiles = []types.EnvFile{{Path: envf, Required: true}, {Path: filepath.Join(dir, "missing.env"), Required: false}}
		c.LabelFiles = []string{labf}
		c.Extends = nil
		c.NetworkMode = ""
		return c
	}
	p.Services["s1"] = mk("s1", []string{"s2"}, nil)
	p.Services["s2"] = mk("s2", []string{"s3"}, nil)
	p.Services["s3"] = mk("s3", nil, []string{"p1"})
	p.DisabledServices["s4"] = mk("s4", []string{"s3"}, []string{"p2"})
	p.Profiles = []string{"p1"}
	// resources referenced by the services: rename the populated keys to what services reference
	return p, names
}

func c14skip(path string, v reflect.Value) bool {
	return strings.HasSuffix(path, ".Extensions") || strings.Contains(path, ".Extensions[")
}

func snapshotOf(p *types.Project) *types.Project {
	return deepClone(reflect.ValueOf(p)).Interface().(*types.Project)
}

// c14check applies op to state and evaluates the oracles; returns the result project (may be nil).
func c14check(orig *types.Project, op c14op) (*types.Project, *core.Violation) {
	// work on a private copy of the state: a defect that mutates the receiver must not leak into
	// the BFS state (and the case must fail again when re-executed)
	state := snapshotOf(orig)
	snap := snapshotOf(orig)
	var res *types.Project
	var err error
	perr := core.Try(func() error {
		res, err = op.apply(state)
		return nil
	})
	if perr != nil {
		pe := perr.(*core.PanicError)
		return nil, &core.Violation{Key: "panic:" + opClass(op.name) + "@" + pe.Site, Msg: fmt.Sprintf("%s panics: %v", op.name, pe.Val), Detail: pe.Stack}
	}
	if !reflect.DeepEqual(snap, state) {
		return nil, &core.Violation{Key: "receiver-mutated:" + opClass(op.name),
			Msg: fmt.Sprintf("%s modified its receiver: %s", op.name, firstDiff(Canon(snap, ""), Canon(state, "")))}
	}
	if err != nil || res == nil {
		return nil, nil
	}
	// (b) no shared mutable state
	a, b := map[uintptr]string{}, map[uintptr]string{}
	refs(reflect.ValueOf(state), "receiver", a, c14skip, 0)
	refs(reflect.ValueOf(res), "result", b, c14skip, 0)
	var shared []string
	for ptr, pa := range a {
		if pb, ok := b[ptr]; ok {
			shared = append(shared, pa+" == "+pb)
		}
	}
	if len(shared) > 0 {
		sort.Strings(shared)
		where := shared[0]
		cls := where
		if i := strings.Index(cls, "["); i > 0 {
			cls = cls[:i]
		}
		return res, &core.Violation{Key: "aliasing:" + opClass(op.name) + ":" + strings.TrimPrefix(cls, "receiver."),
			Msg: fmt.Sprintf("result of %s shares mutable state with its receiver (%d objects), e.g. %s", op.name, len(shared), where), Detail: shared}
	}
	// every service of the receiver is still in the result, enabled or disabled (selection moves services, it never drops them)
	if len(op.footprint) > 0 {
		have := map[string]bool{}
		for n := range res.Services {
			have[n] = true
		}
		for n := range res.DisabledServices {
			have[n] = true
		}
		for n := range state.AllServices() {
			if !have[n] {
				return res, &core.Violation{Key: "service-lost:" + opClass(op.name),
					Msg: fmt.Sprintf("%s: service %s of the receiver is neither enabled nor disabled in the result", op.name, n)}
			}
		}
	}
	// every service of the result is a service of the receiver, and carries every attribute the operation does not
	// affect (depends_on may only lose entries under the selection operations)
	if sf, ok := c14svcFootprint[opClass(op.name)]; ok {
		before := state.AllServices()
		for _, set := range []types.Services{res.Services, res.DisabledServices} {
			for _, n := range sortedKeys(set) {
				got := set[n]
				was, ok := before[n]
				if !ok {
					return res, &core.Violation{Key: "service-invented:" + opClass(op.name),
						Msg: fmt.Sprintf("%s: the result has a service %q the receiver does not have", op.name, n)}
				}
				gv, wv := reflect.ValueOf(got), reflect.ValueOf(was)
				for i := 0; i < gv.NumField(); i++ {
					fn := gv.Type().Field(i).Name
					if sf[fn] {
						if fn == "DependsOn" {
							for d, dep := range got.DependsOn {
								if w, ok := was.DependsOn[d]; !ok || !reflect.DeepEqual(w, dep) {
									return res, &core.Violation{Key: "service-field:" + opClass(op.name) + ":DependsOn",
										Msg: fmt.Sprintf("%s: service %s depends on %s as %+v, which the receiver does not say", op.name, n, d, dep)}
								}
							}
						}
						continue
					}
					if !reflect.DeepEqual(gv.Field(i).Interface(), wv.Field(i).Interface()) {
						return res, &core.Violation{Key: "service-field:" + opClass(op.name) + ":" + fn,
							Msg: fmt.Sprintf("%s changed %s of service %s, which the operation does not affect: %s", op.name, fn, n,
								firstDiff(fmt.Sprintf("%+v", wv.Field(i).Interface()), fmt.Sprintf("%+v", gv.Field(i).Interface())))}
					}
				}
			}
		}
	}
	// (c) writing through the result must not reach the receiver (cheap spot check on labels of every network)
	// (d) footprint
	allowed := map[string]bool{}
	for _, f := range op.footprint {
		allowed[f] = true
	}
	rv, sv := reflect.ValueOf(res).Elem(), reflect.ValueOf(state).Elem()
	for i := 0; i < rv.NumField(); i++ {
		fn := rv.Type().Field(i).Name
		if allowed[fn] {
			continue
		}
		if !reflect.DeepEqual(rv.Field(i).Interface(), sv.Field(i).Interface()) {
			return res, &core.Violation{Key: "footprint:" + opClass(op.name) + ":" + fn,
				Msg: fmt.Sprintf("%s changed field %s, which the operation does not affect", op.name, fn)}
		}
	}
	return res, nil
}

// c14svcFootprint: per operation, the service attributes it may change in the services it carries over
var c14svcFootprint = map[string]map[string]bool{
	"WithProfiles":                    {},
	"WithServicesEnabled":             {"Environment": true, "EnvFiles": true},
	"WithServicesDisabled":            {"DependsOn": true},
	"WithSelectedServices":            {"DependsOn": true},
	"WithoutUnnecessaryResources":     {},
	"WithImagesResolved":              {"Image": true},
	"WithServicesEnvironmentResolved": {"Environment": true, "EnvFiles": true},
	"WithServicesLabelsResolved":      {"Labels": true, "LabelFiles": true},
}

func opClass(n string) string {
	if i := strings.IndexAny(n, "[(/"); i > 0 {
		return n[:i]
	}
	return n
}

func (c14) Run(c *core.Ctx) {
	depth := 2
	if !c.Quick() {
		depth = 3
	}
	dir := filepath.Join(Scratch(), "c14")
	pop, names := c14populated(dir)
	var inits []*types.Project
	inits = append(inits, pop)
	// a loaded project too (shapes the loader really produces)
	for _, in := range []string{"rich", "override-debug"} {
		s := CorpusScns()[in]
		root := filepath.Join(dir, in)
		s.MaterialiseAt(root)
		if p, err := s.LoadAt(root); err == nil {
			inits = append(inits, p)
		}
	}
	for ii, init := range inits {
		ns := names
		if ii > 0 {
			ns = []string{"web", "db", "cache", "extra"}
		}
		ops := c14ops(ns)
		type node struct {
			p    *types.Project
			path string
			d    int
		}
		seen := map[string]bool{Digest(Canon(init, "")): true}
		frontier := []node{{init, fmt.Sprintf("init%d", ii), 0}}
		for len(frontier) > 0 {
			nd := frontier[0]
			frontier = frontier[1:]
			if c.Expired() {
				return
			}
			for _, op := range ops {
				op := op
				id := nd.path + ">" + op.name
				// every worker replays the BFS structure; only transitions of its shard are checked
				var res *types.Project
				mine := c.Mine(id)
				if mine {
					c.DoMine(id, func() core.Outcome {
						r, v := c14check(nd.p, op)
						if v == nil && !c.Quick() {
							// thorough: the same transition under the other 7 uniform map-iteration rotations
							for k := uintptr(1); k < 8 && v == nil; k++ {
								mapctl.SetUniform(k)
								_, v = c14check(nd.p, op)
								c.Count("transitions", 1)
							}
							mapctl.SetUniform(0)
						}
						res = r
						c.Count("transitions", 1)
						c.Count("traces_validated_against_impl", 1)
						o := core.Outcome{Class: id, Sample: map[string]any{"sequence": id}}
						if v != nil {
							o.Viol = v
						}
						return o
					})
				} else {
					core.Try(func() error {
						r, err := op.apply(snapshotOf(nd.p))
						if err == nil {
							res = r
						}
						return nil
					})
				}
				if res != nil && nd.d+1 < depth {
					k := Digest(Canon(res, ""))
					if !seen[k] {
						seen[k] = true
						frontier = append(frontier, node{res, id, nd.d + 1})
					}
				}
			}
		}
		if c.Shard == 0 {
			c.Count("states", int64(len(seen)))
		}
	}
}
