package props

import (
	"fmt"
	"reflect"
	"strings"
	"unsafe"
)

// Populate fills v (addressable) so that every field of every reachable type is non-zero,
// with freshly allocated maps, slices and pointers. depth bounds recursive types.
type populator struct {
	n int
}

func (p *populator) next() int { p.n++; return p.n }

func (p *populator) fill(v reflect.Value, depth int) {
	if depth > 12 {
		return
	}
	switch v.Kind() {
	case reflect.String:
		v.SetString(fmt.Sprintf("v%d", p.next()))
	case reflect.Bool:
		v.SetBool(true)
	case reflect.Int, reflect.Int8, reflect.Int16, reflect.Int32, reflect.Int64:
		v.SetInt(int64(p.next()%50 + 1))
	case reflect.Uint, reflect.Uint8, reflect.Uint16, reflect.Uint32, reflect.Uint64:
		v.SetUint(uint64(p.next()%50 + 1))
	case reflect.Float32, reflect.Float64:
		v.SetFloat(float64(p.next()%7) + 0.5)
	case reflect.Ptr:
		n := reflect.New(v.Type().Elem())
		p.fill(n.Elem(), depth+1)
		v.Set(n)
	case reflect.Struct:
		for i := 0; i < v.NumField(); i++ {
			f := v.Field(i)
			if !f.CanSet() {
				continue
			}
			p.fill(f, depth+1)
		}
	case reflect.Slice:
		s := reflect.MakeSlice(v.Type(), 2, 2)
		for i := 0; i < 2; i++ {
			p.fill(s.Index(i), depth+1)
		}
		v.Set(s)
	case reflect.Map:
		m := reflect.MakeMap(v.Type())
		for i := 0; i < 2; i++ {
			k := reflect.New(v.Type().Key()).Elem()
			p.fill(k, depth+1)
			e := reflect.New(v.Type().Elem()).Elem()
			p.fill(e, depth+1)
			m.SetMapIndex(k, e)
		}
		v.Set(m)
	case reflect.Interface:
		if v.NumMethod() == 0 {
			// an untyped payload (extensions): nested containers, the empty and the nil ones among them
			v.Set(reflect.ValueOf(map[string]any{"xk": []any{fmt.Sprintf("x%d", p.next())}, "empty-list": []any{}, "empty-map": map[string]any{},
				"null": nil, "nested": []any{map[string]any{"deep": []any{}, "n": 1}, []any{}}}))
		}
	}
}

// refs collects the identities of every map, non-empty slice backing array and pointer
// reachable from v (exported and unexported fields), mapped to a path for reporting.
// Subtrees under a field or key named skipName are not entered (opaque extension payloads).
func refs(v reflect.Value, path string, out map[uintptr]string, skip func(path string, v reflect.Value) bool, depth int) {
	if depth > 40 || !v.IsValid() {
		return
	}
	if skip != nil && skip(path, v) {
		return
	}
	switch v.Kind() {
	case reflect.Ptr:
		if v.IsNil() {
			return
		}
		if _, ok := out[v.Pointer()]; !ok {
			out[v.Pointer()] = path
		}
		refs(v.Elem(), path, out, skip, depth+1)
	case reflect.Interface:
		if v.IsNil() {
			return
		}
		refs(v.Elem(), path, out, skip, depth+1)
	case reflect.Struct:
		for i := 0; i < v.NumField(); i++ {
			refs(v.Field(i), path+"."+v.Type().Field(i).Name, out, skip, depth+1)
		}
	case reflect.Slice:
		if v.IsNil() || v.Len() == 0 {
			return
		}
		if _, ok := out[v.Pointer()]; !ok {
			out[v.Pointer()] = path + "[]"
		}
		for i := 0; i < v.Len(); i++ {
			refs(v.Index(i), fmt.Sprintf("%s[%d]", path, i), out, skip, depth+1)
		}
	case reflect.Map:
		if v.IsNil() {
			return
		}
		if _, ok := out[v.Pointer()]; !ok {
			out[v.Pointer()] = path + "{}"
		}
		it := v.MapRange()
		for it.Next() {
			refs(it.Value(), fmt.Sprintf("%s[%v]", path, it.Key().Interface()), out, skip, depth+1)
		}
	}
}

// deepClone makes an independent copy of v by reflection (unexported fields included).
func deepClone(v reflect.Value) reflect.Value {
	switch v.Kind() {
	case reflect.Ptr:
		if v.IsNil() {
			return reflect.Zero(v.Type())
		}
		n := reflect.New(v.Type().Elem())
		setAny(n.Elem(), deepClone(v.Elem()))
		return n
	case reflect.Interface:
		if v.IsNil() {
			return reflect.Zero(v.Type())
		}
		n := reflect.New(v.Type()).Elem()
		n.Set(deepClone(v.Elem()))
		return n
	case reflect.Struct:
		if !v.CanAddr() {
			tmp := reflect.New(v.Type()).Elem()
			tmp.Set(v)
			v = tmp
		}
		n := reflect.New(v.Type()).Elem()
		for i := 0; i < v.NumField(); i++ {
			setAny(n.Field(i), deepClone(readable(v.Field(i))))
		}
		return n
	case reflect.Slice:
		if v.IsNil() {
			return reflect.Zero(v.Type())
		}
		n := reflect.MakeSlice(v.Type(), v.Len(), v.Len())
		for i := 0; i < v.Len(); i++ {
			setAny(n.Index(i), deepClone(v.Index(i)))
		}
		return n
	case reflect.Map:
		if v.IsNil() {
			return reflect.Zero(v.Type())
		}
		n := reflect.MakeMapWithSize(v.Type(), v.Len())
		it := v.MapRange()
		for it.Next() {
			n.SetMapIndex(deepClone(it.Key()), deepClone(it.Value()))
		}
		return n
	default:
		n := reflect.New(v.Type()).Elem()
		n.Set(v)
		return n
	}
}

// readable returns a Value for an unexported field that can be read without restrictions.
func readable(f reflect.Value) reflect.Value {
	if f.CanInterface() || !f.CanAddr() {
		return f
	}
	return reflect.NewAt(f.Type(), unsafe.Pointer(f.UnsafeAddr())).Elem()
}

func setAny(dst, src reflect.Value) {
	if dst.CanSet() {
		dst.Set(src)
		return
	}
	reflect.NewAt(dst.Type(), unsafe.Pointer(dst.UnsafeAddr())).Elem().Set(src)
}

// replaceStrings rewrites every string reachable from v (a pointer) replacing old by new.
func replaceStrings(root any, old, new string) {
	var walk func(v reflect.Value)
	walk = func(v reflect.Value) {
		switch v.Kind() {
		case reflect.Ptr, reflect.Interface:
			if !v.IsNil() {
				if v.Kind() == reflect.Interface {
					e := v.Elem()
					if e.Kind() == reflect.String && v.CanSet() {
						v.Set(reflect.ValueOf(strings.ReplaceAll(e.String(), old, new)))
						return
					}
					walk(e)
					return
				}
				walk(v.Elem())
			}
		case reflect.String:
			if v.CanSet() {
				v.SetString(strings.ReplaceAll(v.String(), old, new))
			}
		case reflect.Struct:
			for i := 0; i < v.NumField(); i++ {
				walk(v.Field(i))
			}
		case reflect.Slice:
			for i := 0; i < v.Len(); i++ {
				walk(v.Index(i))
			}
		case reflect.Map:
			it := v.MapRange()
			type kv struct{ k, v reflect.Value }
			var upd []kv
			for it.Next() {
				e := reflect.New(v.Type().Elem()).Elem()
				e.Set(it.Value())
				walk(e)
				upd = append(upd, kv{it.Key(), e})
			}
			for _, u := range upd {
				v.SetMapIndex(u.k, u.v)
			}
		}
	}
	walk(reflect.ValueOf(root))
}

// nilZeroPtrs replaces every pointer to a zero-valued struct by nil (the statements do not
// distinguish "absent" from "present but empty" for optional blocks).
func nilZeroPtrs(root any) {
	var walk func(v reflect.Value)
	walk = func(v reflect.Value) {
		switch v.Kind() {
		case reflect.Ptr:
			if v.IsNil() {
				return
			}
			walk(v.Elem())
			if v.Elem().Kind() == reflect.Struct && v.Elem().IsZero() && v.CanSet() {
				v.Set(reflect.Zero(v.Type()))
			}
		case reflect.Interface:
			if !v.IsNil() {
				walk(v.Elem())
			}
		case reflect.Struct:
			for i := 0; i < v.NumField(); i++ {
				walk(v.Field(i))
			}
		case reflect.Slice:
			for i := 0; i < v.Len(); i++ {
				walk(v.Index(i))
			}
		case reflect.Map:
			it := v.MapRange()
			type kv struct{ k, v reflect.Value }
			var upd []kv
			for it.Next() {
				e := reflect.New(v.Type().Elem()).Elem()
				e.Set(it.Value())
				walk(e)
				upd = append(upd, kv{it.Key(), e})
			}
			for _, u := range upd {
				v.SetMapIndex(u.k, u.v)
			}
		}
	}
	walk(reflect.ValueOf(root))
}
