package props

import (
	"reflect"

	"github.com/google/go-cmp/cmp"
	"github.com/google/go-cmp/cmp/cmpopts"

	"github.com/compose-spec/compose-go/v2/types"
)

// cmpOpts: equality modulo what the statements leave open (nil vs empty containers,
// unexported bookkeeping fields).
func cmpOpts(extra ...cmp.Option) []cmp.Option {
	o := []cmp.Option{
		cmpopts.EquateEmpty(),
		cmp.Exporter(func(reflect.Type) bool { return false }),
		cmpopts.IgnoreUnexported(types.SecretConfig{}, types.ConfigObjConfig{}),
	}
	return append(o, extra...)
}

// ProjectDiff compares the fields the round-trip / differential properties name:
// name, services, networks, volumes, secrets, configs, extensions (+ disabled services).
func ProjectDiff(a, b *types.Project, extra ...cmp.Option) string {
	type view struct {
		Name             string
		Services         types.Services
		DisabledServices types.Services
		Networks         types.Networks
		Volumes          types.Volumes
		Secrets          types.Secrets
		Configs          types.Configs
		Extensions       types.Extensions
	}
	va := view{a.Name, a.Services, a.DisabledServices, a.Networks, a.Volumes, a.Secrets, a.Configs, a.Extensions}
	vb := view{b.Name, b.Services, b.DisabledServices, b.Networks, b.Volumes, b.Secrets, b.Configs, b.Extensions}
	var d string
	func() {
		defer func() {
			if r := recover(); r != nil {
				d = "cmp panic"
				if !reflect.DeepEqual(va, vb) {
					d = "differs (reflect.DeepEqual)"
				} else {
					d = ""
				}
			}
		}()
		d = cmp.Diff(va, vb, cmpOpts(extra...)...)
	}()
	return d
}

// ProjectDiffActive is ProjectDiff without the disabled services (which renderings omit by design).
func ProjectDiffActive(a, b *types.Project) string {
	a2, b2 := *a, *b
	a2.DisabledServices, b2.DisabledServices = nil, nil
	return ProjectDiff(&a2, &b2)
}
