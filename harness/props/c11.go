package props

import (
	"fmt"
	"regexp"
	"strings"

	"github.com/compose-spec/compose-go/v2/types"

	"gopkg.in/yaml.v3"

	"verifh/core"
	"verifh/schemagen"
)

func init() { core.Register(c11{}) }

type c11 struct{}

func (c11) ID() string    { return "C11" }
func (c11) Level() string { return "exploration" }
func (c11) Rule() string {
	return "30 default-able facts (default network membership; implicit default network; <project>_<key> names of network/volume/secret/config; depends_on implied by links, network_mode/ipc/pid service: namespaces (alone, next to a plain value of another namespace, two at once), volumes_from; build context; dockerfile; port protocol; port mode; secret target; depends_on required; depends_on short list; env_file required; device count; pull_policy alias), each carried by its own service: every subset of <=3 facts left implicit and every subset of <=3 facts written explicitly (thorough: all 2^14 subsets of the first 14), delivered by main file (also declaring a `name:` other than the imposed project name, and with services and resources named x-... / with dots) / override / include / extended base (other file and same file), and (main file, extended base) under a later layer that restates the same entry in its other spelling and adds other entries to the same attributes; oracle: implicit model == all-explicit model delivered the same way. Plus, per fact, an explicit non-default value that must survive (written literally, and with each value of the service in turn given through a variable: must load wherever the schema admits a string), an implied depends_on that must not replace a declared one, and the `default` network present iff used, over every assignment of 3 services to 6 ways of using or not using it (implicit, explicit list, explicit mapping, with another network, network_mode, another network only), and for one service whose networks arrive from two layers (left out / declared empty / [default] / [other], then left out / [other] / [default] / network_mode: host) through an override file, a second document and an extended base. distinct = distinct subsets x origins"
}
func (c11) Assumptions() []string {
	return []string{"projects compared with go-cmp (EquateEmpty) over all model fields"}
}

type c11fact struct {
	name     string
	svc      string // service body (without the 2-space name line), implicit form
	svcExpl  string // explicit form
	top      string // top-level fragment, implicit form
	topExpl  string
	nonDef   string // service body with an explicit non-default value ("" = not applicable)
	refine   string // fragment a later layer adds to the service: touches the same attribute, but another entry of it
	restates bool   // the refine fragment also restates the fact's own entry in its other spelling (then it legitimately decides explicit values)
	nonDefOK func(p *types.Project, svc string) string
}

const c11dep = "condition: service_started, restart: true, required: true"

func c11facts() []c11fact {
	depCheck := func(p *types.Project, svc string) string {
		d, ok := p.Services[svc].DependsOn["t"]
		if !ok || d.Condition != "service_healthy" || d.Required != false || d.Restart != false {
			return fmt.Sprintf("declared depends_on entry for t was replaced by the implied one: %+v", d)
		}
		return ""
	}
	declared := "    depends_on:\n      t: {condition: service_healthy, restart: false, required: false}\n"
	return []c11fact{
		{name: "default-network-membership", svc: "    image: i\n", svcExpl: "    image: i\n    networks: {default: null}\n",
			nonDef: "    image: i\n    networks: [other]\n", nonDefOK: func(p *types.Project, s string) string {
				if _, ok := p.Services[s].Networks["default"]; ok || len(p.Services[s].Networks) != 1 {
					return "service with explicit networks was also attached to default"
				}
				return ""
			}},
		{name: "implicit-default-network", svc: "    image: i\n", svcExpl: "    image: i\n", top: "", topExpl: "networks:default:{name: proj_default}"},
		{name: "network-name", svc: "    image: i\n    networks: [named]\n", svcExpl: "    image: i\n    networks: [named]\n", top: "networks:named:{}", topExpl: "networks:named:{name: proj_named}"},
		{name: "volume-name", svc: "    image: i\n    volumes: [\"vol:/v\"]\n", svcExpl: "    image: i\n    volumes: [\"vol:/v\"]\n", top: "volumes:vol:{}", topExpl: "volumes:vol:{name: proj_vol}"},
		{name: "secret-name", svc: "    image: i\n", svcExpl: "    image: i\n", top: "secrets:sec:{file: ./s}", topExpl: "secrets:sec:{file: ./s, name: proj_sec}"},
		{name: "config-name", svc: "    image: i\n", svcExpl: "    image: i\n", top: "configs:cfg:{content: c}", topExpl: "configs:cfg:{content: c, name: proj_cfg}"},
		{name: "volume-external-false", svc: "    image: i\n", svcExpl: "    image: i\n", top: "volumes:evol:{}", topExpl: "volumes:evol:{external: false, name: proj_evol}"},
		{name: "network-external-false", svc: "    image: i\n", svcExpl: "    image: i\n", top: "networks:enet:{}", topExpl: "networks:enet:{external: false, name: proj_enet}"},
		{name: "secret-external-false", svc: "    image: i\n", svcExpl: "    image: i\n", top: "secrets:esec:{file: ./s}", topExpl: "secrets:esec:{file: ./s, external: false, name: proj_esec}"},
		{name: "config-external-false", svc: "    image: i\n", svcExpl: "    image: i\n", top: "configs:ecfg:{content: c}", topExpl: "configs:ecfg:{content: c, external: false, name: proj_ecfg}"},
		{name: "volume-external-false-unnamed", svc: "    image: i\n", svcExpl: "    image: i\n", top: "volumes:evol2:{external: false}", topExpl: "volumes:evol2:{name: proj_evol2}"},
		{name: "network-external-false-unnamed", svc: "    image: i\n", svcExpl: "    image: i\n", top: "networks:enet2:{external: false}", topExpl: "networks:enet2:{name: proj_enet2}"},
		{name: "depends-on-from-links", refine: "    depends_on:\n      u: {condition: service_healthy}\n", svc: "    image: i\n    links: [t]\n", svcExpl: "    image: i\n    links: [t]\n    depends_on:\n      t: {" + c11dep + "}\n",
			nonDef: "    image: i\n    links: [\"t:alias\"]\n" + declared, nonDefOK: depCheck},
		{name: "depends-on-from-network-mode", svc: "    image: i\n    network_mode: \"service:t\"\n", svcExpl: "    image: i\n    network_mode: \"service:t\"\n    depends_on:\n      t: {" + c11dep + "}\n",
			nonDef: "    image: i\n    network_mode: \"service:t\"\n" + declared, nonDefOK: depCheck},
		{name: "depends-on-from-ipc", svc: "    image: i\n    ipc: \"service:t\"\n", svcExpl: "    image: i\n    ipc: \"service:t\"\n    depends_on:\n      t: {" + c11dep + "}\n",
			nonDef: "    image: i\n    ipc: \"service:t\"\n" + declared, nonDefOK: depCheck},
		{name: "depends-on-from-pid", svc: "    image: i\n    pid: \"service:t\"\n", svcExpl: "    image: i\n    pid: \"service:t\"\n    depends_on:\n      t: {" + c11dep + "}\n",
			nonDef: "    image: i\n    pid: \"service:t\"\n" + declared, nonDefOK: depCheck},
		{name: "depends-on-from-ipc-next-to-host-network", svc: "    image: i\n    network_mode: host\n    ipc: \"service:t\"\n", svcExpl: "    image: i\n    network_mode: host\n    ipc: \"service:t\"\n    depends_on:\n      t: {" + c11dep + "}\n"},
		{name: "depends-on-from-pid-next-to-shareable-ipc", svc: "    image: i\n    ipc: shareable\n    pid: \"service:t\"\n", svcExpl: "    image: i\n    ipc: shareable\n    pid: \"service:t\"\n    depends_on:\n      t: {" + c11dep + "}\n"},
		{name: "depends-on-from-network-mode-and-pid", svc: "    image: i\n    network_mode: \"service:t\"\n    pid: \"service:u\"\n", svcExpl: "    image: i\n    network_mode: \"service:t\"\n    pid: \"service:u\"\n    depends_on:\n      t: {" + c11dep + "}\n      u: {" + c11dep + "}\n"},
		{name: "depends-on-from-volumes-from", svc: "    image: i\n    volumes_from: [t]\n", svcExpl: "    image: i\n    volumes_from: [t]\n    depends_on:\n      t: {condition: service_started, restart: false, required: true}\n",
			nonDef: "    image: i\n    volumes_from: [\"t:ro\"]\n    depends_on:\n      t: {condition: service_healthy, restart: true, required: false}\n", nonDefOK: func(p *types.Project, s string) string {
				d := p.Services[s].DependsOn["t"]
				if d.Condition != "service_healthy" || d.Required || !d.Restart {
					return fmt.Sprintf("declared depends_on entry for t was replaced by the one implied by volumes_from: %+v", d)
				}
				return ""
			}},
		{name: "build-context", svc: "    build: {dockerfile: Dockerfile}\n", svcExpl: "    build: {context: ., dockerfile: Dockerfile}\n",
			nonDef: "    build: {context: ./ctx, dockerfile: Dockerfile}\n", nonDefOK: func(p *types.Project, s string) string {
				if !strings.HasSuffix(p.Services[s].Build.Context, "/ctx") {
					return "explicit build context overwritten: " + p.Services[s].Build.Context
				}
				return ""
			}},
		{name: "build-dockerfile", svc: "    build: {context: .}\n", svcExpl: "    build: {context: ., dockerfile: Dockerfile}\n",
			nonDef: "    build: {context: ., dockerfile: Other.df}\n", nonDefOK: func(p *types.Project, s string) string {
				if p.Services[s].Build.Dockerfile != "Other.df" {
					return "explicit dockerfile overwritten: " + p.Services[s].Build.Dockerfile
				}
				return ""
			}},
		{name: "port-protocol", restates: true, refine: "    ports: [\"80\", {target: 90, mode: host, protocol: udp}]\n", svc: "    image: i\n    ports: [{target: 80, mode: ingress}]\n", svcExpl: "    image: i\n    ports: [{target: 80, mode: ingress, protocol: tcp}]\n",
			nonDef: "    image: i\n    ports: [{target: 80, mode: ingress, protocol: udp}]\n", nonDefOK: func(p *types.Project, s string) string {
				if p.Services[s].Ports[0].Protocol != "udp" {
					return "explicit port protocol overwritten"
				}
				return ""
			}},
		{name: "port-mode", restates: true, refine: "    ports: [\"81\"]\n", svc: "    image: i\n    ports: [{target: 81, protocol: tcp}]\n", svcExpl: "    image: i\n    ports: [{target: 81, protocol: tcp, mode: ingress}]\n",
			nonDef: "    image: i\n    ports: [{target: 81, protocol: tcp, mode: host}]\n", nonDefOK: func(p *types.Project, s string) string {
				if p.Services[s].Ports[0].Mode != "host" {
					return "explicit port mode overwritten"
				}
				return ""
			}},
		{name: "secret-target", restates: true, refine: "    secrets: [sec, {source: sec, target: /other}]\n", svc: "    image: i\n    secrets: [{source: sec}]\n", svcExpl: "    image: i\n    secrets: [{source: sec, target: /run/secrets/sec}]\n",
			nonDef: "    image: i\n    secrets: [{source: sec, target: /elsewhere}]\n", nonDefOK: func(p *types.Project, s string) string {
				if p.Services[s].Secrets[0].Target != "/elsewhere" {
					return "explicit secret target overwritten"
				}
				return ""
			}},
		{name: "depends-on-short-list", svc: "    image: i\n    depends_on: [t, u]\n",
			svcExpl: "    image: i\n    depends_on:\n      t: {condition: service_started, required: true}\n      u: {condition: service_started, required: true}\n",
			refine:  "    depends_on:\n      t: {condition: service_healthy}\n"},
		{name: "depends-on-required", refine: "    depends_on:\n      u: {condition: service_healthy}\n", svc: "    image: i\n    depends_on:\n      t: {condition: service_started}\n", svcExpl: "    image: i\n    depends_on:\n      t: {condition: service_started, required: true}\n",
			nonDef: "    image: i\n    depends_on:\n      t: {condition: service_started, required: false}\n", nonDefOK: func(p *types.Project, s string) string {
				if p.Services[s].DependsOn["t"].Required {
					return "explicit required: false overwritten"
				}
				return ""
			}},
		{name: "env-file-required", restates: true, refine: "    env_file: [\"./e.env\", {path: ./f.env, required: false}]\n", svc: "    image: i\n    env_file: [{path: ./e.env}]\n", svcExpl: "    image: i\n    env_file: [{path: ./e.env, required: true}]\n",
			nonDef: "    image: i\n    env_file: [{path: ./missing.env, required: false}]\n", nonDefOK: func(p *types.Project, s string) string {
				for _, e := range p.Services[s].EnvFiles {
					if strings.HasSuffix(e.Path, "missing.env") {
						if e.Required {
							return "explicit env_file required: false overwritten"
						}
						return ""
					}
				}
				return "declared env_file entry lost"
			}},
		{name: "device-count", svc: "    image: i\n    deploy: {resources: {reservations: {devices: [{capabilities: [gpu]}]}}}\n", svcExpl: "    image: i\n    deploy: {resources: {reservations: {devices: [{capabilities: [gpu], count: all}]}}}\n",
			nonDef: "    image: i\n    deploy: {resources: {reservations: {devices: [{capabilities: [gpu], count: 2}]}}}\n", nonDefOK: func(p *types.Project, s string) string {
				if p.Services[s].Deploy.Resources.Reservations.Devices[0].Count != 2 {
					return "explicit device count overwritten"
				}
				return ""
			}},
		{name: "pull-policy-alias", svc: "    image: i\n    pull_policy: if_not_present\n", svcExpl: "    image: i\n    pull_policy: missing\n",
			nonDef: "    image: i\n    pull_policy: always\n", nonDefOK: func(p *types.Project, s string) string {
				if p.Services[s].PullPolicy != "always" {
					return "explicit pull_policy overwritten"
				}
				return ""
			}},
	}
}

// c11doc renders the model with the facts in `implicit` left implicit; nonDef >= 0 selects the non-default variant of one fact.
func c11doc(facts []c11fact, implicit uint32, nonDef int) string {
	tops := map[string][]string{}
	order := []string{"networks", "volumes", "secrets", "configs"}
	var sb strings.Builder
	sb.WriteString("services:\n  t:\n    image: t\n  u:\n    image: u\n")
	for i, f := range facts {
		body := f.svcExpl
		top := f.topExpl
		if implicit&(1<<i) != 0 {
			body, top = f.svc, f.top
		}
		if i == nonDef {
			body = f.nonDef
		}
		fmt.Fprintf(&sb, "  f%02d:\n%s", i, body)
		if top != "" {
			parts := strings.SplitN(top, ":", 3)
			tops[parts[0]] = append(tops[parts[0]], "  "+parts[1]+": "+parts[2]+"\n")
		}
	}
	tops["networks"] = append(tops["networks"], "  other: {name: proj_other}\n")
	for _, k := range order {
		if len(tops[k]) > 0 {
			sb.WriteString(k + ":\n")
			for _, l := range tops[k] {
				sb.WriteString(l)
			}
		}
	}
	return sb.String()
}

// c11tops is the top-level part of a document (everything after the services).
func c11tops(doc string) string {
	for _, k := range []string{"\nnetworks:\n", "\nvolumes:\n", "\nsecrets:\n", "\nconfigs:\n"} {
		if i := strings.Index(doc, k); i >= 0 {
			return doc[i+1:]
		}
	}
	return ""
}

func c11scn(facts []c11fact, doc, origin string) *Scn {
	files := map[string]string{"s": "secret", "e.env": "E=1\n"}
	main := []string{"compose.yaml"}
	refineLayer := func(children bool) string {
		var sb strings.Builder
		sb.WriteString("services:\n")
		if children {
			sb.WriteString("  t:\n    image: t\n  u:\n    image: u\n")
		}
		for i, f := range facts {
			if children {
				fmt.Fprintf(&sb, "  f%02d:\n    extends: {file: ./base.yaml, service: f%02d}\n", i, i)
			} else if f.refine != "" {
				fmt.Fprintf(&sb, "  f%02d:\n", i)
			}
			if origin != "extends" {
				sb.WriteString(f.refine)
			}
		}
		return sb.String()
	}
	switch origin {
	case "main":
		files["compose.yaml"] = doc
	case "override":
		files["compose.yaml"] = "services:\n  t:\n    image: t\n"
		files["over.yaml"] = doc
		main = []string{"compose.yaml", "over.yaml"}
	case "include":
		files["compose.yaml"] = "include:\n  - ./inc.yaml\nservices:\n  extra:\n    image: x\n    network_mode: none\n"
		files["inc.yaml"] = doc
	case "main+declared-name":
		// the file declares a name that is neither normalised nor the effective one (the caller imposes "proj"):
		// implicit resource names are built from the effective project name
		files["compose.yaml"] = "name: \"Declared.Name\"\n" + doc
	case "main+x-names", "main+dotted-names":
		// services and resources carry names of the other shapes users may choose (x- prefix, dots)
		files["compose.yaml"] = c11rename(doc, origin)
	case "main+refine":
		// a later file touches the same attributes, but other entries of them
		files["compose.yaml"] = doc
		files["refine.yaml"] = refineLayer(false)
		main = []string{"compose.yaml", "refine.yaml"}
	case "extends-same-file", "extends-same-file+refine":
		// base and extending service live in one file: the base is merged as written, before any canonical form exists
		tops := c11tops(doc)
		svcs := strings.TrimSuffix(doc, tops)
		var sb strings.Builder
		for i, f := range facts {
			svcs = strings.Replace(svcs, fmt.Sprintf("\n  f%02d:\n", i), fmt.Sprintf("\n  b%02d:\n", i), 1)
			fmt.Fprintf(&sb, "  f%02d:\n    extends: {service: b%02d}\n", i, i)
			if origin == "extends-same-file+refine" {
				sb.WriteString(f.refine)
			}
		}
		files["compose.yaml"] = svcs + sb.String() + tops
	case "extends", "extends+refine":
		// every service arrives from an extended base; with refine the extending service adds the other entries
		files["base.yaml"] = doc
		files["compose.yaml"] = refineLayer(true) + c11tops(doc)
	}
	return &Scn{Files: files, Main: main}
}

func (c11) Run(c *core.Ctx) {
	sch, _ := schemagen.Load(RepoDir() + "/schema/compose-spec.json")
	facts := c11facts()
	n := len(facts)
	all := uint32(1)<<n - 1
	var subsets []uint32
	seen := map[uint32]bool{}
	add := func(m uint32) {
		if !seen[m] {
			seen[m] = true
			subsets = append(subsets, m)
		}
	}
	lim := 3
	var rec func(start int, m uint32, k int)
	rec = func(start int, m uint32, k int) {
		add(m)
		add(all &^ m)
		if k == lim {
			return
		}
		for i := start; i < n; i++ {
			rec(i+1, m|1<<i, k+1)
		}
	}
	rec(0, 0, 0)
	if !c.Quick() {
		for m := uint32(0); m < 1<<14; m++ {
			add(m)
		}
	}
	for _, origin := range []string{"main", "override", "include", "main+declared-name", "main+x-names", "main+dotted-names", "main+refine", "extends", "extends+refine", "extends-same-file", "extends-same-file+refine"} {
		origin := origin
		var ref *types.Project
		getRef := func() (*types.Project, error) {
			if ref != nil {
				return ref, nil
			}
			s := c11scn(facts, c11doc(facts, 0, -1), origin)
			root := s.Materialise()
			p, err := s.LoadAt(root)
			if err == nil {
				// make the reference independent of its scratch directory
				ref = p
			}
			return p, err
		}
		for _, m := range subsets {
			if m == 0 {
				continue
			}
			if origin != "main" && c.Quick() && popcount(m) > 2 && popcount(all&^m) > 2 {
				continue
			}
			m := m
			id := fmt.Sprintf("subset/%s/%05x", origin, m)
			c.Do(id, func() core.Outcome {
				rp, err := getRef()
				if err != nil {
					return core.Outcome{Class: "ref", Viol: &core.Violation{Key: "explicit-model-rejected:" + origin, Msg: "the all-explicit model does not load: " + err.Error()}}
				}
				doc := c11doc(facts, m, -1)
				s := c11scn(facts, doc, origin)
				root := s.Materialise()
				p, err := s.LoadAt(root)
				var names []string
				for i := range facts {
					if m&(1<<i) != 0 {
						names = append(names, facts[i].name)
					}
				}
				sample := map[string]any{"implicit": names, "origin": origin, "doc": doc}
				if err != nil {
					return core.Outcome{Class: "err", Sample: sample, Viol: &core.Violation{Key: "implicit-model-rejected", Msg: fmt.Sprintf("%s: leaving %v implicit makes the load fail: %v", id, names, err)}}
				}
				// compare modulo the scratch directory
				a, b := Canon(rp, filepathDir(rp)), Canon(p, root)
				_ = a
				_ = b
				pa, pb := relocate(rp), relocate(p)
				if d := ProjectDiff(pa, pb); d != "" {
					which := "several"
					if len(names) == 1 {
						which = names[0]
					} else if popcount(all&^m) == 1 {
						for i := range facts {
							if m&(1<<i) == 0 {
								which = "all-but-" + facts[i].name
							}
						}
					}
					return core.Outcome{Class: "diff", Sample: sample, Viol: &core.Violation{Key: "implicit-differs-from-explicit:" + which,
						Msg: fmt.Sprintf("%s: leaving %v implicit gives a different project than spelling the defaults out: %s", id, names, trunc(d, 600))}}
				}
				return core.Outcome{Class: id, Sample: sample}
			})
		}
		// explicit non-default values survive
		for i, f := range facts {
			if f.nonDef == "" || (f.restates && strings.HasSuffix(origin, "+refine")) {
				continue
			}
			i, f := i, f
			id := fmt.Sprintf("nondefault/%s/%s", origin, f.name)
			// the same with one value of the service at a time written through a variable; where the schema admits a string
			// in that position the model must load and keep the explicit value
			for vi, vr := range c11varify(f.nonDef) {
				vi, vr := vi, vr
				c.Do(fmt.Sprintf("%s/through-variable/%d:%s", id, vi, strings.Join(vr.path, ".")), func() core.Outcome {
					facts2 := append([]c11fact{}, facts...)
					facts2[i].nonDef = vr.body
					doc := c11doc(facts2, all, i)
					s := c11scn(facts2, doc, origin)
					s.Env = map[string]string{}
					for k, v := range vr.env {
						s.Env[k] = c11rename(v, origin) // the names inside values follow the naming of the origin
					}
					root := s.Materialise()
					p, err := s.LoadAt(root)
					sample := map[string]any{"fact": f.name, "origin": origin, "doc": doc, "env": vr.env}
					if err != nil {
						if sch != nil && sch.Types(append([]string{"services", "svc"}, vr.path...))["string"] {
							return core.Outcome{Class: "err", Sample: sample, Viol: &core.Violation{Key: "nondefault-rejected:" + f.name + ":through-variable",
								Msg: fmt.Sprintf("%s: writing %s through a variable (the schema admits a string there) makes the load fail: %v", id, strings.Join(vr.path, "."), err)}}
						}
						// a position that does not take the textual spelling: nothing to assert
						return core.Outcome{Class: "strict-position", Trivial: true}
					}
					if msg := f.nonDefOK(p, c11rename(fmt.Sprintf("f%02d", i), origin)); msg != "" {
						return core.Outcome{Class: "ow", Sample: sample, Viol: &core.Violation{Key: "explicit-value-overwritten:" + f.name + ":through-variable", Msg: id + ": " + msg}}
					}
					return core.Outcome{Class: id + "/v", Sample: sample}
				})
			}
			c.Do(id, func() core.Outcome {
				doc := c11doc(facts, all, i)
				s := c11scn(facts, doc, origin)
				root := s.Materialise()
				p, err := s.LoadAt(root)
				sample := map[string]any{"fact": f.name, "origin": origin, "doc": doc}
				if err != nil {
					return core.Outcome{Class: "err", Sample: sample, Viol: &core.Violation{Key: "nondefault-rejected:" + f.name, Msg: id + ": " + err.Error()}}
				}
				if msg := f.nonDefOK(p, c11rename(fmt.Sprintf("f%02d", i), origin)); msg != "" {
					return core.Outcome{Class: "ow", Sample: sample, Viol: &core.Violation{Key: "explicit-value-overwritten:" + f.name, Msg: id + ": " + msg}}
				}
				return core.Outcome{Class: id, Sample: sample}
			})
		}
	}
	// default network present iff used: every assignment of 3 services to the ways of (not) using it
	kinds := []struct {
		body string
		uses bool
	}{
		{"", true}, // neither networks nor network_mode
		{"    networks: [default]\n", true},
		{"    networks:\n      default: {aliases: [al]}\n", true},
		{"    networks: [default, other]\n", true},
		{"    network_mode: host\n", false},
		{"    networks: [other]\n", false},
	}
	for code := 0; code < 6*6*6; code++ {
		code := code
		c.Do(fmt.Sprintf("defaultnet/%03d", code), func() core.Outcome {
			var sb strings.Builder
			sb.WriteString("services:\n")
			used := false
			x := code
			for i := 0; i < 3; i++ {
				k := kinds[x%6]
				x /= 6
				fmt.Fprintf(&sb, "  s%d:\n    image: i\n%s", i, k.body)
				used = used || k.uses
			}
			sb.WriteString("networks:\n  other: {}\n")
			s := &Scn{Files: map[string]string{"compose.yaml": sb.String()}, Main: []string{"compose.yaml"}, InMem: true}
			p, err := s.LoadAt(Scratch())
			if err != nil {
				return core.Outcome{Class: "err", Sample: sb.String(), Viol: &core.Violation{Key: "defaultnet:error", Msg: fmt.Sprintf("a model using the undeclared default network explicitly or implicitly must load: %v\n%s", err, sb.String())}}
			}
			n, has := p.Networks["default"]
			if has != used {
				return core.Outcome{Class: "dn", Sample: sb.String(), Viol: &core.Violation{Key: "default-network-iff-used", Msg: fmt.Sprintf("default network present=%v but used=%v\n%s", has, used, sb.String())}}
			}
			if has && n.Name != "proj_default" {
				return core.Outcome{Class: "dn", Sample: sb.String(), Viol: &core.Violation{Key: "default-network-name", Msg: fmt.Sprintf("implicit default network is named %q\n%s", n.Name, sb.String())}}
			}
			return core.Outcome{Class: fmt.Sprintf("defaultnet/%v/%v", used, has), Sample: sb.String()}
		})
	}
	c11layeredDefaultNet(c)
}

var c11tokRe = regexp.MustCompile(`[A-Za-z0-9]+`)
var c11svcRe = regexp.MustCompile(`^f\d\d$`)
var c11resNames = map[string]bool{"named": true, "vol": true, "sec": true, "cfg": true, "evol": true, "enet": true, "esec": true, "ecfg": true, "evol2": true, "enet2": true}

// c11rename gives the services f00.. and the resources of a document names of another legal shape.
func c11rename(doc, origin string) string {
	if origin != "main+x-names" && origin != "main+dotted-names" {
		return doc
	}
	return c11tokRe.ReplaceAllStringFunc(doc, func(t string) string {
		switch {
		case c11svcRe.MatchString(t) && origin == "main+x-names":
			return "x-" + t
		case c11svcRe.MatchString(t):
			return "f." + t[1:]
		case c11resNames[t] && origin == "main+x-names":
			return "x-" + t
		case c11resNames[t]:
			return t + ".r"
		}
		return t
	})
}

type c11variant struct {
	body string
	env  map[string]string
	path []string
}

// c11varify gives, for every scalar value of a service body, the body with that value written through a variable.
func c11varify(fragment string) []c11variant {
	var m map[string]any
	if err := yaml.Unmarshal([]byte("s:\n"+fragment), &m); err != nil {
		return nil
	}
	svc, ok := m["s"].(map[string]any)
	if !ok {
		return nil
	}
	var out []c11variant
	for _, lf := range c08leaves(svc) {
		lf.set("${ND}")
		b, err := yaml.Marshal(svc)
		lf.set(lf.val)
		if err != nil {
			continue
		}
		body := ""
		for _, l := range strings.Split(strings.TrimRight(string(b), "\n"), "\n") {
			body += "    " + l + "\n"
		}
		out = append(out, c11variant{body, map[string]string{"ND": fmt.Sprint(lf.val)}, lf.path})
	}
	return out
}

// c11layeredDefaultNet: the default network is made explicit on the merged model, not on a layer: one service whose
// `networks` arrive from two layers (left out, declared empty, [default], [other]; second layer also network_mode: host),
// next to a service that only uses `other`.
func c11layeredDefaultNet(c *core.Ctx) {
	first := []struct {
		body string
		nets []string
	}{{"", nil}, {"    networks: []\n", nil}, {"    networks: [default]\n", []string{"default"}}, {"    networks: [other]\n", []string{"other"}}}
	second := []struct {
		body string
		nets []string
		host bool
	}{{"", nil, false}, {"    networks: [other]\n", []string{"other"}, false}, {"    networks: [default]\n", []string{"default"}, false}, {"    network_mode: host\n", nil, true}}
	for fi, f := range first {
		for si, sd := range second {
			for _, delivery := range []string{"override", "document", "extends"} {
				f, sd, delivery := f, sd, delivery
				id := fmt.Sprintf("defaultnet-layered/%d/%d/%s", fi, si, delivery)
				c.Do(id, func() core.Outcome {
					rest := "  fixed:\n    image: i\n    networks: [other]\nnetworks:\n  other: {}\n"
					files := map[string]string{}
					main := []string{"compose.yaml"}
					switch delivery {
					case "override":
						files["compose.yaml"] = "services:\n  s:\n    image: i\n" + f.body + rest
						files["over.yaml"] = "services:\n  s:\n    image: i\n" + sd.body
						main = append(main, "over.yaml")
					case "document":
						files["compose.yaml"] = "services:\n  s:\n    image: i\n" + f.body + rest + "---\nservices:\n  s:\n    image: i\n" + sd.body
					case "extends":
						files["compose.yaml"] = "services:\n  s:\n    extends: {file: ./base.yaml, service: b}\n" + sd.body + rest
						files["base.yaml"] = "services:\n  b:\n    image: i\n" + f.body
					}
					s := &Scn{Files: files, Main: main}
					root := s.Materialise()
					p, err := s.LoadAt(root)
					sample := map[string]any{"case": id, "files": files}
					if sd.host && len(f.nets) > 0 {
						// network_mode next to networks: an error is expected, nothing else asserted
						return core.Outcome{Class: "exclusive", Trivial: true}
					}
					if err != nil {
						return core.Outcome{Class: "err", Sample: sample, Viol: &core.Violation{Key: "defaultnet-layered:error", Msg: fmt.Sprintf("%s: %v", id, err)}}
					}
					want := map[string]bool{}
					for _, n := range append(append([]string{}, f.nets...), sd.nets...) {
						want[n] = true
					}
					if len(want) == 0 && !sd.host {
						want["default"] = true
					}
					got := map[string]bool{}
					for n := range p.Services["s"].Networks {
						got[n] = true
					}
					if fmt.Sprint(sortedKeys(got)) != fmt.Sprint(sortedKeys(want)) {
						return core.Outcome{Class: "att", Sample: sample, Viol: &core.Violation{Key: "defaultnet-layered:attachments", Msg: fmt.Sprintf("%s: service s is attached to %v, expected %v", id, sortedKeys(got), sortedKeys(want))}}
					}
					if _, has := p.Networks["default"]; has != want["default"] {
						return core.Outcome{Class: "dn", Sample: sample, Viol: &core.Violation{Key: "defaultnet-layered:iff-used", Msg: fmt.Sprintf("%s: default network present=%v, used=%v", id, has, want["default"])}}
					}
					return core.Outcome{Class: id, Sample: sample}
				})
			}
		}
	}
}

func popcount(x uint32) int {
	n := 0
	for ; x != 0; x &= x - 1 {
		n++
	}
	return n
}

func filepathDir(p *types.Project) string { return p.WorkingDir }

// relocate returns a copy of p in which the working directory prefix is replaced by a placeholder,
// so that projects loaded from different scratch directories compare equal.
func relocate(p *types.Project) *types.Project {
	wd := p.WorkingDir
	n := snapshotOf(p)
	replaceStrings(n, wd, "<WD>")
	return n
}
