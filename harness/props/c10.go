package props

import (
	"fmt"
	"os"
	"strings"

	"github.com/compose-spec/compose-go/v2/types"

	"verifh/core"
)

func init() { core.Register(c10{}) }

type c10 struct{}

func (c10) ID() string    { return "C10" }
func (c10) Level() string { return "exploration" }
func (c10) Rule() string {
	return "valid family (a 3-service model with one of each resource, the corpus documents, and the positive boundary of every agreement rule) must load and satisfy an independent invariant checker; for each consistency rule every minimal edit violating exactly that rule (dangling reference of each kind incl. build secrets and service: namespaces of network_mode/ipc/pid - alone and next to a plain or valid value of another namespace attribute -, links, volumes_from; each exclusive pair; external volume with each creation parameter; secret/config with none, each pair and all of their sources; each disagreeing pair; container_name with scale/replicas > 1) delivered through {main file, override file, extended base, included file}; every labelled digraph with a cycle on <=3 services (4: every 7th quick, all thorough) as depends_on. Invalid -> error and no project. distinct = distinct (rule, route) outcomes and digraphs"
}
func (c10) Assumptions() []string {
	return []string{"the independent checker props.c10consistent encodes the rules of the statement over the typed project"}
}

const c10base = `
services:
  a:
    image: a
    networks: [net]
    volumes: ["vol:/v"]
    secrets: [sec]
    configs: [cfg]
    depends_on: [b]
  b:
    image: b
    build:
      context: .
      secrets: [bsec]
  c:
    image: c
    network_mode: "service:b"
networks:
  net: {}
volumes:
  vol: {}
secrets:
  sec: {file: ./s}
  bsec: {environment: BSEC}
configs:
  cfg: {content: hello}
`

type c10rule struct {
	name string
	// frag is YAML merged on top of the base (as a later document); kind tells where it can be delivered
	frag    string
	svcOnly bool // the fragment only touches service `a` attributes (can be delivered through an extended base)
	valid   bool // positive boundary: must load
}

func c10rules() []c10rule {
	svc := func(name, body string) c10rule {
		return c10rule{name: name, frag: "services:\n  a:\n" + body, svcOnly: true}
	}
	ok := func(name, body string) c10rule {
		r := svc(name, body)
		r.valid = true
		return r
	}
	rules := []c10rule{
		{name: "no-image-no-build", frag: "services:\n  x:\n    command: run\n"},
		svc("undeclared-network", "    networks: [nope]\n"),
		svc("undeclared-volume", "    volumes: [\"nope:/x\"]\n"),
		svc("undeclared-secret", "    secrets: [nope]\n"),
		svc("undeclared-config", "    configs: [nope]\n"),
		svc("undeclared-build-secret", "    build:\n      context: .\n      secrets: [nope]\n"),
		svc("depends-on-unknown", "    depends_on: [nope]\n"),
		svc("depends-on-unknown-long", "    depends_on:\n      nope: {condition: service_started}\n"),
		// a required dependency on a service that profiles disable (short list: every entry is required)
		svc("required-dependency-on-disabled-short", "    depends_on: [b, opt]\n"),
		svc("required-dependency-on-disabled-long", "    depends_on:\n      opt: {condition: service_started}\n"),
		// the same on a service that had no depends_on before (the list is then canonicalised as written), with a
		// later document refining the sibling entry: the required dependency on the disabled service stays required
		{name: "required-dependency-on-disabled-short-then-sibling-refined", frag: "services:\n  d:\n    image: d\n    depends_on: [b, opt]\n---\nservices:\n  d:\n    depends_on:\n      b: {condition: service_healthy, required: false}\n"},
		{name: "required-dependency-on-disabled-short-new-service", frag: "services:\n  d:\n    image: d\n    depends_on: [b, opt]\n"},
		// optional, but unknown (not merely disabled): still dangling; one name sorting before, one after the disabled service
		svc("depends-on-unknown-optional-first", "    depends_on:\n      aaa-nope: {condition: service_started, required: false}\n"),
		svc("depends-on-unknown-optional-last", "    depends_on:\n      zzz-nope: {condition: service_started, required: false}\n"),
		svc("network-mode-unknown-service", "    networks: !reset null\n    network_mode: \"service:nope\"\n"),
		svc("ipc-unknown-service", "    ipc: \"service:nope\"\n"),
		svc("pid-unknown-service", "    pid: \"service:nope\"\n"),
		// the same next to a plain value of another namespace attribute
		svc("pid-unknown-service-next-to-host-network", "    networks: !reset null\n    network_mode: host\n    pid: \"service:nope\"\n"),
		svc("ipc-unknown-service-next-to-host-network", "    networks: !reset null\n    network_mode: host\n    ipc: \"service:nope\"\n"),
		svc("pid-unknown-service-next-to-shareable-ipc", "    ipc: shareable\n    pid: \"service:nope\"\n"),
		svc("pid-unknown-service-next-to-known-ipc-service", "    ipc: \"service:b\"\n    pid: \"service:nope\"\n"),
		svc("links-unknown", "    links: [nope]\n"),
		svc("volumes-from-unknown", "    volumes_from: [nope]\n"),
		svc("exclusive-network-mode-networks", "    network_mode: host\n"),
		svc("exclusive-network-mode-none-networks", "    network_mode: none\n"),
		svc("exclusive-network-mode-bridge-networks", "    network_mode: bridge\n"),
		svc("exclusive-network-mode-service-networks", "    network_mode: \"service:b\"\n"),
		svc("exclusive-network-mode-container-networks", "    network_mode: \"container:abc\"\n"),
		svc("exclusive-dockerfile-inline", "    build:\n      context: .\n      dockerfile: Dockerfile\n      dockerfile_inline: \"FROM x\"\n"),
		svc("exclusive-count-device-ids-gpus", "    gpus:\n      - {driver: nvidia, count: 1, device_ids: [\"0\"]}\n"),
		svc("exclusive-count-device-ids-deploy", "    deploy:\n      resources:\n        reservations:\n          devices:\n            - {capabilities: [gpu], count: 1, device_ids: [\"0\"]}\n"),
		{name: "external-volume-driver", frag: "volumes:\n  vol:\n    external: true\n    driver: local\n"},
		{name: "external-volume-driver-opts", frag: "volumes:\n  vol:\n    external: true\n    driver_opts: {o: \"1\"}\n"},
		{name: "external-volume-labels", frag: "volumes:\n  vol:\n    external: true\n    labels: {l: \"1\"}\n"},
		{name: "secret-no-source", frag: "secrets:\n  extra: {labels: {l: \"1\"}}\n"},
		{name: "secret-two-sources", frag: "secrets:\n  extra: {file: ./s, environment: BSEC}\n"},
		// several sources stay an error whatever else the resource says
		{name: "secret-two-sources-driver", frag: "secrets:\n  extra: {file: ./s, environment: BSEC, driver: d}\n"},
		{name: "secret-two-sources-external-true", frag: "secrets:\n  extra: {file: ./s, environment: BSEC, external: true}\n"},
		{name: "secret-two-sources-external-false", frag: "secrets:\n  extra: {file: ./s, environment: BSEC, external: false}\n"},
		{name: "secret-two-sources-labels", frag: "secrets:\n  extra: {file: ./s, environment: BSEC, labels: {l: \"1\"}}\n"},
		{name: "config-two-sources-external-true", frag: "configs:\n  extra: {file: ./s, content: x, external: true}\n"},
		{name: "config-two-sources-external-false", frag: "configs:\n  extra: {file: ./s, content: x, external: false}\n"},
		{name: "config-two-sources-labels", frag: "configs:\n  extra: {file: ./s, content: x, labels: {l: \"1\"}}\n"},
		{name: "config-no-source", frag: "configs:\n  extra: {labels: {l: \"1\"}}\n"},
		{name: "config-file-environment", frag: "configs:\n  extra: {file: ./s, environment: BSEC}\n"},
		{name: "config-file-content", frag: "configs:\n  extra: {file: ./s, content: x}\n"},
		{name: "config-environment-content", frag: "configs:\n  extra: {environment: BSEC, content: x}\n"},
		{name: "config-all-sources", frag: "configs:\n  extra: {file: ./s, environment: BSEC, content: x}\n"},
		svc("disagree-scale-replicas", "    scale: 2\n    deploy: {replicas: 3}\n"),
		svc("disagree-cpus", "    cpus: 0.5\n    deploy: {resources: {limits: {cpus: \"0.25\"}}}\n"),
		svc("disagree-mem-limit", "    mem_limit: 100m\n    deploy: {resources: {limits: {memory: 50m}}}\n"),
		svc("disagree-mem-reservation", "    mem_reservation: 100m\n    deploy: {resources: {reservations: {memory: 50m}}}\n"),
		svc("disagree-pids", "    pids_limit: 10\n    deploy: {resources: {limits: {pids: 20}}}\n"),
		svc("container-name-scale", "    container_name: fixed\n    scale: 2\n"),
		svc("container-name-replicas", "    container_name: fixed\n    deploy: {replicas: 2}\n"),
		// positive boundaries
		ok("agree-scale-replicas", "    scale: 2\n    deploy: {replicas: 2}\n"),
		ok("agree-cpus", "    cpus: 0.5\n    deploy: {resources: {limits: {cpus: \"0.5\"}}}\n"),
		ok("agree-mem-limit", "    mem_limit: 100m\n    deploy: {resources: {limits: {memory: 100m}}}\n"),
		ok("agree-mem-reservation", "    mem_reservation: 100m\n    deploy: {resources: {reservations: {memory: 100m}}}\n"),
		ok("agree-pids", "    pids_limit: 10\n    deploy: {resources: {limits: {pids: 10}}}\n"),
		ok("container-name-scale-1", "    container_name: fixed\n    scale: 1\n"),
		ok("optional-dependency-on-existing", "    depends_on:\n      b: {condition: service_healthy, required: false}\n"),
		ok("optional-dependency-on-disabled", "    depends_on:\n      b: {condition: service_started}\n      opt: {condition: service_started, required: false}\n"),
	}
	// every violation next to every consistent boundary case (two later documents): a benign sibling - an optional
	// dependency on a disabled service, an agreeing pair - must not hide the violation that sits beside it
	var combos []c10rule
	for _, v := range rules {
		if v.valid {
			continue
		}
		for _, o := range rules {
			if !o.valid {
				continue
			}
			if strings.Contains(v.frag, " opt") && strings.Contains(o.frag, " opt") {
				continue // both speak about the same dependency entry: together they are a different model, possibly a valid one
			}
			combos = append(combos, c10rule{name: v.name + "+" + o.name, frag: o.frag + "---\n" + v.frag})
			if strings.Contains(v.frag, "depends_on") && o.name == "optional-dependency-on-existing" {
				// and the benign part as the later document (it refines the dependency list the violation wrote)
				combos = append(combos, c10rule{name: v.name + "+later:" + o.name, frag: v.frag + "---\n" + o.frag})
			}
		}
	}
	return append(rules, combos...)
}

// c10consistent is the independent invariant checker over a loaded project.
func c10consistent(p *types.Project) string {
	svcRef := func(v string) string {
		if strings.HasPrefix(v, "service:") {
			return strings.TrimPrefix(v, "service:")
		}
		return ""
	}
	for name, s := range p.Services {
		if s.Image == "" && s.Build == nil {
			return "service " + name + " has neither image nor build"
		}
		if s.NetworkMode != "" && len(s.Networks) > 0 {
			return "service " + name + " combines network_mode and networks"
		}
		for n := range s.Networks {
			if _, ok := p.Networks[n]; !ok {
				return "service " + name + " uses undeclared network " + n
			}
		}
		for _, v := range s.Volumes {
			if v.Type == "volume" && v.Source != "" {
				if _, ok := p.Volumes[v.Source]; !ok {
					return "service " + name + " uses undeclared volume " + v.Source
				}
			}
		}
		for _, x := range s.Secrets {
			if _, ok := p.Secrets[x.Source]; !ok {
				return "service " + name + " uses undeclared secret " + x.Source
			}
		}
		for _, x := range s.Configs {
			if _, ok := p.Configs[x.Source]; !ok {
				return "service " + name + " uses undeclared config " + x.Source
			}
		}
		if s.Build != nil {
			for _, x := range s.Build.Secrets {
				if _, ok := p.Secrets[x.Source]; !ok {
					return "service " + name + " uses undeclared build secret " + x.Source
				}
			}
			if s.Build.Dockerfile != "" && s.Build.DockerfileInline != "" {
				return "service " + name + " combines dockerfile and dockerfile_inline"
			}
		}
		for d, dep := range s.DependsOn {
			if _, ok := p.Services[d]; ok {
				continue
			}
			if _, dis := p.DisabledServices[d]; dis && !dep.Required {
				continue
			}
			return "service " + name + " depends on missing service " + d
		}
		for _, ns := range []string{s.NetworkMode, s.Ipc, s.Pid} {
			if r := svcRef(ns); r != "" {
				if _, ok := p.Services[r]; !ok {
					return "service " + name + " references missing service " + r + " in a service: namespace"
				}
			}
		}
		if s.Scale != nil && s.Deploy != nil && s.Deploy.Replicas != nil && *s.Scale != *s.Deploy.Replicas {
			return "service " + name + " scale and deploy.replicas disagree"
		}
		if s.Deploy != nil && s.Deploy.Resources.Limits != nil {
			l := s.Deploy.Resources.Limits
			if s.CPUS != 0 && l.NanoCPUs.Value() != 0 && l.NanoCPUs.Value() != s.CPUS {
				return "service " + name + " cpus disagree"
			}
			if s.MemLimit != 0 && l.MemoryBytes != 0 && l.MemoryBytes != s.MemLimit {
				return "service " + name + " memory limits disagree"
			}
			if s.PidsLimit != 0 && l.Pids != 0 && l.Pids != s.PidsLimit {
				return "service " + name + " pids limits disagree"
			}
		}
		if s.Deploy != nil && s.Deploy.Resources.Reservations != nil && s.MemReservation != 0 {
			if r := s.Deploy.Resources.Reservations.MemoryBytes; r != 0 && r != s.MemReservation {
				return "service " + name + " memory reservations disagree"
			}
		}
		if s.ContainerName != "" && s.GetScale() > 1 {
			return "service " + name + " has container_name and scale > 1"
		}
	}
	for name, v := range p.Volumes {
		if v.External && (v.Driver != "" || len(v.DriverOpts) > 0 || len(v.Labels) > 0) {
			return "external volume " + name + " has creation parameters"
		}
	}
	for name, s := range p.Secrets {
		n := 0
		if s.File != "" {
			n++
		}
		if s.Environment != "" {
			n++
		}
		if !bool(s.External) && s.Driver == "" && n != 1 {
			return fmt.Sprintf("secret %s has %d sources", name, n)
		}
	}
	// acyclic over enabled services
	state := map[string]int{}
	var dfs func(string) bool
	dfs = func(u string) bool {
		state[u] = 1
		for d := range p.Services[u].DependsOn {
			if _, ok := p.Services[d]; !ok {
				continue
			}
			if state[d] == 1 || (state[d] == 0 && dfs(d)) {
				return true
			}
		}
		state[u] = 2
		return false
	}
	for n := range p.Services {
		if state[n] == 0 && dfs(n) {
			return "dependency cycle through " + n
		}
	}
	return ""
}

func (c10) Run(c *core.Ctx) {
	baseFiles := func() map[string]string { return map[string]string{"s": "secret", "compose.yaml": c10base} }
	env := map[string]string{"BSEC": "bsecval"}
	// valid family
	valid := map[string]*Scn{"base": {Files: baseFiles(), Main: []string{"compose.yaml"}, Env: env}}
	for k, v := range CorpusScns() {
		if !strings.HasPrefix(k, "bad-") && k != "missing-file" {
			valid["corpus-"+k] = v
		}
	}
	for _, k := range sortedKeys(valid) {
		k := k
		c.Do("valid/"+k, func() core.Outcome {
			s := valid[k]
			root := s.Materialise()
			p, err := s.LoadAt(root)
			if err != nil {
				return core.Outcome{Class: "x", Viol: &core.Violation{Key: "valid-rejected:" + k, Msg: "valid model " + k + " is rejected: " + err.Error()}}
			}
			if m := c10consistent(p); m != "" {
				return core.Outcome{Class: "x", Viol: &core.Violation{Key: "accepted-inconsistent:" + k, Msg: "valid/" + k + ": accepted project is inconsistent: " + m}}
			}
			return core.Outcome{Class: "valid/" + k, Sample: map[string]any{"model": k}}
		})
	}
	// rules x delivery routes
	for _, r := range c10rules() {
		routes := []string{"main", "override", "include"}
		if r.svcOnly {
			routes = append(routes, "extends")
		}
		if !r.valid || true {
			routes = append(routes, "main-dotted-names")
		}
		for _, route := range routes {
			r, route := r, route
			id := "rule/" + r.name + "/" + route
			c.Do(id, func() core.Outcome {
				files := baseFiles()
				main := []string{"compose.yaml"}
				optSvc := "services:\n  opt: {image: o, profiles: [off]}\n"
				switch route {
				case "main-dotted-names":
					// legal names containing dots (escaped inside tree paths) for the service and the resources under test
					ren := strings.NewReplacer("\n  a:\n", "\n  a.v2:\n", "\n  extra:", "\n  extra.v1:", "\n  vol:", "\n  vol.v1:", "\"vol:/v\"", "\"vol.v1:/v\"", "\n  x:\n", "\n  x.y:\n")
					files["compose.yaml"] = ren.Replace(c10base + "---\n" + r.frag + "---\n" + optSvc)
				case "main":
					files["compose.yaml"] = c10base + "---\n" + r.frag + "---\n" + optSvc
				case "override":
					files["over.yaml"] = r.frag
					files["opt.yaml"] = optSvc
					main = []string{"compose.yaml", "over.yaml", "opt.yaml"}
				case "include":
					// the whole model lives in the included file; the main file only includes it
					files["inc/compose.yaml"] = c10base + "---\n" + r.frag + "---\n" + optSvc
					files["inc/s"] = "secret"
					files["compose.yaml"] = "include:\n  - ./inc/compose.yaml\nservices:\n  main: {image: m}\n"
				case "extends":
					body := strings.TrimPrefix(r.frag, "services:\n  a:\n")
					files["basefile.yaml"] = "services:\n  tmpl:\n" + body
					files["compose.yaml"] = strings.Replace(c10base, "  a:\n    image: a\n", "  a:\n    image: a\n    extends: {file: ./basefile.yaml, service: tmpl}\n", 1) + "---\n" + optSvc
				}
				s := &Scn{Files: files, Main: main, Env: env}
				root := s.Materialise()
				p, err := s.LoadAt(root)
				sample := map[string]any{"rule": r.name, "route": route, "files": files}
				if pe, ok := err.(*core.PanicError); ok {
					return core.Outcome{Class: "panic", Sample: sample, Viol: &core.Violation{Key: "panic@" + pe.Site, Msg: id + ": " + pe.Error(), Detail: pe.Stack}}
				}
				if r.valid {
					if err != nil {
						return core.Outcome{Class: "rej", Sample: sample, Viol: &core.Violation{Key: "valid-rejected:" + r.name, Msg: id + ": a consistent model is rejected: " + err.Error()}}
					}
					if m := c10consistent(p); m != "" {
						return core.Outcome{Class: "inc", Sample: sample, Viol: &core.Violation{Key: "accepted-inconsistent:" + r.name, Msg: id + ": accepted project is inconsistent: " + m}}
					}
					return core.Outcome{Class: id, Sample: sample}
				}
				if err == nil {
					why := ""
					if p != nil {
						why = c10consistent(p)
					}
					return core.Outcome{Class: "acc", Sample: sample, Viol: &core.Violation{Key: "inconsistent-accepted:" + r.name + ":" + route,
						Msg: fmt.Sprintf("%s: a model violating rule %s loads without error (checker: %q)", id, r.name, why)}}
				}
				if os.Getenv("C10_DEBUG") != "" {
					fmt.Fprintf(os.Stderr, "C10DBG %-45s %s\n", id, trunc(err.Error(), 150))
				}
				if p != nil {
					return core.Outcome{Class: "both", Sample: sample, Viol: &core.Violation{Key: "error-with-project", Msg: id + ": both a project and an error are returned"}}
				}
				return core.Outcome{Class: id, Sample: sample}
			})
		}
	}
	dependsOnDigraphs(c, "")
}

// dependsOnDigraphs loads every labelled depends_on digraph on <=3 services (4: every 7th in the quick tier):
// accepted iff acyclic.
func dependsOnDigraphs(c *core.Ctx, idPrefix string) {
	names := []string{"app", "db", "cache", "web"}
	for n := 1; n <= 4; n++ {
		var pairs [][2]int
		for i := 0; i < n; i++ {
			for j := 0; j < n; j++ {
				pairs = append(pairs, [2]int{i, j})
			}
		}
		for mask := 1; mask < 1<<len(pairs); mask++ {
			if n == 4 && c.Quick() && mask%7 != 0 {
				continue
			}
			if mask&1023 == 0 && c.Expired() {
				return
			}
			n, mask := n, mask
			c.Do(fmt.Sprintf("%scycle/n%d/%d", idPrefix, n, mask), func() core.Outcome {
				adj := make([][]int, n)
				for b, pr := range pairs {
					if mask&(1<<b) != 0 {
						adj[pr[0]] = append(adj[pr[0]], pr[1])
					}
				}
				cyc := digraphHasCycle(n, adj)
				var sb strings.Builder
				sb.WriteString("services:\n")
				for i := 0; i < n; i++ {
					fmt.Fprintf(&sb, "  %s:\n    image: i\n", names[i])
					if len(adj[i]) > 0 {
						sb.WriteString("    depends_on:\n")
						for _, j := range adj[i] {
							fmt.Fprintf(&sb, "      - %s\n", names[j])
						}
					}
				}
				s := &Scn{Files: map[string]string{"compose.yaml": sb.String()}, Main: []string{"compose.yaml"}, InMem: true}
				p, err := s.LoadAt(Scratch())
				if pe, ok := err.(*core.PanicError); ok {
					return core.Outcome{Class: "panic", Viol: &core.Violation{Key: "panic@" + pe.Site, Msg: pe.Error(), Detail: pe.Stack}, Sample: sb.String()}
				}
				if cyc && err == nil {
					return core.Outcome{Class: "acc", Sample: sb.String(), Viol: &core.Violation{Key: "cycle-accepted",
						Msg: fmt.Sprintf("depends_on graph %v on %v contains a cycle but the model loads", adj, names[:n]), Detail: sb.String()}}
				}
				if !cyc && err != nil {
					return core.Outcome{Class: "rej", Sample: sb.String(), Viol: &core.Violation{Key: "acyclic-rejected",
						Msg: fmt.Sprintf("acyclic depends_on graph %v is rejected: %v", adj, err)}}
				}
				if err == nil {
					if m := c10consistent(p); m != "" {
						return core.Outcome{Class: "inc", Viol: &core.Violation{Key: "accepted-inconsistent:graph", Msg: m}}
					}
				}
				return core.Outcome{Class: fmt.Sprintf("n%d/%d/%v", n, mask, cyc), Sample: sb.String()}
			})
		}
	}
}

func digraphHasCycle(n int, adj [][]int) bool {
	state := make([]int, n)
	var dfs func(int) bool
	dfs = func(u int) bool {
		state[u] = 1
		for _, v := range adj[u] {
			if state[v] == 1 || (state[v] == 0 && dfs(v)) {
				return true
			}
		}
		state[u] = 2
		return false
	}
	for i := 0; i < n; i++ {
		if state[i] == 0 && dfs(i) {
			return true
		}
	}
	return false
}
