package props

import (
	"fmt"
	"gopkg.in/yaml.v3"
	"io"
	"os"
	"os/exec"
	"path/filepath"
	"runtime"
	"sort"
	"strings"

	"github.com/compose-spec/compose-go/v2/loader"

	"verifh/core"
	"verifh/mapctl"
)

func init() { core.Register(c02{}) }

type c02 struct{}

func (c02) ID() string    { return "C02" }
func (c02) Level() string { return "model_checking" }
func (c02) Rule() string {
	return "for each corpus input, with Go's map hash seeds pinned by a runtime overlay: the canonical execution (every map iteration starts at slot 0), every execution in which all iterations start at the same other position (8 quick / 64 thorough), every execution that deviates at exactly ONE dynamic map-iteration point (each alternative start), every execution that deviates at every instance of ONE iteration site (caller pc) with every bucket/offset start; all permutations of service/network/volume declaration order and of one service's attributes in the YAML text; every history of <=2 earlier loads (each in a fresh subprocess) before each target, the inputs including near-copies of four valid inputs that fail half-way through a keyed list. Outcome class, canonical project and YAML/JSON bytes must be identical. state = one executed choice vector; transition = one map-iteration start decision; distinct = distinct (input, deviation) pairs that reached a load"
}
func (c02) Assumptions() []string {
	return []string{
		"only iteration orders the go1.23 runtime can produce are explored (cyclic rotations of bucket/slot order), with <=1 dynamic or <=1 site deviation from the canonical order",
		"error messages may differ between executions; the outcome class (success / error / panic site) may not",
		"runtime overlay engine/mapctl controls hash0, boot hash keys and mapiterinit start (go1.23.5 only)",
	}
}

type c02sig struct {
	class string
	canon string
	yaml  string
	json  string
}

func (s c02sig) digest() string { return Digest(s.class, s.canon, s.yaml, s.json) }

func c02run(s *Scn, root string, uniform uintptr, mode int, at, r uintptr) (c02sig, int) {
	mapctl.SetUniform(uniform)
	mapctl.Begin(mode, at, r)
	p, err := s.LoadAt(root)
	var sig c02sig
	sig.class = ErrClass(err)
	if err == nil {
		y, j, rerr := Render(p)
		if rerr != nil {
			sig.class = "render-" + ErrClass(rerr)
		}
		sig.yaml, sig.json = y, j
		sig.canon = Canon(p, "")
	}
	n := mapctl.End()
	mapctl.SetUniform(0)
	return sig, n
}

func pcName(pc uintptr) string {
	f := runtime.FuncForPC(pc - 1)
	if f == nil {
		return fmt.Sprintf("pc%x", pc)
	}
	n := f.Name()
	n = strings.TrimPrefix(n, "github.com/compose-spec/compose-go/v2/")
	return n
}

func c02diff(a, b c02sig) string {
	if a.class != b.class {
		return fmt.Sprintf("outcome class %q vs %q", a.class, b.class)
	}
	if a.yaml != b.yaml {
		return "YAML differs: " + firstDiff(a.yaml, b.yaml)
	}
	if a.json != b.json {
		return "JSON differs: " + firstDiff(a.json, b.json)
	}
	if a.canon != b.canon {
		return "project differs: " + firstDiff(a.canon, b.canon)
	}
	return ""
}

func c02inputs(quick bool) map[string]*Scn {
	all := CorpusScns()
	all["override-debug"].Opts = []func(*loader.Options){loader.WithProfiles([]string{"debug"})}
	all["profiles-p1"] = &Scn{Files: all["profiles"].Files, Main: all["profiles"].Main, Opts: []func(*loader.Options){loader.WithProfiles([]string{"p1"})}}
	for k, v := range c02extraInputs() {
		all[k] = v
	}
	// near-copies of valid inputs that fail late: every ports / volumes list of every service gets one more valid entry in
	// front and a broken one (no target) at the end, so the load gives up half-way through a list whose entries the
	// valid input has too, at other positions. A load that failed must leave nothing behind for the next one.
	for _, n := range []string{"rich", "rich2", "restated", "wide"} {
		base := all[n]
		if base == nil || len(base.Main) != 1 {
			continue
		}
		doc := yamlToMap(base.Files[base.Main[0]])
		svcs, _ := doc["services"].(map[string]any)
		touched := false
		for _, sv := range svcs {
			m, ok := sv.(map[string]any)
			if !ok {
				continue
			}
			if l, ok := m["volumes"].([]any); ok && len(l) > 0 {
				m["volumes"] = append(append([]any{"./nearfail:/nearfail"}, l...), map[string]any{"type": "volume", "source": "nearfail"})
				touched = true
			}
			if l, ok := m["ports"].([]any); ok && len(l) > 0 {
				m["ports"] = append(append([]any{"1:1"}, l...), map[string]any{"published": "2"})
				touched = true
			}
		}
		if !touched {
			continue
		}
		files := map[string]string{}
		for f, v := range base.Files {
			files[f] = v
		}
		files[base.Main[0]] = mapToYAML(doc)
		all["near-fail-"+n] = &Scn{Files: files, Main: base.Main, Env: base.Env}
	}
	return all
}

func (c02) Run(c *core.Ctx) {
	if !mapctl.Present() {
		c.Note("runtime overlay missing: C02 cannot steer map order in this build")
		return
	}
	inputs := c02inputs(c.Quick())
	names := sortedKeys(inputs)
	base := filepath.Join(Scratch(), "c02")
	var transitions int64
	for _, name := range names {
		if c.Expired() {
			break
		}
		s := inputs[name]
		root := filepath.Join(base, name)
		s.MaterialiseAt(root)
		// warm-up, then canonical twice: the replay check of G2
		c02run(s, root, 0, 0, 0, 0)
		s0, n0 := c02run(s, root, 0, 0, 0, 0)
		s1, n1 := c02run(s, root, 0, 0, 0, 0)
		if n0 != n1 || s0.digest() != s1.digest() {
			c.Note(fmt.Sprintf("input %s: canonical execution does not replay identically (%d vs %d points): nondeterminism not owned, input skipped", name, n0, n1))
			continue
		}
		if n0 > mapctl.LogCap {
			c.Note(fmt.Sprintf("input %s: %d iteration points exceed the log capacity; dyn(1) limited to the first %d", name, n0, mapctl.LogCap))
			n0 = mapctl.LogCap
		}
		// snapshot the canonical log
		pts := make([]mapctl.Point, n0)
		mapctl.SetUniform(0)
		mapctl.Begin(0, 0, 0)
		s.LoadAt(root)
		nchk := mapctl.End()
		_ = nchk
		// (re-run with render to get the same point sequence as c02run)
		mapctl.Begin(0, 0, 0)
		if p, err := s.LoadAt(root); err == nil {
			Render(p)
			Canon(p, "")
		}
		nn := mapctl.End()
		if nn != n0 && nn <= mapctl.LogCap {
			c.Note(fmt.Sprintf("input %s: point count changed between runs (%d vs %d), input skipped", name, n0, nn))
			continue
		}
		for i := 0; i < n0; i++ {
			pts[i] = mapctl.Log(i)
		}
		name := name
		check := func(id, what, key string, uniform uintptr, mode int, at, r uintptr) {
			c.Do(id, func() core.Outcome {
				sg, n := c02run(s, root, uniform, mode, at, r)
				transitions += int64(n)
				c.Count("transitions", int64(n))
				c.Count("states", 1)
				c.Count("traces_validated_against_impl", 1)
				if d := c02diff(s0, sg); d != "" {
					return core.Outcome{Class: id, Viol: &core.Violation{Key: key,
						Msg:    fmt.Sprintf("input %q: %s changes the result: %s", name, what, d),
						Detail: map[string]any{"input": name, "deviation": what}},
						Sample: map[string]any{"input": name, "files": s.Files, "main": s.Main, "deviation": what}}
				}
				return core.Outcome{Class: id, Sample: map[string]any{"input": name, "deviation": what, "iteration_points": n}}
			})
		}
		// (1) uniform rotations
		nu := uintptr(8)
		if !c.Quick() {
			nu = 64
		}
		for k := uintptr(1); k < nu; k++ {
			check(fmt.Sprintf("uni/%s/%d", name, k), fmt.Sprintf("starting every map iteration at position %d", k),
				"order-dependent:uniform:"+name, k, 0, 0, 0)
		}
		// (2) dyn(1): one dynamic point deviates.
		// thorough: every point x every alternative start. quick: every point x the half-rotation,
		// plus every alternative for the first 3 instances of each (site, size) class.
		seenClass := map[[2]uintptr]int{}
		for i := 0; i < n0; i++ {
			if c.Quick() && name == "override-debug" {
				// quick: the same files as "override" under one more profile; its single-point deviations are left to thorough
				break
			}
			if i&63 == 0 && c.Expired() {
				break
			}
			p := pts[i]
			site := pcName(p.PC)
			var alts []uintptr
			for off := uintptr(1); off < 8; off++ {
				if p.B == 0 && p.Count < 8 && int(off) >= p.Count && off != 7 {
					continue
				}
				alts = append(alts, mapctl.RFor(p.B, 0, off))
			}
			for b := uintptr(1); b < (uintptr(1) << p.B); b++ {
				alts = append(alts, mapctl.RFor(p.B, b, 0))
			}
			if c.Quick() {
				cl := [2]uintptr{p.PC, uintptr(p.Count)<<8 | uintptr(p.B)}
				seenClass[cl]++
				if seenClass[cl] > 3 {
					half := uintptr(p.Count / 2)
					if half > 7 {
						half = 4
					}
					if half == 0 {
						half = 1
					}
					alts = []uintptr{mapctl.RFor(p.B, (uintptr(1)<<p.B)>>1, half)}
				}
			}
			for _, r := range alts {
				check(fmt.Sprintf("dyn/%s/%d/%d", name, i, r),
					fmt.Sprintf("starting map iteration #%d (in %s, map of %d entries) at position %d instead of 0", i, site, p.Count, r),
					"order-dependent@"+site, 0, 1, uintptr(i), r)
			}
		}
		// (3) site(1): every instance of one site deviates, all bucket/offset starts
		type siteInfo struct {
			pc   uintptr
			maxB uint8
		}
		sites := map[uintptr]*siteInfo{}
		for _, p := range pts {
			si := sites[p.PC]
			if si == nil {
				si = &siteInfo{pc: p.PC}
				sites[p.PC] = si
			}
			if p.B > si.maxB {
				si.maxB = p.B
			}
		}
		var pcs []uintptr
		for pc := range sites {
			pcs = append(pcs, pc)
		}
		sort.Slice(pcs, func(i, j int) bool { return pcs[i] < pcs[j] })
		for _, pc := range pcs {
			if c.Expired() {
				break
			}
			si := sites[pc]
			site := pcName(pc)
			lim := uintptr(8) << si.maxB
			if c.Quick() && si.maxB > 0 {
				lim = uintptr(8) << 1 // quick: offsets x 2 buckets; thorough: all starts
				if lim < (uintptr(1)<<si.maxB)+8 {
					lim = (uintptr(1) << si.maxB) + 8
				}
			}
			for r := uintptr(1); r < lim; r++ {
				check(fmt.Sprintf("site/%s/%x/%d", name, pc, r),
					fmt.Sprintf("starting every map iteration in %s at position %d", site, r),
					"order-dependent@"+site, 0, 2, pc, r)
			}
		}
	}
	// (3b) the uniform rotations again under the load options that switch loader stages off: what is skipped must not
	// be what made the result order-independent
	optSets := []struct {
		name string
		fn   func(*loader.Options)
	}{
		{"SkipNormalization", func(o *loader.Options) { o.SkipNormalization = true }},
		{"SkipResolveEnvironment", func(o *loader.Options) { o.SkipResolveEnvironment = true }},
		{"NoResolvePaths", func(o *loader.Options) { o.ResolvePaths = false }},
		{"SkipConsistencyCheck", func(o *loader.Options) { o.SkipConsistencyCheck = true }},
		{"SkipValidation", func(o *loader.Options) { o.SkipValidation = true }},
		{"SkipDefaultValues", func(o *loader.Options) { o.SkipDefaultValues = true }},
	}
	for _, name := range names {
		for _, os := range optSets {
			if c.Expired() {
				break
			}
			name, os := name, os
			src := inputs[name]
			s := &Scn{Files: src.Files, Main: src.Main, Env: src.Env, WD: src.WD, Name: src.Name, Opts: append(append([]func(*loader.Options){}, src.Opts...), os.fn)}
			root := filepath.Join(base, name)
			var ref c02sig
			haveRef := false
			for k := uintptr(0); k < 8; k++ {
				k := k
				c.Do(fmt.Sprintf("uniopt/%s/%s/%d", name, os.name, k), func() core.Outcome {
					if !haveRef {
						ref, _ = c02run(s, root, 0, 0, 0, 0)
						haveRef = true
					}
					sg, n := c02run(s, root, k, 0, 0, 0)
					c.Count("transitions", int64(n))
					c.Count("states", 1)
					if d := c02diff(ref, sg); d != "" {
						return core.Outcome{Class: "diff", Viol: &core.Violation{Key: "order-dependent:uniform:" + name + ":" + os.name,
							Msg: fmt.Sprintf("input %q loaded with %s: starting every map iteration at position %d changes the result: %s", name, os.name, k, d)},
							Sample: map[string]any{"input": name, "option": os.name, "rotation": k}}
					}
					return core.Outcome{Class: fmt.Sprintf("uniopt/%s/%s/%d", name, os.name, k), Sample: map[string]any{"input": name, "option": os.name, "rotation": k}}
				})
			}
		}
	}
	// (4) declaration-order permutations of the YAML text
	c02permutations(c)
	c02corpusOrders(c, inputs)
	// (5) histories
	c02histories(c, inputs)
}

// ---------------------------------------------------------------- permutations

func permute(n int, f func([]int)) {
	idx := make([]int, n)
	for i := range idx {
		idx[i] = i
	}
	var rec func(k int)
	rec = func(k int) {
		if k == n {
			f(idx)
			return
		}
		for i := k; i < n; i++ {
			idx[k], idx[i] = idx[i], idx[k]
			rec(k + 1)
			idx[k], idx[i] = idx[i], idx[k]
		}
	}
	rec(0)
}

var c02permServices = []string{
	"  a:\n    image: a\n    depends_on: [b, c]\n    networks: [n1, n2]\n    volumes: [\"v1:/v1\", \"v2:/v2\"]\n    links: [d]\n",
	"  b:\n    extends: c\n    environment: [B=1]\n    networks: [n2]\n    volumes_from: [d]\n",
	"  c:\n    image: c\n    environment: [C=1]\n    ports: [\"80-82:80-82\"]\n    network_mode: \"service:d\"\n",
	"  d:\n    image: d\n    networks: {n3: {}, n1: {aliases: [x]}}\n    volumes: [\"v3:/v3\"]\n",
}
var c02permNetworks = []string{"  n1: {}\n", "  n2: {driver: bridge}\n", "  n3: {labels: [k=v]}\n"}
var c02permVolumes = []string{"  v1: {}\n", "  v2: {name: two}\n", "  v3: {labels: {k: v}}\n"}
var c02permAttrs = []string{
	"    image: x\n", "    environment:\n      B: 2\n      A: 1\n", "    labels: [b=2, a=1]\n",
	"    ports: [\"90:90\", \"80:80\"]\n", "    depends_on: {y: {condition: service_started}}\n",
}

func c02permutations(c *core.Ctx) {
	load := func(doc string) c02sig {
		s := &Scn{Files: map[string]string{"compose.yaml": doc}, Main: []string{"compose.yaml"}, InMem: true}
		root := filepath.Join(Scratch(), "c02perm")
		sg, _ := c02run(s, root, 0, 0, 0, 0)
		return sg
	}
	build := func(sv, nw, vl []int) string {
		var sb strings.Builder
		sb.WriteString("services:\n")
		for _, i := range sv {
			sb.WriteString(c02permServices[i])
		}
		sb.WriteString("networks:\n")
		for _, i := range nw {
			sb.WriteString(c02permNetworks[i])
		}
		sb.WriteString("volumes:\n")
		for _, i := range vl {
			sb.WriteString(c02permVolumes[i])
		}
		return sb.String()
	}
	ref := load(build([]int{0, 1, 2, 3}, []int{0, 1, 2}, []int{0, 1, 2}))
	permute(4, func(sv []int) {
		sv = append([]int{}, sv...)
		permute(3, func(nw []int) {
			nw = append([]int{}, nw...)
			permute(3, func(vl []int) {
				vl = append([]int{}, vl...)
				id := fmt.Sprintf("perm/res/%v/%v/%v", sv, nw, vl)
				c.Do(id, func() core.Outcome {
					doc := build(sv, nw, vl)
					sg := load(doc)
					c.Count("states", 1)
					c.Count("traces_validated_against_impl", 1)
					if d := c02diff(ref, sg); d != "" {
						return core.Outcome{Class: id, Sample: doc, Viol: &core.Violation{Key: "declaration-order:resources",
							Msg: "declaring services/networks/volumes in order " + id + " changes the result: " + d, Detail: doc}}
					}
					return core.Outcome{Class: id, Sample: doc}
				})
			})
		})
	})
	buildA := func(order []int) string {
		var sb strings.Builder
		sb.WriteString("services:\n  y: {image: y}\n  x:\n")
		for _, i := range order {
			sb.WriteString(c02permAttrs[i])
		}
		return sb.String()
	}
	refA := load(buildA([]int{0, 1, 2, 3, 4}))
	permute(5, func(o []int) {
		o = append([]int{}, o...)
		id := fmt.Sprintf("perm/attr/%v", o)
		c.Do(id, func() core.Outcome {
			doc := buildA(o)
			sg := load(doc)
			c.Count("states", 1)
			c.Count("traces_validated_against_impl", 1)
			if d := c02diff(refA, sg); d != "" {
				return core.Outcome{Class: id, Sample: doc, Viol: &core.Violation{Key: "declaration-order:attributes",
					Msg: "declaring a service's attributes in order " + id + " changes the result: " + d, Detail: doc}}
			}
			return core.Outcome{Class: id, Sample: doc}
		})
	})
}

// c02corpusOrders: in every YAML file of every corpus input, the entries of each top-level section (services, networks,
// volumes, secrets, configs) are re-declared in other orders (all orders up to 3 entries, else reversal and rotations);
// the document is re-encoded from its node tree, so anchors, aliases and tags stay where they are.
func c02corpusOrders(c *core.Ctx, inputs map[string]*Scn) {
	base := filepath.Join(Scratch(), "c02ord")
	for _, name := range sortedKeys(inputs) {
		src := inputs[name]
		for _, fname := range sortedKeys(src.Files) {
			if !strings.HasSuffix(fname, ".yaml") && !strings.HasSuffix(fname, ".yml") {
				continue
			}
			var docs []*yaml.Node
			dec := yaml.NewDecoder(strings.NewReader(src.Files[fname]))
			okParse := true
			for {
				var n yaml.Node
				err := dec.Decode(&n)
				if err == io.EOF {
					break
				}
				if err != nil {
					okParse = false
					break
				}
				docs = append(docs, &n)
			}
			if !okParse {
				continue
			}
			// the reference is the same file re-encoded from its node tree in the original order, so that only the
			// order differs between the two loads
			var sb0 strings.Builder
			enc0 := yaml.NewEncoder(&sb0)
			for _, d := range docs {
				if err := enc0.Encode(d); err != nil {
					okParse = false
				}
			}
			enc0.Close()
			if !okParse {
				continue
			}
			text0 := sb0.String()
			var ref c02sig
			haveRef := false
			for di, doc := range docs {
				if doc.Kind != yaml.DocumentNode || len(doc.Content) != 1 || doc.Content[0].Kind != yaml.MappingNode {
					continue
				}
				top := doc.Content[0]
				for i := 0; i+1 < len(top.Content); i += 2 {
					sec := top.Content[i].Value
					m := top.Content[i+1]
					if m.Kind != yaml.MappingNode || len(m.Content) < 4 {
						continue
					}
					switch sec {
					case "services", "networks", "volumes", "secrets", "configs":
					default:
						continue
					}
					n := len(m.Content) / 2
					var orders [][]int
					if n <= 3 {
						permute(n, func(p []int) { orders = append(orders, append([]int{}, p...)) })
					} else {
						rev := make([]int, n)
						for k := range rev {
							rev[k] = n - 1 - k
						}
						orders = append(orders, rev)
						for r := 1; r < n && r <= 3; r++ {
							rot := make([]int, n)
							for k := range rot {
								rot[k] = (k + r) % n
							}
							orders = append(orders, rot)
						}
					}
					orig := append([]*yaml.Node{}, m.Content...)
					for oi, ord := range orders {
						identity := true
						for k, x := range ord {
							if k != x {
								identity = false
							}
						}
						if identity {
							continue
						}
						if c.Expired() {
							return
						}
						perm := make([]*yaml.Node, 0, len(orig))
						for _, x := range ord {
							perm = append(perm, orig[2*x], orig[2*x+1])
						}
						m.Content = perm
						var sb strings.Builder
						enc := yaml.NewEncoder(&sb)
						encOK := true
						for _, d := range docs {
							if err := enc.Encode(d); err != nil {
								encOK = false
							}
						}
						enc.Close()
						m.Content = orig
						if !encOK {
							continue
						}
						text := sb.String()
						// an alias must not end up in front of its anchor: the permuted text has to parse
						var probe yaml.Node
						pd := yaml.NewDecoder(strings.NewReader(text))
						parseOK := true
						for {
							err := pd.Decode(&probe)
							if err == io.EOF {
								break
							}
							if err != nil {
								parseOK = false
								break
							}
						}
						if !parseOK {
							continue
						}
						name, fname, sec, text := name, fname, sec, text
						id := fmt.Sprintf("order/%s/%s/doc%d/%s/%d", name, fname, di, sec, oi)
						c.Do(id, func() core.Outcome {
							files := map[string]string{}
							for k, v := range src.Files {
								files[k] = v
							}
							if !haveRef {
								files[fname] = text0
								s0 := &Scn{Files: files, Main: src.Main, Env: src.Env, WD: src.WD, Name: src.Name, Opts: src.Opts}
								root := filepath.Join(base, name, "ref")
								s0.MaterialiseAt(root)
								ref, _ = c02run(s0, root, 0, 0, 0, 0)
								haveRef = true
							}
							files[fname] = text
							s := &Scn{Files: files, Main: src.Main, Env: src.Env, WD: src.WD, Name: src.Name, Opts: src.Opts}
							root := filepath.Join(base, name, "ref") // same directory: absolute paths in the result stay comparable
							s.MaterialiseAt(root)
							sg, _ := c02run(s, root, 0, 0, 0, 0)
							c.Count("states", 1)
							c.Count("traces_validated_against_impl", 1)
							if d := c02diff(ref, sg); d != "" {
								return core.Outcome{Class: "diff", Sample: map[string]any{"input": name, "file": fname, "section": sec, "text": text},
									Viol: &core.Violation{Key: "declaration-order:" + name + ":" + sec,
										Msg: fmt.Sprintf("input %q: declaring the %s of %s in another order changes the result: %s", name, sec, fname, d), Detail: text}}
							}
							return core.Outcome{Class: id, Sample: map[string]any{"input": name, "file": fname, "section": sec}}
						})
					}
				}
			}
		}
	}
}

// ---------------------------------------------------------------- histories

// HistMain is the entry point of the `hist` sub-command: loads the named corpus
// inputs in order (materialised under root) and prints the digest of the last.
func HistMain(root string, names []string) {
	inputs := c02inputs(false)
	var last c02sig
	for _, n := range names {
		s := inputs[n]
		if s == nil {
			fmt.Println("unknown input", n)
			os.Exit(2)
		}
		last, _ = c02run(s, filepath.Join(root, n), 0, 0, 0, 0)
	}
	fmt.Printf("DIGEST %s %s\n", last.class, last.digest())
}

func c02histories(c *core.Ctx, inputs map[string]*Scn) {
	alphabet := []string{"rich", "override-debug", "extends", "include", "version", "bad-schema", "depends-refine", "missing-file"}
	targets := alphabet
	depth := 2
	if !c.Quick() {
		depth = 3
		alphabet = alphabet[:6]
	}
	root := filepath.Join(Scratch(), "c02hist")
	for _, n := range sortedKeys(inputs) {
		inputs[n].MaterialiseAt(filepath.Join(root, n))
	}
	self, _ := os.Executable()
	run := func(seq []string) string {
		args := append([]string{"hist", root}, seq...)
		out, err := exec.Command(self, args...).CombinedOutput()
		for _, l := range strings.Split(string(out), "\n") {
			if strings.HasPrefix(l, "DIGEST ") {
				return l
			}
		}
		return fmt.Sprintf("CHILD-FAILED %v %s", err, trunc(string(out), 300))
	}
	fresh := map[string]string{}
	var seqs [][]string
	// every single earlier load over ALL inputs, then longer histories over the 8-input alphabet
	all := sortedKeys(inputs)
	for _, a := range all {
		seqs = append(seqs, []string{a})
	}
	var gen func(prefix []string, d int)
	gen = func(prefix []string, d int) {
		if len(prefix) > 1 {
			seqs = append(seqs, append([]string{}, prefix...))
		}
		if d == 0 {
			return
		}
		for _, a := range alphabet {
			gen(append(prefix, a), d-1)
		}
	}
	gen(nil, depth)
	targets = all
	for _, t := range targets {
		for _, h := range seqs {
			if c.Expired() {
				return
			}
			id := "hist/" + strings.Join(h, ",") + "->" + t
			t, h := t, h
			c.Do(id, func() core.Outcome {
				if _, ok := fresh[t]; !ok {
					fresh[t] = run([]string{t})
				}
				got := run(append(append([]string{}, h...), t))
				c.Count("states", 1)
				c.Count("transitions", int64(len(h)+1))
				c.Count("traces_validated_against_impl", 1)
				if strings.HasPrefix(got, "CHILD-FAILED") || strings.HasPrefix(fresh[t], "CHILD-FAILED") {
					return core.Outcome{Class: "child-failed", Trivial: true}
				}
				if got != fresh[t] {
					return core.Outcome{Class: id, Viol: &core.Violation{Key: "history-dependent:" + t,
						Msg: fmt.Sprintf("loading %s after the loads %v in the same process gives %s; in a fresh process %s", t, h, got, fresh[t])},
						Sample: map[string]any{"history": h, "target": t}}
				}
				return core.Outcome{Class: id, Sample: map[string]any{"history": h, "target": t}}
			})
		}
	}
}

// C02Stats prints iteration-point counts and load times per input (developer aid).
func C02Stats() {
	inputs := c02inputs(false)
	for _, name := range sortedKeys(inputs) {
		s := inputs[name]
		root := filepath.Join(Scratch(), "c02", name)
		s.MaterialiseAt(root)
		c02run(s, root, 0, 0, 0, 0)
		t0 := nowNano()
		var n int
		for i := 0; i < 5; i++ {
			_, n = c02run(s, root, 0, 0, 0, 0)
		}
		dt := (nowNano() - t0) / 5
		sites := map[uintptr]int{}
		bigB := 0
		for i := 0; i < n && i < mapctl.LogCap; i++ {
			p := mapctl.Log(i)
			sites[p.PC]++
			if p.B > 0 {
				bigB++
			}
		}
		fmt.Printf("%-16s points=%6d sites=%3d pointsB>0=%5d load+render=%.1fms\n", name, n, len(sites), bigB, float64(dt)/1e6)
	}
}
