package props

import (
	"fmt"
	"os"
	"path/filepath"
	"sort"
	"strings"

	"github.com/compose-spec/compose-go/v2/dotenv"

	"verifh/core"
	"verifh/refmodel/dotenvref"
)

func init() { core.Register(c18{}) }

type c18 struct{}

func (c18) ID() string    { return "C18" }
func (c18) Level() string { return "exploration" }
func (c18) Rule() string {
	return "env files assembled from the documented line grammar: 1-line files over key shape x separator x quoting x all value texts of <=3 (4 for one key/sep) tokens from a 16-token alphabet (incl. every documented escape pair, the escaped backslash among them); 2- and 3-line files over a line-form alphabet; 4..6-line files over 6 forms; each with and without trailing newline and with 4 lookup functions; every 2-line file also through each of the six other public parsing functions (UnmarshalWithLookup, UnmarshalBytesWithLookup, ReadFile, ReadWithLookup, GetEnvFromFile, Parse) (none, one name, two names, a name defined as the empty string); every printable ASCII byte inside / in front of / at the end of a key in 7 line forms; plus every string over a 13-symbol alphabet (12 bytes and the keyword export) up to 6 symbols (7 thorough) and every distance-1 byte edit of the repository's dotenv fixtures. Reference evaluator decides defined / must-error / outside; non-trivial = the reference defines the result; distinct = distinct (verdict, resulting map) signatures"
}
func (c18) Assumptions() []string {
	return []string{
		"reference evaluator refmodel/dotenvref (Appendix A.2) is the specification of the documented sub-language",
		"inputs the statement does not define (backslashes in unquoted or single-quoted values, text after a closing quote, non-ASCII blanks outside quotes, digit-leading or empty keys) are checked for totality only",
	}
}

type c18lookup struct {
	name string
	m    map[string]string
}

var c18lookups = []c18lookup{
	{"none", nil},
	{"B", map[string]string{"B": "lb"}},
	{"AB", map[string]string{"A": "la", "B": "lb"}},
	{"A-empty", map[string]string{"A": "", "B": "lb"}}, // defined but empty is still defined: the lookup wins over earlier lines
}

func mapSig(m map[string]string) string {
	ks := make([]string, 0, len(m))
	for k := range m {
		ks = append(ks, k)
	}
	sort.Strings(ks)
	var sb strings.Builder
	for _, k := range ks {
		fmt.Fprintf(&sb, "%q=%q;", k, m[k])
	}
	return sb.String()
}

// c18entries: the public functions that parse an env file; every one of them is held to the same reference.
var c18entries = []string{"ParseWithLookup", "UnmarshalWithLookup", "UnmarshalBytesWithLookup", "ReadFile", "ReadWithLookup", "GetEnvFromFile", "Parse"}

var c18fileSeq int

func c18check(src string, lk c18lookup) core.Outcome { return c18checkVia(src, lk, 0) }

func c18checkVia(src string, lk c18lookup, entry int) core.Outcome {
	var fn dotenv.LookupFn
	var rf dotenvref.Lookup
	if lk.m != nil {
		fn = func(k string) (string, bool) { v, ok := lk.m[k]; return v, ok }
		rf = func(k string) (string, bool) { v, ok := lk.m[k]; return v, ok }
	}
	var got map[string]string
	var gerr error
	perr := core.Try(func() error {
		switch entry {
		case 0:
			got, gerr = dotenv.ParseWithLookup(strings.NewReader(src), fn)
		case 1:
			got, gerr = dotenv.UnmarshalWithLookup(src, fn)
		case 2:
			got, gerr = dotenv.UnmarshalBytesWithLookup([]byte(src), fn)
		case 6:
			got, gerr = dotenv.Parse(strings.NewReader(src))
		default:
			c18fileSeq++
			f := filepath.Join(Scratch(), fmt.Sprintf("c18-%d.env", c18fileSeq&15))
			if err := os.WriteFile(f, []byte(src), 0o644); err != nil {
				panic(err)
			}
			switch entry {
			case 3:
				got, gerr = dotenv.ReadFile(f, fn)
			case 4:
				got, gerr = dotenv.ReadWithLookup(fn, f)
			case 5:
				cur := lk.m
				if cur == nil {
					cur = map[string]string{}
				}
				got, gerr = dotenv.GetEnvFromFile(cur, []string{f})
			}
		}
		if gerr != nil {
			got = nil // some entry points hand back the partial map next to the error
		}
		return nil
	})
	sample := map[string]any{"file": src, "lookup": lk.m}
	if perr != nil {
		pe := perr.(*core.PanicError)
		return core.Outcome{Class: "panic", Sample: sample, Viol: &core.Violation{
			Key: "panic-site=" + pe.Site, Msg: fmt.Sprintf("dotenv.ParseWithLookup(%q) panics: %v", src, pe.Val), Detail: pe.Stack}}
	}
	if gerr == nil && got == nil {
		return core.Outcome{Class: "nil-nil", Sample: sample, Viol: &core.Violation{
			Key: "neither-map-nor-error", Msg: fmt.Sprintf("parse of %q returns neither a map nor an error", src)}}
	}
	ref := dotenvref.Parse(src, rf)
	switch ref.V {
	case dotenvref.Outside:
		return core.Outcome{Class: "outside", Trivial: true}
	case dotenvref.MustError:
		if gerr == nil {
			return core.Outcome{Class: "must-error-accepted", Sample: sample, Viol: &core.Violation{
				Key: "invalid-accepted:" + c18reasonClass(ref.Reason),
				Msg: fmt.Sprintf("file %q must be rejected (%s) but parses to %s", src, ref.Reason, mapSig(got))}}
		}
		return core.Outcome{Class: "error:" + c18reasonClass(ref.Reason)}
	}
	if gerr != nil {
		return core.Outcome{Class: "spurious-error", Sample: sample, Viol: &core.Violation{
			Key: "valid-rejected", Msg: fmt.Sprintf("file %q (lookup %s) must parse to %s; got error %v", src, lk.name, mapSig(ref.Map), gerr)}}
	}
	if mapSig(got) != mapSig(ref.Map) {
		return core.Outcome{Class: "wrong-map", Sample: sample, Viol: &core.Violation{
			Key: "wrong-map:" + c18diffKind(got, ref.Map),
			Msg: fmt.Sprintf("file %q (lookup %s) must parse to {%s}; got {%s}", src, lk.name, mapSig(ref.Map), mapSig(got))}}
	}
	return core.Outcome{Class: "ok:" + mapSig(got), Sample: sample}
}

func c18reasonClass(r string) string {
	switch {
	case strings.Contains(r, "unterminated"):
		return "unterminated-quote"
	case strings.Contains(r, "key"):
		return "invalid-key"
	}
	return "substitution"
}

// c18diffKind names how two maps differ, for stable finding keys.
func c18diffKind(got, want map[string]string) string {
	for k := range got {
		if _, ok := want[k]; !ok {
			if k == "" {
				return "empty-key-entry"
			}
			return "extra-key"
		}
	}
	for k := range want {
		if _, ok := got[k]; !ok {
			return "missing-key"
		}
	}
	return "value"
}

func (c18) Run(c *core.Ctx) {
	keys := []string{"A", "a_1", "A.B-c", "export A"}
	seps := []string{"=", ": ", " = "}
	toks := []string{"v", " ", "#", " #", "$B", "${B:-d}", `\n`, `\$`, `\"`, `\\`, "'", `"`, "\n", "é", " ", "\r"}
	styles := []string{"u", "s", "d"}
	run := func(id, src string) {
		for li, lk := range c18lookups {
			lk := lk
			c.Do(fmt.Sprintf("%s/%d", id, li), func() core.Outcome { return c18check(src, lk) })
		}
	}
	wrap := func(style, v string) string {
		switch style {
		case "s":
			return "'" + v + "'"
		case "d":
			return `"` + v + `"`
		}
		return v
	}
	// --- one-line files
	var vals [][]string // value texts by token count
	vals = append(vals, []string{""})
	for n := 1; n <= 4; n++ {
		var cur []string
		for _, p := range vals[n-1] {
			for _, t := range toks {
				cur = append(cur, p+t)
			}
		}
		vals = append(vals, cur)
	}
	for n := 0; n <= 3; n++ {
		for vi, v := range vals[n] {
			if vi&255 == 0 && c.Expired() {
				return
			}
			for ki, k := range keys {
				for si, s := range seps {
					for _, st := range styles {
						line := k + s + wrap(st, v)
						id := fmt.Sprintf("l1/%d/%d/%d/%d/%s", n, vi, ki, si, st)
						run(id+"/n", line+"\n")
						run(id+"/e", line)
					}
				}
			}
		}
	}
	for vi, v := range vals[4] {
		if vi&255 == 0 && c.Expired() {
			return
		}
		for _, st := range styles {
			run(fmt.Sprintf("l1/4/%d/%s", vi, st), "A="+wrap(st, v)+"\n")
		}
	}
	// every printable ASCII byte inside, in front of and at the end of a key, in every line form: the reference knows
	// which bytes a key may hold
	for b := 0x21; b <= 0x7e; b++ {
		ch := string(rune(b))
		for fi, form := range []string{"A%sB=1", "A%sB: 1", "export A%sB=1", "A%sB", "%sA=1", "A%s=1", "A%s"} {
			run(fmt.Sprintf("keychar/%02x/%d", b, fi), fmt.Sprintf(form, ch)+"\n")
		}
	}
	// bare keys
	for ki, k := range keys {
		run(fmt.Sprintf("bare/%d/n", ki), k+"\n")
		run(fmt.Sprintf("bare/%d/e", ki), k)
		run(fmt.Sprintf("bare/%d/crlf", ki), k+"\r\n")
	}
	// --- multi-line files over a line-form alphabet
	forms := []string{
		"A=v", "B=w", "A=", "A", "B", "export A=x", "A: y", "B : z", "A=$B", "A=${B:-d}", "B=$A", "A='$B'", `A="$B"`,
		`A="x\ny"`, "A=\"x\ny\"", "A='x\ny'", "A=v #c", "A=v#c", "# comment", "", "A=v\r", "  A=v", "A=\"v\" # c", "A='v' ",
		"B=${A:+r}", "B=${A:?e}", "A=${A}x", `B="\$A"`, "A B=v", "A=\"open", "B='open", "export B", "a_1=1", "A.B-c=2",
		"A=$$B", "B=${A-d}", "A=v  # c # d", "\t", "A =v", "A= v",
	}
	nf := len(forms)
	for a := 0; a < nf; a++ {
		for b := 0; b < nf; b++ {
			src := forms[a] + "\n" + forms[b]
			run(fmt.Sprintf("l2/%d/%d/n", a, b), src+"\n")
			run(fmt.Sprintf("l2/%d/%d/e", a, b), src)
			// the same file through every other public parsing function
			for e := 1; e < len(c18entries); e++ {
				for li, lk := range c18lookups {
					if e == 6 && lk.m != nil {
						continue // Parse has no lookup
					}
					e, lk := e, lk
					c.Do(fmt.Sprintf("l2/%d/%d/n/%d/via-%s", a, b, li, c18entries[e]), func() core.Outcome { return c18checkVia(src+"\n", lk, e) })
				}
			}
		}
	}
	f3 := forms[:24]
	if !c.Quick() {
		f3 = forms
	}
	for a := range f3 {
		if c.Expired() {
			return
		}
		for b := range f3 {
			for d := range f3 {
				src := f3[a] + "\n" + f3[b] + "\n" + f3[d]
				run(fmt.Sprintf("l3/%d/%d/%d/n", a, b, d), src+"\n")
				run(fmt.Sprintf("l3/%d/%d/%d/e", a, b, d), src)
			}
		}
	}
	f6 := []string{"A=v", "B=$A", "# c", "", "A=\"m\nl\"\r", "B"}
	for n := 4; n <= 6; n++ {
		idx := make([]int, n)
		for {
			var sb strings.Builder
			for i, x := range idx {
				if i > 0 {
					sb.WriteByte('\n')
				}
				sb.WriteString(f6[x])
			}
			id := fmt.Sprintf("l%d/%v", n, idx)
			run(id+"/n", sb.String()+"\n")
			run(id+"/e", sb.String())
			i := n - 1
			for i >= 0 {
				idx[i]++
				if idx[i] < len(f6) {
					break
				}
				idx[i] = 0
				i--
			}
			if i < 0 {
				break
			}
		}
	}
	// --- every byte string over the no-crash alphabet
	// symbols: 12 single bytes plus the keyword "export" (the only word the grammar gives a meaning)
	alpha := []string{"A", "=", ":", "'", "\"", "\\", "#", "$", "{", "}", " ", "\n", "export"}
	maxLen := 6
	if !c.Quick() {
		maxLen = 7
	}
	var syms []string
	cnt := 0
	var rec func(int)
	rec = func(d int) {
		if d > 0 {
			str := strings.Join(syms, "")
			run("b/"+fmt.Sprintf("%x", str), str)
			cnt++
		}
		if d == maxLen || (cnt&4095 == 0 && c.Expired()) {
			return
		}
		for _, b := range alpha {
			if b == "export" && d >= 4 && c.Quick() {
				continue // quick: the keyword within the first 4 positions
			}
			syms = append(syms, b)
			rec(d + 1)
			syms = syms[:len(syms)-1]
		}
	}
	rec(0)
	// --- distance-1 edits of the repository fixtures
	fixtures, _ := filepath.Glob(RepoDir() + "/dotenv/fixtures/*.env")
	sort.Strings(fixtures)
	edits := []byte("A=:'\"\\#${} \n\t\r\x00\xff")
	for _, f := range fixtures {
		b, err := os.ReadFile(f)
		if err != nil || len(b) > 600 {
			continue
		}
		base := filepath.Base(f)
		run("fx/"+base, string(b))
		for i := 0; i <= len(b); i++ {
			if c.Expired() {
				return
			}
			if i < len(b) {
				run(fmt.Sprintf("fx/%s/del%d", base, i), string(b[:i])+string(b[i+1:]))
			}
			for _, e := range edits {
				run(fmt.Sprintf("fx/%s/ins%d/%x", base, i, e), string(b[:i])+string(e)+string(b[i:]))
				if i < len(b) {
					run(fmt.Sprintf("fx/%s/rep%d/%x", base, i, e), string(b[:i])+string(e)+string(b[i+1:]))
				}
			}
		}
	}
}
