package props

import (
	"fmt"
	"sort"
	"strings"

	"github.com/compose-spec/compose-go/v2/types"

	"verifh/core"
	"verifh/mapctl"
)

func init() { core.Register(c15{}) }

type c15 struct{}

func (c15) ID() string    { return "C15" }
func (c15) Level() string { return "model_checking" }
func (c15) Rule() string {
	return "explicit-state BFS: initial states = every project on <=3 services with profile sets over {p,q} per service and every DAG with absent/required/optional edges (plus resources referenced by subsets of services, and bind / npipe mounts whose source is spelled like a declared volume); transitions = WithProfiles(every subset of {p,q,*}), WithServicesEnabled / WithServicesDisabled (empty, singletons, pairs over names + unknown), WithSelectedServices (same x 3 policies), WithoutUnnecessaryResources, each executed by the real method; canonical state hashing; every transition checked against a set-based reference relation (Appendix A.3) and re-executed under 3 (quick; complete for the <=3-entry service maps) / 8 (thorough) map-iteration rotations that must give deep-equal results. distinct = distinct (project, state) pairs expanded"
}
func (c15) Assumptions() []string {
	return []string{
		"reference relation refines only what the statement defines (e.g. which other disabled services WithServicesEnabled re-enables is left open)",
		"BFS depth 3 for <=2 services, 2 for 3 services (quick); 5 / 3 (thorough)",
	}
}

type c15proj struct {
	n     int
	prof  [][]string
	edges map[[2]int]int // 1 required, 2 optional
	id    string
}

var c15names = []string{"a", "b", "c"}

func (m c15proj) build() *types.Project {
	p := &types.Project{Name: "p", Services: types.Services{}, DisabledServices: types.Services{},
		// every kind of resource uses the same names, so that a reference to one kind never keeps another kind alive
		Networks: types.Networks{"shared": {Name: "p_shared"}, "unused": {Name: "p_unused"}},
		Volumes:  types.Volumes{"shared": {Name: "p_shared"}, "unused": {Name: "p_unused"}},
		Secrets:  types.Secrets{"shared": {Name: "shared", File: "/s"}, "unused": {Name: "u", File: "/u"}},
		Configs:  types.Configs{"shared": {Name: "shared", File: "/c"}, "unused": {Name: "uc", File: "/uc"}},
	}
	for _, nm := range c15names {
		p.Secrets["r"+nm] = types.SecretConfig{Name: "s" + nm, File: "/s" + nm}
		p.Configs["r"+nm] = types.ConfigObjConfig{Name: "c" + nm, File: "/c" + nm}
	}
	for i := 0; i < m.n; i++ {
		nm := c15names[i]
		s := types.ServiceConfig{Name: nm, Image: "img", Profiles: append([]string{}, m.prof[i]...),
			Networks: map[string]*types.ServiceNetworkConfig{"r" + nm: nil},
			Volumes: []types.ServiceVolumeConfig{{Type: "volume", Source: "r" + nm, Target: "/v"}, {Type: "bind", Source: "/host", Target: "/h"},
				// mounts of other types whose source happens to be spelled like a declared volume are not references to it
				{Type: "bind", Source: "unused", Target: "/u"}, {Type: "npipe", Source: "shared", Target: "/p"}},
		}
		p.Networks["r"+nm] = types.NetworkConfig{Name: "p_n" + nm}
		p.Volumes["r"+nm] = types.VolumeConfig{Name: "p_v" + nm}
		switch i {
		case 0:
			s.Networks["shared"] = nil
			s.Secrets = []types.ServiceSecretConfig{{Source: "rb"}} // named like b's network and volume; config rb stays unreferenced
		case 1:
			s.Networks["shared"] = nil
			s.Build = &types.BuildConfig{Context: ".", Secrets: []types.ServiceSecretConfig{{Source: "rc"}}}
		case 2:
			s.Configs = []types.ServiceConfigObjConfig{{Source: "ra"}} // secret ra stays unreferenced
		}
		for j := 0; j < m.n; j++ {
			if k := m.edges[[2]int{i, j}]; k != 0 {
				if s.DependsOn == nil {
					s.DependsOn = types.DependsOnConfig{}
				}
				s.DependsOn[c15names[j]] = types.ServiceDependency{Condition: "service_started", Required: k == 1}
			}
		}
		if len(s.Profiles) > 0 {
			// as after a load with no active profile: profile-bearing services start disabled
			p.DisabledServices[nm] = s
		} else {
			p.Services[nm] = s
		}
	}
	return p
}

func c15projects(maxN int) []c15proj {
	profSets := [][]string{nil, {"p"}, {"q"}, {"p", "q"}}
	var out []c15proj
	for n := 1; n <= maxN; n++ {
		var pairs [][2]int
		for i := 0; i < n; i++ {
			for j := i + 1; j < n; j++ {
				pairs = append(pairs, [2]int{i, j})
			}
		}
		ne := 1
		for range pairs {
			ne *= 3
		}
		np := 1
		for i := 0; i < n; i++ {
			np *= 4
		}
		for e := 0; e < ne; e++ {
			for pr := 0; pr < np; pr++ {
				m := c15proj{n: n, edges: map[[2]int]int{}}
				x := e
				var es []string
				for _, pp := range pairs {
					k := x % 3
					x /= 3
					if k != 0 {
						m.edges[pp] = k
						es = append(es, fmt.Sprintf("%s>%s:%d", c15names[pp[0]], c15names[pp[1]], k))
					}
				}
				y := pr
				var ps []string
				for i := 0; i < n; i++ {
					m.prof = append(m.prof, profSets[y%4])
					ps = append(ps, strings.Join(profSets[y%4], ""))
					y /= 4
				}
				m.id = fmt.Sprintf("n%d[%s]prof[%s]", n, strings.Join(es, ","), strings.Join(ps, ","))
				out = append(out, m)
			}
		}
	}
	return out
}

type c15op struct {
	name  string
	kind  string
	args  []string
	pol   int
	apply func(p *types.Project) (*types.Project, error)
}

func c15ops(n int) []c15op {
	names := append(append([]string{}, c15names[:n]...), "zz")
	var sets [][]string
	sets = append(sets, nil)
	for i := range names {
		sets = append(sets, []string{names[i]})
	}
	for i := range names {
		for j := i + 1; j < len(names); j++ {
			sets = append(sets, []string{names[i], names[j]})
		}
	}
	var ops []c15op
	for mask := 0; mask < 8; mask++ {
		var ps []string
		for b, x := range []string{"p", "q", "*"} {
			if mask&(1<<b) != 0 {
				ps = append(ps, x)
			}
		}
		ps2 := ps
		ops = append(ops, c15op{name: fmt.Sprintf("WithProfiles%v", ps), kind: "profiles", args: ps,
			apply: func(p *types.Project) (*types.Project, error) { return p.WithProfiles(append([]string{}, ps2...)) }})
	}
	for _, ss := range sets {
		ss := ss
		ops = append(ops, c15op{name: fmt.Sprintf("WithServicesEnabled%v", ss), kind: "enable", args: ss,
			apply: func(p *types.Project) (*types.Project, error) {
				return p.WithServicesEnabled(append([]string{}, ss...)...)
			}})
		ops = append(ops, c15op{name: fmt.Sprintf("WithServicesDisabled%v", ss), kind: "disable", args: ss,
			apply: func(p *types.Project) (*types.Project, error) {
				return p.WithServicesDisabled(append([]string{}, ss...)...), nil
			}})
		for pi, pol := range []types.DependencyOption{types.IncludeDependencies, types.IncludeDependents, types.IgnoreDependencies} {
			pi, pol := pi, pol
			ops = append(ops, c15op{name: fmt.Sprintf("WithSelectedServices%v/%d", ss, pi), kind: "select", args: ss, pol: pi,
				apply: func(p *types.Project) (*types.Project, error) {
					return p.WithSelectedServices(append([]string{}, ss...), pol)
				}})
		}
	}
	ops = append(ops, c15op{name: "WithoutUnnecessaryResources", kind: "prune",
		apply: func(p *types.Project) (*types.Project, error) { return p.WithoutUnnecessaryResources(), nil }})
	return ops
}

type sset map[string]bool

func setOf(xs []string) sset {
	s := sset{}
	for _, x := range xs {
		s[x] = true
	}
	return s
}
func (s sset) String() string {
	var ks []string
	for k := range s {
		ks = append(ks, k)
	}
	sort.Strings(ks)
	return "{" + strings.Join(ks, ",") + "}"
}
func (s sset) eq(o sset) bool {
	if len(s) != len(o) {
		return false
	}
	for k := range s {
		if !o[k] {
			return false
		}
	}
	return true
}

func keysOf[V any](m map[string]V) sset {
	s := sset{}
	for k := range m {
		s[k] = true
	}
	return s
}

// c15relation checks post against the reference relation; returns key, message.
func c15relation(all sset, pre *types.Project, op c15op, post *types.Project, err error) (string, string) {
	E, D := keysOf(pre.Services), keysOf(pre.DisabledServices)
	profOf := func(p *types.Project, n string) []string {
		if s, ok := p.Services[n]; ok {
			return s.Profiles
		}
		return p.DisabledServices[n].Profiles
	}
	if err != nil {
		switch op.kind {
		case "select":
			// an error is expected iff a named service is not enabled, or (dependencies policy) a required dependency is not enabled
			if c15selectMustFail(pre, op) {
				return "", ""
			}
			return "select:spurious-error", fmt.Sprintf("%s fails (%v) although every named service is enabled and no required dependency is missing", op.name, err)
		default:
			return op.kind + ":spurious-error", fmt.Sprintf("%s fails: %v", op.name, err)
		}
	}
	if post == nil {
		return op.kind + ":nil-result", op.name + " returned neither a project nor an error"
	}
	E2, D2 := keysOf(post.Services), keysOf(post.DisabledServices)
	for k := range E2 {
		if D2[k] {
			return "partition:duplicate", fmt.Sprintf("after %s service %s is both enabled and disabled", op.name, k)
		}
	}
	union := sset{}
	for k := range E2 {
		union[k] = true
	}
	for k := range D2 {
		union[k] = true
	}
	if !union.eq(all) {
		return "partition:lost-or-invented", fmt.Sprintf("after %s enabled %v + disabled %v != all services %v", op.name, E2, D2, all)
	}
	for k := range all {
		if strings.Join(profOf(post, k), ",") != strings.Join(profOf(pre, k), ",") {
			return "service-changed:profiles", fmt.Sprintf("%s changed the profiles of %s", op.name, k)
		}
	}
	depsInto := func(p *types.Project, targets sset) string {
		for n, s := range p.Services {
			for d := range s.DependsOn {
				if targets[d] {
					return n + "->" + d
				}
			}
		}
		return ""
	}
	switch op.kind {
	case "profiles":
		ps := setOf(op.args)
		want := sset{}
		for k := range all {
			pr := profOf(pre, k)
			if len(pr) == 0 || ps["*"] {
				want[k] = true
				continue
			}
			for _, x := range pr {
				if ps[x] {
					want[k] = true
				}
			}
		}
		if !E2.eq(want) {
			return "profiles:wrong-enabled-set", fmt.Sprintf("%s: enabled %v, expected %v", op.name, E2, want)
		}
		if strings.Join(post.Profiles, ",") != strings.Join(op.args, ",") {
			return "profiles:not-recorded", fmt.Sprintf("%s: project.Profiles = %v", op.name, post.Profiles)
		}
	case "disable":
		ns := setOf(op.args)
		want := sset{}
		for k := range E {
			if !ns[k] {
				want[k] = true
			}
		}
		if len(op.args) == 0 {
			want = E
		}
		if !E2.eq(want) {
			return "disable:wrong-enabled-set", fmt.Sprintf("%s on enabled %v: enabled %v, expected %v", op.name, E, E2, want)
		}
		if e := depsInto(post, ns); e != "" {
			return "disable:dangling-dependency", fmt.Sprintf("after %s enabled service still depends on a disabled one: %s", op.name, e)
		}
	case "enable":
		if len(op.args) == 0 {
			if !E2.eq(E) || !D2.eq(D) {
				return "enable:empty-not-identity", op.name + " with no names changed the partition"
			}
			break
		}
		postProfiles := setOf(post.Profiles)
		for _, n := range op.args {
			if !all[n] {
				continue
			}
			if !E2[n] {
				return "enable:not-enabled", fmt.Sprintf("after %s service %s is not enabled", op.name, n)
			}
			if D[n] {
				for _, x := range profOf(pre, n) {
					if !postProfiles[x] {
						return "enable:profile-not-activated", fmt.Sprintf("after %s profile %s of %s is not active (%v)", op.name, x, n, post.Profiles)
					}
				}
			}
		}
		for _, x := range pre.Profiles {
			if !postProfiles[x] {
				return "enable:profile-lost", fmt.Sprintf("%s dropped active profile %s", op.name, x)
			}
		}
	case "select":
		if len(op.args) == 0 {
			if !E2.eq(E) || !D2.eq(D) {
				return "select:empty-not-identity", op.name + " with no names changed the partition"
			}
			break
		}
		if c15selectMustFail(pre, op) {
			return "select:missing-error", fmt.Sprintf("%s must fail (a named service or a required dependency is not enabled; enabled = %v) but succeeded", op.name, E)
		}
		want := c15closure(pre, op)
		if !E2.eq(want) {
			return fmt.Sprintf("select:wrong-set:policy%d", op.pol), fmt.Sprintf("%s on enabled %v: enabled %v, expected %v", op.name, E, E2, want)
		}
		notSel := sset{}
		for k := range all {
			if !E2[k] {
				notSel[k] = true
			}
		}
		if e := depsInto(post, notSel); e != "" {
			return "select:dangling-dependency", fmt.Sprintf("after %s a kept service depends on a removed one: %s", op.name, e)
		}
	case "prune":
		if !E2.eq(E) || !D2.eq(D) {
			return "prune:changed-services", op.name + " changed the service partition"
		}
		wantN, wantV, wantS, wantC := sset{}, sset{}, sset{}, sset{}
		for _, s := range pre.Services {
			for k := range s.Networks {
				if _, ok := pre.Networks[k]; ok {
					wantN[k] = true
				}
			}
			for _, v := range s.Volumes {
				if v.Type == "volume" && v.Source != "" {
					if _, ok := pre.Volumes[v.Source]; ok {
						wantV[v.Source] = true
					}
				}
			}
			for _, x := range s.Secrets {
				if _, ok := pre.Secrets[x.Source]; ok {
					wantS[x.Source] = true
				}
			}
			if s.Build != nil {
				for _, x := range s.Build.Secrets {
					if _, ok := pre.Secrets[x.Source]; ok {
						wantS[x.Source] = true
					}
				}
			}
			for _, x := range s.Configs {
				if _, ok := pre.Configs[x.Source]; ok {
					wantC[x.Source] = true
				}
			}
		}
		if g := keysOf(post.Networks); !g.eq(wantN) {
			return "prune:networks", fmt.Sprintf("pruning kept networks %v, expected %v", g, wantN)
		}
		if g := keysOf(post.Volumes); !g.eq(wantV) {
			return "prune:volumes", fmt.Sprintf("pruning kept volumes %v, expected %v", g, wantV)
		}
		if g := keysOf(post.Secrets); !g.eq(wantS) {
			return "prune:secrets", fmt.Sprintf("pruning kept secrets %v, expected %v", g, wantS)
		}
		if g := keysOf(post.Configs); !g.eq(wantC) {
			return "prune:configs", fmt.Sprintf("pruning kept configs %v, expected %v", g, wantC)
		}
	}
	return "", ""
}

func c15selectMustFail(pre *types.Project, op c15op) bool {
	if len(op.args) == 0 {
		return false
	}
	for _, n := range op.args {
		if _, ok := pre.Services[n]; !ok {
			return true
		}
	}
	if op.pol != 0 {
		return false
	}
	// dependencies policy: a required dependency reachable from the selection that is not enabled
	seen := sset{}
	var walk func(n string) bool
	walk = func(n string) bool {
		if seen[n] {
			return false
		}
		seen[n] = true
		for d, dep := range pre.Services[n].DependsOn {
			if _, ok := pre.Services[d]; !ok {
				if dep.Required {
					return true
				}
				continue
			}
			if walk(d) {
				return true
			}
		}
		return false
	}
	for _, n := range op.args {
		if walk(n) {
			return true
		}
	}
	return false
}

func c15closure(pre *types.Project, op c15op) sset {
	out := sset{}
	var walk func(n string)
	walk = func(n string) {
		if out[n] {
			return
		}
		out[n] = true
		switch op.pol {
		case 0:
			for d := range pre.Services[n].DependsOn {
				if _, ok := pre.Services[d]; ok {
					walk(d)
				}
			}
		case 1:
			for m, s := range pre.Services {
				if _, ok := s.DependsOn[n]; ok {
					walk(m)
				}
			}
		}
	}
	for _, n := range op.args {
		walk(n)
	}
	return out
}

// c15canon: canonical state = partition, depends_on of enabled services, profile set, resource names.
func c15canon(p *types.Project) string {
	var sb strings.Builder
	for _, n := range sortedKeys(p.Services) {
		s := p.Services[n]
		sb.WriteString("E:" + n + "(")
		for _, d := range sortedKeys(s.DependsOn) {
			fmt.Fprintf(&sb, "%s:%v,", d, s.DependsOn[d].Required)
		}
		sb.WriteString(")")
	}
	for _, n := range sortedKeys(p.DisabledServices) {
		s := p.DisabledServices[n]
		sb.WriteString("D:" + n + "(")
		for _, d := range sortedKeys(s.DependsOn) {
			fmt.Fprintf(&sb, "%s:%v,", d, s.DependsOn[d].Required)
		}
		sb.WriteString(")")
	}
	ps := setOf(p.Profiles)
	sb.WriteString("P:" + ps.String())
	sb.WriteString("N:" + keysOf(p.Networks).String() + "V:" + keysOf(p.Volumes).String() + "S:" + keysOf(p.Secrets).String() + "C:" + keysOf(p.Configs).String())
	return sb.String()
}

func (c15) Run(c *core.Ctx) {
	projs := c15projects(3)
	for _, m := range projs {
		if c.Expired() {
			return
		}
		m := m
		depth := 3
		if m.n == 3 {
			depth = 2
		}
		if !c.Quick() {
			depth = 5
			if m.n == 3 {
				depth = 3
			}
		}
		// one case = the whole BFS from one initial project
		c.Do(m.id, func() core.Outcome {
			init := m.build()
			all := keysOf(init.AllServices())
			ops := c15ops(m.n)
			type node struct {
				p    *types.Project
				path string
				d    int
			}
			seen := map[string]bool{c15canon(init): true}
			frontier := []node{{init, "init", 0}}
			var transitions int64
			var viol *core.Violation
			for len(frontier) > 0 && viol == nil {
				nd := frontier[0]
				frontier = frontier[1:]
				for _, op := range ops {
					var post *types.Project
					var err error
					var first string
					nrot := uintptr(8)
					if c.Quick() {
						nrot = 3 // complete for maps of <= 3 entries (the service maps); thorough: all 8
					}
					for k := uintptr(0); k < nrot; k++ {
						mapctl.SetUniform(k)
						pre := snapshotOf(nd.p)
						var r *types.Project
						var e error
						perr := core.Try(func() error { r, e = op.apply(pre); return nil })
						mapctl.SetUniform(0)
						transitions++
						if perr != nil {
							pe := perr.(*core.PanicError)
							viol = &core.Violation{Key: "panic:" + op.kind + "@" + pe.Site, Msg: fmt.Sprintf("%s: %s on %s panics: %v", m.id, op.name, nd.path, pe.Val), Detail: pe.Stack}
							break
						}
						sig := fmt.Sprintf("%v|%s", e != nil, Canon(r, ""))
						if k == 0 {
							post, err, first = r, e, sig
						} else if sig != first {
							viol = &core.Violation{Key: "not-a-function:" + op.kind,
								Msg: fmt.Sprintf("%s: %s on state %s gives different results when repeated (map iteration rotation %d): %s", m.id, op.name, nd.path, k, firstDiff(first, sig))}
							break
						}
					}
					if viol != nil {
						break
					}
					if key, msg := c15relation(all, nd.p, op, post, err); key != "" {
						viol = &core.Violation{Key: key, Msg: fmt.Sprintf("%s, after %s: %s", m.id, nd.path, msg)}
						break
					}
					if err == nil && post != nil && nd.d+1 < depth {
						k := c15canon(post)
						if !seen[k] {
							seen[k] = true
							frontier = append(frontier, node{post, nd.path + ">" + op.name, nd.d + 1})
						}
					}
				}
			}
			c.Count("states", int64(len(seen)))
			c.Count("transitions", transitions)
			c.Count("traces_validated_against_impl", transitions)
			o := core.Outcome{Class: m.id, Sample: map[string]any{"project": m.id, "states": len(seen), "transitions": transitions}}
			o.Viol = viol
			return o
		})
	}
}
