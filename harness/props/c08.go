package props

import (
	"fmt"
	"os"
	"regexp"
	"strconv"
	"strings"

	"github.com/compose-spec/compose-go/v2/loader"
	"github.com/compose-spec/compose-go/v2/types"

	"verifh/core"
	"verifh/schemagen"
)

func init() { core.Register(c08{}) }

type c08 struct{}

func (c08) ID() string    { return "C08" }
func (c08) Level() string { return "exploration" }
func (c08) Rule() string {
	return "shape: in each of the three full corpus documents and in the `wide` document (collections of 12..18 entries, typed attributes inside list items at positions 0..11) EVERY scalar leaf in turn is replaced by ${V}, ${UNSET:-literal} and (strings) pre${V}post with the matching environment and the result compared with the literal document, the ${UNSET:-literal} form also delivered as an override file and as a later document after an include whose project has an env_file and a .env defining the variable differently; mapping keys containing ${V} stay literal; a document handed over parsed (ConfigFile.Config) and loaded twice under two environments gives, the second time, what a fresh parse gives; every document with $ doubled and interpolation on equals the document with interpolation off, also when the text lives in an override, an extended base, an included or nested-included file, or a second document. types: every typed position of the schema below services/networks/volumes/secrets/configs (boolean, integer, number; read from /repo/schema/compose-spec.json at run time) that admits a string, under three shapes of the user-defined name (plain, x-prefixed, dotted), plus duration and byte-size attributes, x valid texts (incl. YAML-1.1 booleans) x invalid texts: the variable form gives the literal's typed value while the same text at two untyped positions of the document (walked before and after) stays a string, an invalid text is an error naming the attribute. distinct = distinct (position, form) pairs"
}
func (c08) Assumptions() []string {
	return []string{
		"for typed positions whose schema does not admit a string and which are not converted by the loader, only 'if the variable form loads it equals the literal' is asserted",
		"an error 'names the attribute' if its message contains the attribute's key or dotted path",
	}
}

type c08leaf struct {
	path []string
	val  any
	set  func(any)
}

func c08leaves(doc map[string]any) []c08leaf {
	var out []c08leaf
	var walk func(v any, path []string, set func(any))
	walk = func(v any, path []string, set func(any)) {
		switch x := v.(type) {
		case map[string]any:
			for _, k := range sortedKeys(x) {
				k := k
				walk(x[k], append(append([]string{}, path...), k), func(n any) { x[k] = n })
			}
		case []any:
			for i := range x {
				i := i
				walk(x[i], append(append([]string{}, path...), "[]"), func(n any) { x[i] = n })
			}
		case nil:
		default:
			out = append(out, c08leaf{path, x, set})
		}
	}
	walk(doc, nil, func(any) {})
	return out
}

func c08loadDoc(base *Scn, doc string, env map[string]string, opts ...func(*loader.Options)) (*types.Project, error) {
	files := map[string]string{}
	for k, v := range base.Files {
		files[k] = v
	}
	files["compose.yaml"] = doc
	e := map[string]string{}
	for k, v := range base.Env {
		e[k] = v
	}
	for k, v := range env {
		e[k] = v
	}
	s := &Scn{Files: files, Main: []string{"compose.yaml"}, Env: e, Opts: opts}
	root := s.Materialise()
	p, err := s.LoadAt(root)
	if err == nil {
		p = relocate(p)
		delete(p.Environment, "V")
	}
	return p, err
}

// c08loadAfterInclude delivers doc after an include whose project has its own environment files (defining, with other
// values, the variables the documents use): as an override file (mode 0) or as a later document of the main file (mode 1).
// What a document's variables resolve to depends on the project environment only, never on the files loaded before it.
func c08loadAfterInclude(base *Scn, doc string, env map[string]string, mode int) (*types.Project, error) {
	files := map[string]string{}
	for k, v := range base.Files {
		files[k] = v
	}
	first := "include:\n  - path: ./decoy/inc.yaml\n    env_file: ./decoy/vars.env\n  - ./decoy2/inc.yaml\nservices:\n  decoyhost: {image: d}\n"
	files["decoy/inc.yaml"] = "services:\n  decoysvc:\n    image: \"d:${UNSETVAR}\"\n"
	files["decoy/vars.env"] = "UNSETVAR=decoy\nV=decoyV\n"
	files["decoy2/inc.yaml"] = "services:\n  decoysvc2:\n    image: \"d:${UNSETVAR}\"\n"
	files["decoy2/.env"] = "UNSETVAR=decoy2\nV=decoyV2\n"
	main := []string{"compose.yaml"}
	if mode == 0 {
		files["compose.yaml"] = first
		files["second.yaml"] = doc
		main = append(main, "second.yaml")
	} else {
		files["compose.yaml"] = first + "---\n" + doc
	}
	e := map[string]string{}
	for k, v := range base.Env {
		e[k] = v
	}
	for k, v := range env {
		e[k] = v
	}
	s := &Scn{Files: files, Main: main, Env: e}
	root := s.Materialise()
	p, err := s.LoadAt(root)
	if err == nil {
		p = relocate(p)
		delete(p.Environment, "V")
	}
	return p, err
}

func (c08) Run(c *core.Ctx) {
	sch, err := schemagen.Load(RepoDir() + "/schema/compose-spec.json")
	if err != nil {
		c.Note("cannot read the schema: " + err.Error())
		return
	}
	corpus := CorpusScns()
	for _, dn := range []string{"rich", "rich2", "rich3", "wide"} {
		base := corpus[dn]
		// documents are parsed after the corpus's own variables were substituted, so every leaf is a literal
		text := base.Files["compose.yaml"]
		for k, v := range base.Env {
			text = strings.ReplaceAll(text, "${"+k+"}", v)
		}
		text = strings.ReplaceAll(text, "${TAG:-1.25}", "9")
		text = strings.ReplaceAll(text, "${TAG:-x}", "9")
		var lit *types.Project
		var litErr error
		litLoaded := false
		var litInc [2]*types.Project
		var litIncErr [2]error
		var litIncLoaded [2]bool
		doc := yamlToMap(text)
		leaves := c08leaves(doc)
		for li, lf := range leaves {
			for form := 0; form < 5; form++ {
				if c.Expired() {
					return
				}
				lf, form, li := lf, form, li
				_, isStr := lf.val.(string)
				if form == 2 && (!isStr || len(lf.val.(string)) < 2) {
					continue
				}
				pathStr := strings.Join(lf.path, ".")
				id := fmt.Sprintf("shape/%s/%d:%s/f%d", dn, li, pathStr, form)
				c.Do(id, func() core.Outcome {
					if !litLoaded {
						lit, litErr = c08loadDoc(base, mapToYAML(doc), nil)
						litLoaded = true
					}
					if litErr != nil {
						return core.Outcome{Class: "lit-rejected", Trivial: true}
					}
					litText := fmt.Sprint(lf.val)
					if strings.Contains(litText, "$") || strings.Contains(litText, "\n") {
						return core.Outcome{Class: "skip", Trivial: true}
					}
					if !isStr && strings.Contains(pathStr, "x-") {
						// extension payloads are untyped: a number written through a variable is a string there
						return core.Outcome{Class: "skip", Trivial: true}
					}
					env := map[string]string{}
					var repl string
					switch form {
					case 0:
						repl = "${V}"
						env["V"] = litText
					case 1, 3, 4:
						// 3, 4: the same, delivered after an include with its own environment files
						repl = "${UNSETVAR:-" + litText + "}"
						if strings.Contains(litText, "}") {
							return core.Outcome{Class: "skip", Trivial: true}
						}
					case 2:
						h := len(litText) / 2
						repl = litText[:h] + "${V}"
						env["V"] = litText[h:]
					}
					lf.set(repl)
					varDoc := mapToYAML(doc)
					lf.set(lf.val)
					p, err := (*types.Project)(nil), error(nil)
					lit := lit
					if form >= 3 {
						m := form - 3
						if !litIncLoaded[m] {
							litInc[m], litIncErr[m] = c08loadAfterInclude(base, mapToYAML(doc), nil, m)
							litIncLoaded[m] = true
						}
						if litIncErr[m] != nil {
							return core.Outcome{Class: "lit-rejected", Trivial: true}
						}
						lit = litInc[m]
						p, err = c08loadAfterInclude(base, varDoc, env, m)
					} else {
						p, err = c08loadDoc(base, varDoc, env)
					}
					sample := map[string]any{"doc": dn, "path": pathStr, "literal": lf.val, "written": repl, "env": env, "form": form}
					mustLoad := isStr
					if !isStr {
						sp := append([]string{}, lf.path...)
						// concrete names are data, the schema has them as patterns: Types handles that
						if sch.Types(sp)["string"] {
							mustLoad = true
						}
					}
					if pe, ok := err.(*core.PanicError); ok {
						return core.Outcome{Class: "panic", Sample: sample, Viol: &core.Violation{Key: "panic@" + pe.Site, Msg: id + ": " + pe.Error(), Detail: pe.Stack}}
					}
					gen := genericPath(lf.path)
					if err != nil {
						if !mustLoad {
							return core.Outcome{Class: "strict-position", Trivial: true}
						}
						return core.Outcome{Class: "rej", Sample: sample, Viol: &core.Violation{Key: "variable-form-rejected:" + gen,
							Msg: fmt.Sprintf("%s: writing %v as %s (env %v) is rejected: %v", id, lf.val, repl, env, err)}}
					}
					if d := ProjectDiff(lit, p); d != "" {
						return core.Outcome{Class: "diff", Sample: sample, Viol: &core.Violation{Key: "variable-form-differs:" + gen,
							Msg: fmt.Sprintf("%s: writing %v as %s gives a different model: %s", id, lf.val, repl, trunc(d, 500))}}
					}
					return core.Outcome{Class: id, Sample: sample}
				})
			}
		}
		// $ doubled with interpolation on == original with interpolation off
		dn2 := dn
		c.Do("dollar/"+dn, func() core.Outcome {
			orig := base.Files["compose.yaml"]
			p0, err0 := c08loadDoc(base, orig, nil, func(o *loader.Options) { o.SkipInterpolation = true })
			if err0 != nil {
				return core.Outcome{Class: "precondition", Trivial: true}
			}
			doubled := strings.ReplaceAll(orig, "$", "$$")
			p1, err1 := c08loadDoc(base, doubled, nil)
			if err1 != nil {
				return core.Outcome{Class: "rej", Viol: &core.Violation{Key: "doubled-dollar-rejected:" + dn2, Msg: fmt.Sprintf("%s with every $ doubled is rejected: %v", dn2, err1)}}
			}
			if d := ProjectDiff(p0, p1); d != "" {
				return core.Outcome{Class: "diff", Viol: &core.Violation{Key: "doubled-dollar-differs:" + dn2, Msg: fmt.Sprintf("%s: $$-escaped document with interpolation differs from the original without: %s", dn2, trunc(d, 500))}}
			}
			return core.Outcome{Class: "dollar/" + dn2}
		})
	}
	// the same equality when the text with $ lives in an override, an extended base (other / same file), an included
	// file or a nested include: the files the loader opens itself follow the interpolation switch too
	dollarText := "cost: \"$5 and ${X} and $Y and ${Z:-d}\""
	multi := map[string]struct {
		files map[string]string
		main  []string
	}{
		"override": {map[string]string{"compose.yaml": "services:\n  s:\n    image: i\n", "over.yaml": "services:\n  s:\n    labels:\n      " + dollarText + "\n"}, []string{"compose.yaml", "over.yaml"}},
		"extends-file": {map[string]string{"compose.yaml": "services:\n  s:\n    extends: {file: ./base.yaml, service: b}\n",
			"base.yaml": "services:\n  b:\n    image: i\n    labels:\n      " + dollarText + "\n"}, []string{"compose.yaml"}},
		"extends-same-file": {map[string]string{"compose.yaml": "services:\n  b:\n    image: i\n    labels:\n      " + dollarText + "\n  s:\n    extends: {service: b}\n"}, []string{"compose.yaml"}},
		"include": {map[string]string{"compose.yaml": "include:\n  - ./inc/inc.yaml\nservices:\n  m:\n    image: m\n",
			"inc/inc.yaml": "services:\n  s:\n    image: i\n    labels:\n      " + dollarText + "\n"}, []string{"compose.yaml"}},
		"include-nested": {map[string]string{"compose.yaml": "include:\n  - ./inc/inc.yaml\nservices:\n  m:\n    image: m\n",
			"inc/inc.yaml":       "include:\n  - ./deep/inc2.yaml\nservices:\n  mid:\n    image: i\n",
			"inc/deep/inc2.yaml": "services:\n  s:\n    image: i\n    labels:\n      " + dollarText + "\n"}, []string{"compose.yaml"}},
		"second-document": {map[string]string{"compose.yaml": "services:\n  s:\n    image: i\n---\nservices:\n  s:\n    labels:\n      " + dollarText + "\n"}, []string{"compose.yaml"}},
	}
	for _, name := range sortedKeys(multi) {
		name := name
		c.Do("dollar/multi/"+name, func() core.Outcome {
			m := multi[name]
			env := map[string]string{"X": "xval", "Y": "yval"}
			s0 := &Scn{Files: m.files, Main: m.main, Env: env, Opts: []func(*loader.Options){func(o *loader.Options) { o.SkipInterpolation = true }}}
			r0 := s0.Materialise()
			p0, err0 := s0.LoadAt(r0)
			if err0 != nil {
				return core.Outcome{Class: "rej", Viol: &core.Violation{Key: "interpolation-off-rejected:" + name, Msg: fmt.Sprintf("%s with interpolation off is rejected: %v", name, err0)}}
			}
			doubled := map[string]string{}
			for f, t := range m.files {
				doubled[f] = strings.ReplaceAll(t, "$", "$$")
			}
			s1 := &Scn{Files: doubled, Main: m.main, Env: env}
			r1 := s1.Materialise()
			p1, err1 := s1.LoadAt(r1)
			if err1 != nil {
				return core.Outcome{Class: "rej", Viol: &core.Violation{Key: "doubled-dollar-rejected:" + name, Msg: fmt.Sprintf("%s with every $ doubled is rejected: %v", name, err1)}}
			}
			want := "$5 and ${X} and $Y and ${Z:-d}"
			for which, p := range map[string]*types.Project{"interpolation off": p0, "every $ doubled": p1} {
				if got := p.Services["s"].Labels["cost"]; got != want {
					return core.Outcome{Class: "diff", Viol: &core.Violation{Key: "dollar-text-changed:" + name,
						Msg: fmt.Sprintf("%s, %s: the label reads %q, expected the literal text %q", name, which, got, want)}}
				}
			}
			if d := ProjectDiff(relocate(p0), relocate(p1)); d != "" {
				return core.Outcome{Class: "diff", Viol: &core.Violation{Key: "doubled-dollar-differs:" + name, Msg: fmt.Sprintf("%s: $$-escaped files with interpolation differ from the originals without: %s", name, trunc(d, 500))}}
			}
			return core.Outcome{Class: "dollar/multi/" + name}
		})
	}
	// a caller may hand the loader a document it parsed itself (ConfigFile.Config) and load it again later under another
	// environment: what the second load sees is the document, not what the first load substituted into it
	for _, dn := range []string{"rich", "rich2", "rich3", "operators", "kv-shapes", "typed-strings"} {
		dn := dn
		base := corpus[dn]
		if base == nil {
			continue
		}
		c.Do("parsed-twice/"+dn, func() core.Outcome {
			text := base.Files["compose.yaml"]
			env1 := map[string]string{}
			env2 := map[string]string{}
			for k, v := range base.Env {
				env1[k] = v
				env2[k] = v + "2"
				if _, err := strconv.Atoi(v); err == nil {
					env2[k] = v + "0" // stay a number where the document wants one
				}
			}
			for _, m := range regexp.MustCompile(`\$\{([A-Z_][A-Z0-9_]*)`).FindAllStringSubmatch(text, -1) {
				if _, ok := env1[m[1]]; !ok {
					env2[m[1]] = "7"
				}
			}
			loadParsed := func(doc map[string]any, env map[string]string) (*types.Project, error) {
				s := &Scn{Files: base.Files, Main: []string{"compose.yaml"}, Env: env}
				root := s.Materialise()
				cd := s.Details(root)
				cd.ConfigFiles[0].Config = doc
				p, err := s.LoadDetails(cd, true)
				if err == nil {
					p = relocate(p)
				}
				return p, err
			}
			shared := yamlToMap(text)
			if _, err := loadParsed(shared, env1); err != nil {
				return core.Outcome{Class: "first-load-rejected", Trivial: true}
			}
			got, err1 := loadParsed(shared, env2)
			want, err2 := loadParsed(yamlToMap(text), env2)
			sample := map[string]any{"doc": dn, "env1": env1, "env2": env2}
			if pe, ok := err1.(*core.PanicError); ok {
				return core.Outcome{Class: "panic", Sample: sample, Viol: &core.Violation{Key: "panic@" + pe.Site, Msg: "parsed-twice/" + dn + ": " + pe.Error(), Detail: pe.Stack}}
			}
			if (err1 == nil) != (err2 == nil) {
				return core.Outcome{Class: "diff", Sample: sample, Viol: &core.Violation{Key: "parsed-document-reused:outcome", Msg: fmt.Sprintf("parsed-twice/%s: loading the parsed document a second time gives %v, a fresh parse gives %v", dn, err1, err2)}}
			}
			if err1 == nil {
				if d := ProjectDiff(want, got); d != "" {
					return core.Outcome{Class: "diff", Sample: sample, Viol: &core.Violation{Key: "parsed-document-reused:stale-values",
						Msg: fmt.Sprintf("parsed-twice/%s: the second load of a parsed document (other environment) differs from a load of a fresh parse: %s", dn, trunc(d, 500))}}
				}
			}
			return core.Outcome{Class: "parsed-twice/" + dn, Sample: sample}
		})
	}
	// mapping keys are not interpolated
	c.Do("keys", func() core.Outcome {
		doc := "services:\n  s:\n    image: i\n    labels:\n      \"${V}\": x\n      plain: \"${V}\"\n    environment:\n      \"K_${V}\": y\n"
		s := &Scn{Files: map[string]string{"compose.yaml": doc}, Main: []string{"compose.yaml"}, Env: map[string]string{"V": "val"}}
		root := s.Materialise()
		p, err := s.LoadAt(root)
		if err != nil {
			return core.Outcome{Class: "rej", Viol: &core.Violation{Key: "keys:rejected", Msg: err.Error()}}
		}
		sv := p.Services["s"]
		if _, ok := sv.Labels["${V}"]; !ok || sv.Labels["plain"] != "val" {
			return core.Outcome{Class: "diff", Viol: &core.Violation{Key: "keys:interpolated", Msg: fmt.Sprintf("labels %v: a mapping key was interpolated or a value was not", sv.Labels)}}
		}
		if _, ok := sv.Environment["K_${V}"]; !ok {
			return core.Outcome{Class: "diff", Viol: &core.Violation{Key: "keys:interpolated", Msg: fmt.Sprintf("environment %v: a mapping key was interpolated", sv.Environment)}}
		}
		return core.Outcome{Class: "keys"}
	})
	c08types(c, sch)
}

func genericPath(p []string) string {
	// services.<name>.x -> services.*.x ; top-level resources likewise
	q := append([]string{}, p...)
	if len(q) >= 2 {
		switch q[0] {
		case "services", "networks", "volumes", "secrets", "configs":
			q[1] = "*"
		}
	}
	return strings.Join(q, ".")
}

// c08types: every typed position of the schema x valid / invalid texts.
func c08types(c *core.Ctx, sch *schemagen.Schema) {
	type pos struct {
		path []string
		kind string // boolean | integer | number
	}
	var positions []pos
	// user-defined names come in several shapes: plain, looking like an extension key, containing the path separator
	var roots [][]string
	for _, shape := range []string{"%s", "x-%s", "%s.v2"} {
		for _, r := range [][2]string{{"services", "s"}, {"networks", "n"}, {"volumes", "v"}, {"secrets", "x"}, {"configs", "x"}} {
			roots = append(roots, []string{r[0], fmt.Sprintf(shape, r[1])})
		}
	}
	for _, root := range roots {
		for _, p := range sch.Paths(root, "key", 8) {
			t := sch.Types(p)
			if len(p) >= 2 && p[len(p)-2] == "[]" && p[len(p)-1] == "published" {
				continue // a published port is kept as text in the model (it may be a range): not a typed attribute
			}
			if !t["string"] || t["null"] || p[len(p)-1] == "key" || p[len(p)-1] == "[]" {
				// values of free-form maps and list items are strings by nature, not typed attributes
				continue
			}
			for _, k := range []string{"boolean", "integer", "number"} {
				if t[k] && !t["object"] && !t["array"] {
					positions = append(positions, pos{p, k})
					break
				}
			}
		}
	}
	c.Count("typed_positions_from_schema", int64(len(positions)))
	valid := map[string][][2]string{ // text, literal YAML
		"boolean": {{"true", "true"}, {"false", "false"}, {"TRUE", "true"}, {"False", "false"}, {"yes", "true"}, {"no", "false"}, {"on", "true"}, {"off", "false"}, {"y", "true"}, {"n", "false"}, {"Yes", "true"}, {"OFF", "false"}},
		"integer": {{"0", "0"}, {"7", "7"}, {"42", "42"}},
		"number":  {{"1", "1"}, {"2", "2"}},
	}
	invalid := map[string][]string{
		"boolean": {"maybe", "1", "0", "t", "f", "2", "truee", ""},
		"integer": {"1x", "--1", "1.5", "abc"},
		"number":  {"1.2.3", "x", "1x"},
	}
	for _, ps := range positions {
		doc, ok := c08docFor(ps.path)
		if !ok {
			continue
		}
		pathStr := strings.Join(ps.path, ".")
		last := ps.path[len(ps.path)-1]
		if last == "[]" || last == "key" {
			last = ps.path[len(ps.path)-2]
		}
		type optSet struct {
			name string
			fn   func(*loader.Options)
		}
		optSets := []optSet{{"", func(*loader.Options) {}}}
		if !c.Quick() {
			// thorough: the conversion does not depend on which later stages run
			optSets = append(optSets,
				optSet{"/SkipNormalization", func(o *loader.Options) { o.SkipNormalization = true }},
				optSet{"/SkipConsistencyCheck", func(o *loader.Options) { o.SkipConsistencyCheck = true }},
				optSet{"/NoResolvePaths", func(o *loader.Options) { o.ResolvePaths = false }},
				optSet{"/SkipDefaultValues", func(o *loader.Options) { o.SkipDefaultValues = true }})
		}
		for _, v := range valid[ps.kind] {
			for _, ops := range optSets {
				ps, v, ops := ps, v, ops
				c.Do(fmt.Sprintf("type/%s/valid/%s%s", pathStr, v[0], ops.name), func() core.Outcome {
					// the same text also at untyped positions: it must stay that text there, whatever the typed position made of it
					litDoc := strings.ReplaceAll(strings.Replace(doc, "@@", v[1], 1), "@C@", "\""+v[0]+"\"")
					varDoc := strings.ReplaceAll(strings.Replace(doc, "@@", "\"${V}\"", 1), "@C@", "\"${V}\"")
					base := &Scn{Files: map[string]string{"s": "x", "e.env": "E=1\n"}}
					pl, el := c08loadDoc(base, litDoc, nil, ops.fn)
					if el != nil {
						if os.Getenv("C08_DEBUG") != "" {
							fmt.Fprintf(os.Stderr, "C08DBG lit-rejected %s: %s\n", pathStr, trunc(el.Error(), 160))
						}
						return core.Outcome{Class: "lit-rejected:" + trunc(el.Error(), 50), Trivial: true}
					}
					pv, ev := c08loadDoc(base, varDoc, map[string]string{"V": v[0]}, ops.fn)
					sample := map[string]any{"path": pathStr, "text": v[0], "doc": varDoc}
					if ev != nil {
						return core.Outcome{Class: "rej", Sample: sample, Viol: &core.Violation{Key: "typed:valid-text-rejected:" + genericPath(ps.path) + ":" + ps.kind,
							Msg: fmt.Sprintf("%s: the valid %s text %q supplied through a variable is rejected: %v", pathStr, ps.kind, v[0], ev)}}
					}
					if d := ProjectDiff(pl, pv); d != "" {
						return core.Outcome{Class: "diff", Sample: sample, Viol: &core.Violation{Key: "typed:value-differs:" + genericPath(ps.path),
							Msg: fmt.Sprintf("%s: %q through a variable differs from the literal %s: %s", pathStr, v[0], v[1], trunc(d, 400))}}
					}
					// the same text written directly as a (quoted) string: the schema admits a string here and the loader converts it
					strDoc := strings.ReplaceAll(strings.Replace(doc, "@@", "\""+v[0]+"\"", 1), "@C@", "\""+v[0]+"\"")
					pq, eq := c08loadDoc(base, strDoc, nil, ops.fn)
					if eq != nil {
						if _, isPanic := eq.(*core.PanicError); isPanic {
							return core.Outcome{Class: "panic", Sample: sample, Viol: &core.Violation{Key: "typed:panic:" + genericPath(ps.path), Msg: fmt.Sprintf("%s written as the string %q: %v", pathStr, v[0], eq)}}
						}
						return core.Outcome{Class: "rej", Sample: sample, Viol: &core.Violation{Key: "typed:string-literal-rejected:" + ps.kind,
							Msg: fmt.Sprintf("%s: the valid %s text %q written as a quoted string is rejected although the same text through a variable loads: %v", pathStr, ps.kind, v[0], eq)}}
					}
					if d := ProjectDiff(pl, pq); d != "" {
						return core.Outcome{Class: "diff", Sample: sample, Viol: &core.Violation{Key: "typed:string-literal-differs:" + genericPath(ps.path),
							Msg: fmt.Sprintf("%s: %q as a quoted string differs from the literal %s: %s", pathStr, v[0], v[1], trunc(d, 400))}}
					}
					return core.Outcome{Class: pathStr + v[0] + ops.name, Sample: sample}
				})
			}
		}
		for _, bad := range invalid[ps.kind] {
			ps, bad := ps, bad
			switch last {
			case "rate", "size", "memory", "mem_limit", "mem_reservation", "memswap_limit", "shm_size", "mem_swappiness":
				continue // byte sizes: their own grammar, checked separately
			}
			c.Do(fmt.Sprintf("type/%s/invalid/%s", pathStr, bad), func() core.Outcome {
				varDoc := strings.ReplaceAll(strings.Replace(doc, "@@", "\"${V}\"", 1), "@C@", "c")
				base := &Scn{Files: map[string]string{"s": "x", "e.env": "E=1\n"}}
				// the position must be live: the valid literal loads
				probe := map[string]string{"boolean": "true", "integer": "1", "number": "1"}[ps.kind]
				if _, el := c08loadDoc(base, strings.ReplaceAll(strings.Replace(doc, "@@", probe, 1), "@C@", "c"), nil); el != nil {
					return core.Outcome{Class: "lit-rejected", Trivial: true}
				}
				_, ev := c08loadDoc(base, varDoc, map[string]string{"V": bad})
				sample := map[string]any{"path": pathStr, "text": bad, "doc": varDoc}
				if ev == nil {
					return core.Outcome{Class: "acc", Sample: sample, Viol: &core.Violation{Key: "typed:invalid-text-accepted:" + ps.kind + ":" + bad,
						Msg: fmt.Sprintf("%s: %q is not a valid %s but is accepted through a variable", pathStr, bad, ps.kind)}}
				}
				if _, ok := ev.(*core.PanicError); ok {
					return core.Outcome{Class: "panic", Sample: sample, Viol: &core.Violation{Key: "typed:panic:" + genericPath(ps.path), Msg: pathStr + ": " + ev.Error()}}
				}
				if !strings.Contains(ev.Error(), last) {
					return core.Outcome{Class: "unnamed", Sample: sample, Viol: &core.Violation{Key: "typed:error-does-not-name-attribute:" + ps.kind,
						Msg: fmt.Sprintf("%s: error for invalid %s %q does not name the attribute: %v", pathStr, ps.kind, bad, ev)}}
				}
				return core.Outcome{Class: pathStr + "/bad/" + bad, Sample: sample}
			})
		}
	}
	// durations and byte sizes
	for _, a := range []struct{ attr, good, lit, bad string }{
		{"stop_grace_period", "1m30s", "1m30s", "1x"}, {"mem_limit", "1k", "1024", "1x"}, {"shm_size", "2m", "2097152", "zz"}, {"mem_reservation", "1g", "1073741824", "1q"},
		// plain integers at and beyond what a float64 holds exactly: the variable form gives the same integer as the literal
		{"mem_limit", "9007199254740993", "9007199254740993", "1x"}, {"mem_limit", "9223372036854775807", "9223372036854775807", "1x"},
		{"shm_size", "9007199254740993", "9007199254740993", "zz"}, {"mem_reservation", "4611686018427387905", "4611686018427387905", "1q"},
		{"memswap_limit", "9007199254740993", "9007199254740993", "1x"}, {"memswap_limit", "-1", "-1", "1x"},
	} {
		a := a
		c.Do("type/"+a.attr+"/"+a.good, func() core.Outcome {
			base := &Scn{Files: map[string]string{}}
			mk := func(v string) string { return "services:\n  s:\n    image: i\n    " + a.attr + ": " + v + "\n" }
			pl, el := c08loadDoc(base, mk(a.lit), nil)
			pv, ev := c08loadDoc(base, mk("\"${V}\""), map[string]string{"V": a.good})
			if el != nil || ev != nil {
				return core.Outcome{Class: "rej", Viol: &core.Violation{Key: "typed:valid-text-rejected:" + a.attr, Msg: fmt.Sprintf("%s: literal err=%v variable err=%v", a.attr, el, ev)}}
			}
			if d := ProjectDiff(pl, pv); d != "" {
				return core.Outcome{Class: "diff", Viol: &core.Violation{Key: "typed:value-differs:" + a.attr, Msg: trunc(d, 300)}}
			}
			_, eb := c08loadDoc(base, mk("\"${V}\""), map[string]string{"V": a.bad})
			if eb == nil {
				return core.Outcome{Class: "acc", Viol: &core.Violation{Key: "typed:invalid-text-accepted:" + a.attr, Msg: a.attr + ": " + a.bad + " accepted"}}
			}
			if !strings.Contains(eb.Error(), a.attr) {
				return core.Outcome{Class: "unnamed", Viol: &core.Violation{Key: "typed:error-does-not-name-attribute:" + a.attr, Msg: eb.Error()}}
			}
			return core.Outcome{Class: "type/" + a.attr}
		})
	}
}

// c08docFor builds a minimal document with "@@" at the given schema path.
// c08companions adds what the entry holding the typed attribute needs to be a valid entry of its kind (a port needs a
// target, a mount a type and a target, a secret reference a source ...), so that the typed attribute is reached at all.
func c08companions(doc map[string]any, path []string) {
	// walk to every mapping on the path, remembering the path that led there
	var cur any = doc
	for i, k := range path {
		m, isMap := cur.(map[string]any)
		if l, isList := cur.([]any); isList && len(l) > 0 {
			cur = l[0]
			m, isMap = cur.(map[string]any)
			_ = k
			if !isMap {
				return
			}
			// m is the list item reached through path[:i] (whose last element is "[]")
			parent := ""
			if i >= 1 {
				parent = path[i-1] + ".[]"
			}
			set := func(k string, v any) {
				if _, ok := m[k]; !ok {
					m[k] = v
				}
			}
			switch {
			case strings.HasSuffix(parent, "secrets.[]"), strings.HasSuffix(parent, "configs.[]"):
				set("source", "cmp")
				kind := "secrets"
				if strings.HasPrefix(parent, "configs") {
					kind = "configs"
				}
				top, _ := doc[kind].(map[string]any)
				if top == nil {
					top = map[string]any{}
					doc[kind] = top
				}
				if kind == "secrets" {
					top["cmp"] = map[string]any{"file": "./s"}
				} else {
					top["cmp"] = map[string]any{"content": "c"}
				}
			case strings.HasSuffix(parent, "devices.[]"):
				set("capabilities", []any{"gpu"})
			case strings.HasSuffix(parent, "watch.[]"):
				set("path", "./w")
				set("action", "sync+exec")
				set("target", "/t")
				if ex, ok := m["exec"].(map[string]any); ok {
					if _, has := ex["command"]; !has {
						ex["command"] = []any{"x"}
					}
				}
			case strings.HasSuffix(parent, "env_file.[]"):
				set("path", "./e.env")
			case strings.HasSuffix(parent, "ports.[]"):
				set("target", 80)
			case strings.HasSuffix(parent, "volumes.[]"):
				set("target", "/t")
				switch {
				case m["bind"] != nil:
					set("type", "bind")
					set("source", "./b")
				case m["tmpfs"] != nil:
					set("type", "tmpfs")
				default:
					set("type", "volume")
				}
			}
			cur = m
			continue
		}
		if !isMap {
			return
		}
		// mappings keyed by a free name
		if i >= 1 && k == "key" {
			switch path[i-1] {
			case "ulimits":
				if u, ok := m["key"].(map[string]any); ok {
					if _, has := u["soft"]; !has {
						u["soft"] = 1
					}
					if _, has := u["hard"]; !has {
						u["hard"] = 100
					}
				}
			case "depends_on":
				if d, ok := m["key"].(map[string]any); ok {
					if _, has := d["condition"]; !has {
						d["condition"] = "service_started"
					}
					svcs, _ := doc["services"].(map[string]any)
					if svcs != nil {
						svcs["key"] = map[string]any{"image": "k"}
					}
				}
			}
		}
		cur = m[k]
	}
}

// c08docFor builds the witness document with the placeholder @@ at the typed position and the placeholder @C@ at two
// untyped string positions, one walked before and one after any typed position (a config content, a top-level extension).
func c08docFor(path []string) (string, bool) {
	svcName := "s"
	if path[0] == "services" {
		svcName = path[1]
	}
	doc := map[string]any{"services": map[string]any{svcName: map[string]any{"image": "i"}}}
	var cur any = doc
	var setParent func(any)
	for i, k := range path {
		lastSeg := i == len(path)-1
		var next any
		if !lastSeg {
			if path[i+1] == "[]" {
				next = []any{nil}
			} else {
				next = map[string]any{}
			}
		} else {
			next = "@@"
		}
		switch c := cur.(type) {
		case map[string]any:
			if ex, ok := c[k]; ok && !lastSeg {
				next = ex
			}
			c[k] = next
			kk := k
			setParent = func(v any) { c[kk] = v }
		case []any:
			c[0] = next
			setParent = func(v any) { c[0] = v }
		default:
			return "", false
		}
		cur = next
	}
	_ = setParent
	// required companions
	svc := doc["services"].(map[string]any)[svcName].(map[string]any)
	if b, ok := svc["build"].(map[string]any); ok {
		if _, ok := b["context"]; !ok {
			b["context"] = "."
		}
	}
	if path[0] != "services" {
		// resources need a source
		top := doc[path[0]].(map[string]any)
		for _, r := range top {
			if rm, ok := r.(map[string]any); ok {
				switch path[0] {
				case "secrets":
					if _, ok := rm["external"]; !ok {
						rm["file"] = "./s"
					}
				case "configs":
					if _, ok := rm["external"]; !ok {
						rm["content"] = "c"
					}
				}
			}
		}
	}
	c08companions(doc, path)
	cfgs, _ := doc["configs"].(map[string]any)
	if cfgs == nil {
		cfgs = map[string]any{}
		doc["configs"] = cfgs
	}
	cfgs["aaa"] = map[string]any{"content": "@C@"}
	doc["x-zzz"] = "@C@"
	y := mapToYAML(doc)
	if !strings.Contains(y, "'@@'") && !strings.Contains(y, "\"@@\"") {
		return "", false
	}
	y = strings.ReplaceAll(y, "'@C@'", "@C@")
	y = strings.ReplaceAll(y, "\"@C@\"", "@C@")
	y = strings.Replace(y, "'@@'", "@@", 1)
	y = strings.Replace(y, "\"@@\"", "@@", 1)
	return y, true
}
