package props

import (
	"fmt"
	"reflect"
	"sort"
	"strings"

	"github.com/compose-spec/compose-go/v2/loader"
	"github.com/compose-spec/compose-go/v2/types"
	"gopkg.in/yaml.v3"

	"verifh/core"
)

func init() { core.Register(c09{}) }

type c09 struct{}

func (c09) ID() string    { return "C09" }
func (c09) Level() string { return "exploration" }
func (c09) Rule() string {
	return "documents: the full corpus documents (every service attribute of the schema is set in one of them), and for each service attribute (and each second-level attribute of build/deploy/healthcheck/logging/develop/blkio_config) a document setting just that attribute, plus multi-file inputs (override, extends, include, profiles); each loaded with normalisation {on,off} x path resolution {on,off}; oracle: YAML and JSON rendering succeed, reload (same directory, environment, name, options) succeeds, name/services/networks/volumes/secrets/configs/extensions equal, second rendering byte-identical. non-trivial = the project loaded and meets the precondition; distinct = distinct rendered YAML texts"
}
func (c09) Assumptions() []string {
	return []string{
		"equality is go-cmp with EquateEmpty (nil vs empty container is not a difference) over the fields the statement names; for JSON, extension attributes below the top level are ignored",
		"model fields that no document sets are listed in the evidence notes (field coverage is measured by reflection)",
	}
}

func yamlToMap(s string) map[string]any {
	var m map[string]any
	if err := yaml.Unmarshal([]byte(s), &m); err != nil {
		panic(err)
	}
	return m
}

func deepCopyAny(v any) any {
	switch x := v.(type) {
	case map[string]any:
		n := map[string]any{}
		for k, e := range x {
			n[k] = deepCopyAny(e)
		}
		return n
	case []any:
		n := make([]any, len(x))
		for i, e := range x {
			n[i] = deepCopyAny(e)
		}
		return n
	}
	return v
}

func mapToYAML(m map[string]any) string {
	b, err := yaml.Marshal(m)
	if err != nil {
		panic(err)
	}
	return string(b)
}

type c09doc struct {
	id  string
	scn *Scn
}

// c09singles derives single-attribute documents from a full document.
func c09singles(tag string, base *Scn, mainFile string, svc string) []c09doc {
	full := yamlToMap(base.Files[mainFile])
	svcs := full["services"].(map[string]any)
	orig := svcs[svc].(map[string]any)
	var out []c09doc
	mk := func(id string, body map[string]any) {
		doc := deepCopyAny(full).(map[string]any)
		b := deepCopyAny(body).(map[string]any)
		if _, ok := b["image"]; !ok {
			b["image"] = "img"
		}
		doc["services"].(map[string]any)[svc] = b
		files := map[string]string{}
		for k, v := range base.Files {
			files[k] = v
		}
		files[mainFile] = mapToYAML(doc)
		out = append(out, c09doc{tag + "/" + id, &Scn{Files: files, Main: []string{mainFile}, Env: base.Env}})
	}
	for _, k := range sortedKeys(orig) {
		if k == "image" {
			continue
		}
		mk(k, map[string]any{k: orig[k]})
		if sub, ok := orig[k].(map[string]any); ok {
			switch k {
			case "build", "deploy", "healthcheck", "logging", "develop", "blkio_config":
				for _, sk := range sortedKeys(sub) {
					body := map[string]any{sk: sub[sk]}
					if k == "build" {
						body["context"] = "./web"
					}
					mk(k+"."+sk, map[string]any{k: body})
				}
			}
		}
	}
	return out
}

// c09leafVariants: one document per boolean leaf (flipped) and per numeric leaf (zeroed).
func c09leafVariants(tag string, base *Scn, mainFile string) []c09doc {
	full := yamlToMap(base.Files[mainFile])
	var out []c09doc
	var walk func(v any, path string, set func(any))
	emit := func(id string) {
		files := map[string]string{}
		for k, v := range base.Files {
			files[k] = v
		}
		files[mainFile] = mapToYAML(full)
		out = append(out, c09doc{id, &Scn{Files: files, Main: []string{mainFile}, Env: base.Env}})
	}
	walk = func(v any, path string, set func(any)) {
		switch x := v.(type) {
		case map[string]any:
			for _, k := range sortedKeys(x) {
				k := k
				walk(x[k], path+"."+k, func(n any) { x[k] = n })
			}
		case []any:
			for i := range x {
				i := i
				walk(x[i], fmt.Sprintf("%s[%d]", path, i), func(n any) { x[i] = n })
			}
		case bool:
			set(!x)
			emit("flip/" + tag + path)
			set(x)
		case int:
			if x != 0 {
				set(0)
				emit("zero/" + tag + path)
				set(x)
			}
			if x != -1 {
				set(-1) // "unlimited" / sentinel values
				emit("neg/" + tag + path)
				set(x)
			}
			// integers a float64 cannot hold (renderers and decoders that pass through a float lose them), and the largest one
			set(9007199254740993)
			emit("big53/" + tag + path)
			set(9223372036854775807)
			emit("maxint/" + tag + path)
			set(x)
		case float64:
			if x != 0 {
				set(0.0)
				emit("zero/" + tag + path)
				set(x)
			}
		}
	}
	walk(full, "", func(any) {})
	return out
}

func stripNestedExtensions(p *types.Project) *types.Project {
	n := snapshotOf(p)
	top := n.Extensions
	var walk func(v reflect.Value)
	extT := reflect.TypeOf(types.Extensions{})
	walk = func(v reflect.Value) {
		switch v.Kind() {
		case reflect.Ptr, reflect.Interface:
			if !v.IsNil() {
				walk(v.Elem())
			}
		case reflect.Struct:
			for i := 0; i < v.NumField(); i++ {
				f := v.Field(i)
				if f.Type() == extT && f.CanSet() {
					f.Set(reflect.Zero(extT))
					continue
				}
				walk(f)
			}
		case reflect.Slice:
			for i := 0; i < v.Len(); i++ {
				walk(v.Index(i))
			}
		case reflect.Map:
			if v.Type().Elem().Kind() == reflect.Struct {
				it := v.MapRange()
				for it.Next() {
					e := reflect.New(v.Type().Elem()).Elem()
					e.Set(it.Value())
					walk(e)
					v.SetMapIndex(it.Key(), e)
				}
			} else {
				it := v.MapRange()
				for it.Next() {
					walk(it.Value())
				}
			}
		}
	}
	walk(reflect.ValueOf(n).Elem())
	n.Extensions = top
	return n
}

// fieldsSet records "Type.Field" for every non-zero struct field reachable from v.
func fieldsSet(v reflect.Value, out map[string]bool, depth int) {
	if depth > 30 || !v.IsValid() {
		return
	}
	switch v.Kind() {
	case reflect.Ptr, reflect.Interface:
		if !v.IsNil() {
			fieldsSet(v.Elem(), out, depth+1)
		}
	case reflect.Struct:
		t := v.Type()
		for i := 0; i < v.NumField(); i++ {
			if t.Field(i).PkgPath != "" {
				continue
			}
			f := v.Field(i)
			if !f.IsZero() {
				out[t.Name()+"."+t.Field(i).Name] = true
				fieldsSet(f, out, depth+1)
			}
		}
	case reflect.Slice:
		for i := 0; i < v.Len(); i++ {
			fieldsSet(v.Index(i), out, depth+1)
		}
	case reflect.Map:
		it := v.MapRange()
		for it.Next() {
			fieldsSet(it.Value(), out, depth+1)
		}
	}
}

// allFields lists "Type.Field" for every exported field of every struct type reachable from t.
func allFields(t reflect.Type, out map[string]bool, seen map[reflect.Type]bool) {
	switch t.Kind() {
	case reflect.Ptr, reflect.Slice, reflect.Map:
		allFields(t.Elem(), out, seen)
	case reflect.Struct:
		if seen[t] || !strings.Contains(t.PkgPath(), "compose-go") {
			return
		}
		seen[t] = true
		for i := 0; i < t.NumField(); i++ {
			f := t.Field(i)
			if f.PkgPath != "" || f.Tag.Get("yaml") == "-" {
				continue
			}
			out[t.Name()+"."+f.Name] = true
			allFields(f.Type, out, seen)
		}
	}
}

type c09variant struct {
	name string
	opts []func(*loader.Options)
}

var c09variants = []c09variant{
	{"norm+paths", nil},
	{"norm", []func(*loader.Options){func(o *loader.Options) { o.ResolvePaths = false }}},
	{"raw+paths", []func(*loader.Options){func(o *loader.Options) { o.SkipNormalization = true }}},
	{"raw", []func(*loader.Options){func(o *loader.Options) { o.SkipNormalization = true; o.ResolvePaths = false }}},
}

func c09attr(id string) string {
	parts := strings.Split(id, "/")
	a := parts[len(parts)-1]
	if parts[0] == "flip" || parts[0] == "zero" || parts[0] == "neg" {
		// rich.services.web.depends_on.cache.required -> depends_on.required style key: drop doc, service and map keys that are names
		segs := strings.Split(a, ".")
		if len(segs) > 3 && segs[1] == "services" {
			segs = segs[3:]
		} else if len(segs) > 1 {
			segs = segs[1:]
		}
		a = parts[0] + ":" + strings.Join(segs, ".")
		// index-free: ports[3].target -> ports[].target
		var sb strings.Builder
		skip := false
		for _, r := range a {
			if r == '[' {
				sb.WriteString("[]")
				skip = true
			} else if r == ']' {
				skip = false
			} else if !skip {
				sb.WriteRune(r)
			}
		}
		a = sb.String()
	}
	return a
}

func c09roundtrip(id string, s *Scn, v c09variant, covered map[string]bool) core.Outcome {
	sc := *s
	sc.Opts = append(append([]func(*loader.Options){}, s.Opts...), v.opts...)
	root := sc.Materialise()
	p, err := sc.LoadAt(root)
	if err != nil {
		return core.Outcome{Class: "load-failed", Trivial: true}
	}
	// precondition: enabled services do not reference profile-disabled ones
	for _, svc := range p.Services {
		for d := range svc.DependsOn {
			if _, ok := p.DisabledServices[d]; ok {
				return core.Outcome{Class: "precondition", Trivial: true}
			}
		}
	}
	if covered != nil {
		fieldsSet(reflect.ValueOf(p), covered, 0)
	}
	sample := map[string]any{"doc": id, "variant": v.name, "main": sc.Files[sc.Main[len(sc.Main)-1]]}
	attr := c09attr(id)
	if strings.HasPrefix(id, "dollar/") {
		attr = "dollar-sign-not-escaped"
	}
	y, j, rerr := Render(p)
	if rerr != nil {
		return core.Outcome{Class: "render-fail", Sample: sample, Viol: &core.Violation{Key: "render-error:" + attr,
			Msg: fmt.Sprintf("%s [%s]: rendering fails: %v", id, v.name, rerr)}}
	}
	for _, kind := range []string{"yaml", "json"} {
		text := y
		if kind == "json" {
			text = j
		}
		rs := &Scn{Files: map[string]string{"__rendered.yaml": text}, Main: []string{"__rendered.yaml"}, Env: sc.Env, Opts: sc.Opts, Name: p.Name}
		rs.MaterialiseAt(root)
		p2, err := rs.LoadAt(root)
		if err != nil {
			return core.Outcome{Class: "reload-fail", Sample: sample, Viol: &core.Violation{Key: "reload-error:" + kind + ":" + attr,
				Msg: fmt.Sprintf("%s [%s]: the %s rendering does not load: %v", id, v.name, kind, err), Detail: text}}
		}
		a, b := p, p2
		if kind == "json" {
			a, b = stripNestedExtensions(p), stripNestedExtensions(p2)
		}
		if d := ProjectDiffActive(a, b); d != "" {
			return core.Outcome{Class: "reload-differs", Sample: sample, Viol: &core.Violation{Key: "reload-differs:" + kind + ":" + attr,
				Msg: fmt.Sprintf("%s [%s]: reloading the %s rendering gives a different project: %s", id, v.name, kind, trunc(d, 700)), Detail: text}}
		}
		y2, j2, rerr := Render(p2)
		if rerr != nil {
			return core.Outcome{Class: "rerender-fail", Sample: sample, Viol: &core.Violation{Key: "render-error:" + attr, Msg: fmt.Sprintf("%s: re-rendering fails: %v", id, rerr)}}
		}
		t2 := y2
		if kind == "json" {
			t2 = j2
		}
		if t2 != text {
			return core.Outcome{Class: "rerender-differs", Sample: sample, Viol: &core.Violation{Key: "rerender-differs:" + kind + ":" + attr,
				Msg: fmt.Sprintf("%s [%s]: rendering the reloaded project gives different %s bytes: %s", id, v.name, kind, firstDiff(text, t2))}}
		}
	}
	return core.Outcome{Class: Digest(y), Sample: sample}
}

func c09docs(quick bool) []c09doc {
	corpus := CorpusScns()
	corpus["override-debug"].Opts = []func(*loader.Options){loader.WithProfiles([]string{"debug"})}
	var docs []c09doc
	for _, n := range sortedKeys(corpus) {
		if strings.HasPrefix(n, "bad-") || n == "missing-file" {
			continue // inputs that are there to be rejected
		}
		docs = append(docs, c09doc{"full/" + n, corpus[n]})
	}
	for k, v := range c02extraInputs() {
		docs = append(docs, c09doc{"full/" + k, v})
	}
	docs = append(docs, c09singles("single/web", corpus["rich"], "compose.yaml", "web")...)
	docs = append(docs, c09singles("single/misc", corpus["rich2"], "compose.yaml", "misc")...)
	docs = append(docs, c09singles("single/other", corpus["rich2"], "compose.yaml", "other")...)
	docs = append(docs, c09singles("single/b1", corpus["rich3"], "compose.yaml", "b1")...)
	// value variants: every boolean leaf flipped, every numeric leaf set to zero (omitempty victims)
	variantInputs := []string{"rich", "rich2", "rich3", "wide"}
	if !quick {
		// thorough: the leaves of every loadable single-file corpus input
		variantInputs = nil
		for _, n := range sortedKeys(corpus) {
			if strings.HasPrefix(n, "bad-") || n == "missing-file" || len(corpus[n].Main) != 1 || corpus[n].Main[0] != "compose.yaml" {
				continue
			}
			variantInputs = append(variantInputs, n)
		}
	}
	for _, n := range variantInputs {
		docs = append(docs, c09leafVariants(n, corpus[n], "compose.yaml")...)
	}
	// a literal dollar sign in a value (written $$ in the source)
	docs = append(docs, c09doc{"dollar/label", &Scn{Files: map[string]string{"compose.yaml": "services:\n  s:\n    image: i\n    labels:\n      cost: \"$$5 and $${X} and $$Y\"\n"}, Main: []string{"compose.yaml"}, Env: map[string]string{"X": "xval"}}})
	sort.Slice(docs, func(i, j int) bool { return docs[i].id < docs[j].id })
	return docs
}

func (c09) Run(c *core.Ctx) {
	docs := c09docs(c.Quick())
	covered := map[string]bool{}
	for _, d := range docs {
		for _, v := range c09variants {
			if c.Expired() {
				return
			}
			d, v := d, v
			c.Do(d.id+"@"+v.name, func() core.Outcome { return c09roundtrip(d.id, d.scn, v, covered) })
		}
	}
	if c.Shard == 0 && c.Only == "" {
		// field coverage over the full documents (measured in one worker)
		cov := map[string]bool{}
		for _, d := range docs {
			if strings.HasPrefix(d.id, "full/") {
				root := d.scn.Materialise()
				if p, err := d.scn.LoadAt(root); err == nil {
					fieldsSet(reflect.ValueOf(p), cov, 0)
				}
			}
		}
		all := map[string]bool{}
		allFields(reflect.TypeOf(types.Project{}), all, map[reflect.Type]bool{})
		var missing []string
		for f := range all {
			if !cov[f] {
				missing = append(missing, f)
			}
		}
		sort.Strings(missing)
		c.Count("model_fields_total", int64(len(all)))
		c.Count("model_fields_nonzero_in_some_document", int64(len(all)-len(missing)))
		c.Note("model fields never non-zero in any document: " + strings.Join(missing, " "))
	}
}
