package props

import (
	"fmt"
	"github.com/compose-spec/compose-go/v2/loader"
	"os"
	"sort"
	"strings"

	"github.com/compose-spec/compose-go/v2/types"

	"verifh/core"
)

func init() { core.Register(c04{}) }

type c04 struct{}

func (c04) ID() string    { return "C04" }
func (c04) Level() string { return "exploration" }
func (c04) Rule() string {
	return "for every attribute of a table of 80 service / network / volume / secret / config attributes classified by the rule the statement gives it (scalar replace, mapping merge, sequence append, KEY=VALUE by key in either spelling, wholesale replace, keyed list, mapping of names with a short list spelling): ALL ways to split a final value of 2-3 atoms into a base part and an override part that the rule maps back to it (replacement from another value or from nothing; every base-only/override-only/both assignment of mapping keys; every cut point of a sequence, with and without a duplicate; every spelling on either side), delivered as two files (also under SkipNormalization / ResolvePaths off / SkipConsistencyCheck / SkipDefaultValues) and as two documents of one file (thorough: the override part split again into two, delivered as three files, three documents and mixed); oracle: load(split) == load(single target document). !reset and !override at a representative of each class, on dotted keys and under dotted service / resource names; a later file mentioning one attribute leaves every other attribute of the full corpus document unchanged. distinct = distinct (attribute, split) pairs"
}
func (c04) Assumptions() []string {
	return []string{
		"the rule table in props/c04.go only drives the split generator; the oracle is differential (split sources vs the single target document)",
		"keyed lists are compared as sets of entries (the statement gives no order)",
	}
}

type c04attr struct {
	path  string // dotted path below the root document, "S" = services.s
	class string // scalar | map | seq | kv | whole | keyed | unique
	// atoms
	vals []any    // scalar: [other, final]; seq: atoms; whole: [other, final]
	keys []string // map / kv: keys
	fin  []any    // map: final values per key
	alt  []any    // map: other values per key
	// keyed: entries as (key, base entry, final entry)
	entries [][3]any
	// variant distinguishes two rows on the same path (part of the case id only)
	variant string
}

func c04table() []c04attr {
	sc := func(path string, other, final any) c04attr {
		return c04attr{path: path, class: "scalar", vals: []any{other, final}}
	}
	mp := func(path string, keys []string, fin, alt []any) c04attr {
		return c04attr{path: path, class: "map", keys: keys, fin: fin, alt: alt}
	}
	sq := func(path string, atoms ...any) c04attr { return c04attr{path: path, class: "seq", vals: atoms} }
	un := func(path string, atoms ...any) c04attr { return c04attr{path: path, class: "unique", vals: atoms} }
	kv := func(path string) c04attr {
		return c04attr{path: path, class: "kv", keys: []string{"KA", "KB", "KC"}, fin: []any{"1", "2", "3"}, alt: []any{"x", "y", "z"}}
	}
	wh := func(path string, other, final any) c04attr {
		return c04attr{path: path, class: "whole", vals: []any{other, final}}
	}
	m := func(kv ...any) map[string]any {
		out := map[string]any{}
		for i := 0; i+1 < len(kv); i += 2 {
			out[kv[i].(string)] = kv[i+1]
		}
		return out
	}
	t := []c04attr{
		// scalars replace
		sc("S.image", "old", "new"), sc("S.hostname", "old", "new"), sc("S.user", "old", "new"), sc("S.working_dir", "/old", "/new"),
		sc("S.restart", "always", "on-failure"), sc("S.cpus", 0.25, 0.5), sc("S.mem_limit", "100m", "200m"), sc("S.init", false, true),
		sc("S.privileged", true, false), sc("S.stop_signal", "SIGINT", "SIGTERM"), sc("S.pull_policy", "always", "never"), sc("S.container_name", "old", "new"),
		sc("S.stop_grace_period", "10s", "20s"), sc("S.platform", "linux/amd64", "linux/arm64"), sc("S.pid", "host", "private"), sc("S.scale", 1, 3),
		sc("S.read_only", false, true), sc("S.tty", true, false), sc("S.cpu_shares", 10, 20), sc("S.oom_score_adj", 1, 2), sc("S.shm_size", "1m", "2m"),
		sc("S.domainname", "a.example", "b.example"), sc("S.mac_address", "02:42:ac:11:00:01", "02:42:ac:11:00:02"), sc("S.runtime", "runc", "kata"),
		sc("networks.n1.driver", "bridge", "overlay"), sc("networks.n1.internal", false, true), sc("volumes.named.driver", "local", "nfs"),
		sc("secrets.sec.file", "./old", "./new"), sc("configs.cfg.content", "old", "new"), sc("networks.n1.name", "old", "new"),
		// mappings merge key by key
		mp("S.build", []string{"context", "dockerfile", "target"}, []any{"./ctx", "D.final", "prod"}, []any{"./other", "D.other", "dev"}),
		mp("S.deploy.resources.limits", []string{"cpus", "memory", "pids"}, []any{"0.5", "50M", 10}, []any{"0.1", "10M", 1}),
		mp("S.healthcheck", []string{"interval", "timeout", "retries"}, []any{"10s", "5s", 3}, []any{"1s", "1s", 1}),
		mp("S.logging.options", []string{"max-size", "max-file", "tag"}, []any{"10m", "3", "t"}, []any{"1m", "1", "o"}),
		// the logging block itself: driver and options arriving from either side (same driver wherever both sides name one)
		mp("S.logging", []string{"driver", "options"}, []any{"json-file", m("max-size", "10m")}, []any{"json-file", m("max-size", "10m")}),
		mp("S.deploy.resources", []string{"limits", "reservations"}, []any{m("cpus", "0.5"), m("memory", "20M")}, []any{m("cpus", "0.5"), m("memory", "20M")}),
		mp("S.deploy.update_config", []string{"parallelism", "delay", "order"}, []any{2, "10s", "stop-first"}, []any{1, "1s", "start-first"}),
		mp("S.deploy.restart_policy", []string{"condition", "delay", "max_attempts"}, []any{"on-failure", "5s", 3}, []any{"any", "1s", 1}),
		mp("S.storage_opt", []string{"size", "a", "b"}, []any{"1G", "1", "2"}, []any{"2G", "x", "y"}),
		mp("S.blkio_config", []string{"weight"}, []any{300}, []any{100}),
		mp("S.credential_spec", []string{"file", "registry"}, []any{"f", "r"}, []any{"g", "s"}),
		mp("networks.n1.driver_opts", []string{"o1", "o2", "o3"}, []any{"1", "2", "3"}, []any{"x", "y", "z"}),
		mp("volumes.named.driver_opts", []string{"type", "o", "device"}, []any{"nfs", "addr=1", ":/x"}, []any{"tmpfs", "addr=2", ":/y"}),
		mp("networks.n1.ipam", []string{"driver"}, []any{"default"}, []any{"custom"}),
		mp("S.ulimits", []string{"nofile", "nproc", "core"}, []any{m("soft", 1, "hard", 2), 5, 7}, []any{m("soft", 3, "hard", 4), 6, 8}),
		mp("S.networks.n1", []string{"ipv4_address", "priority"}, []any{"10.0.0.5", 5}, []any{"10.0.0.6", 6}),
		// plain sequences append
		sq("S.security_opt", "label=a", "label=b", "label=c"), sq("S.group_add", "g1", "g2", "g3"), sq("S.device_cgroup_rules", "c 1:3 mr", "a 7:* rmw", "c 1:5 r"),
		sq("S.external_links", "l1", "l2", "l3"), sq("S.volumes_from", "container:c1", "container:c2", "container:c3"),
		sq("S.build.cache_from", "c1", "c2", "c3"), sq("S.build.platforms", "linux/amd64", "linux/arm64", "linux/386"),
		sq("S.post_start", m("command", []any{"a"}), m("command", []any{"b"}), m("command", []any{"c"})),
		sq("S.pre_stop", m("command", []any{"a"}), m("command", []any{"b"}), m("command", []any{"c"})),
		sq("S.deploy.placement.constraints", "node.role==manager", "node.labels.a==b", "node.labels.c==d"),
		// value-keyed sequences (single entry per value)
		un("S.cap_add", "NET_ADMIN", "SYS_TIME", "SYS_PTRACE"), un("S.cap_drop", "ALL", "MKNOD", "CHOWN"), un("S.dns", "1.1.1.1", "2.2.2.2", "3.3.3.3"),
		un("S.dns_search", "a.example", "b.example", "c.example"), un("S.dns_opt", "ndots:1", "timeout:2", "attempts:3"), un("S.tmpfs", "/run", "/tmp", "/var"),
		un("S.expose", "3000", "4000", "5000"), un("S.links", "t", "u", "t:alias"), un("S.profiles", "p1", "p2", "p3"), un("S.build.tags", "t1", "t2", "t3"),
		un("S.networks.n1.aliases", "a1", "a2", "a3"),
		// KEY=VALUE
		kv("S.environment"), kv("S.labels"), kv("S.annotations"), kv("S.sysctls"), kv("S.build.args"), kv("S.build.labels"), kv("S.deploy.labels"),
		kv("networks.n1.labels"), kv("volumes.named.labels"),
		un("S.extra_hosts", "h1=1.1.1.1", "h2=2.2.2.2", "h1=3.3.3.3"),
		// wholesale replace
		wh("S.command", []any{"old", "cmd"}, []any{"new"}), wh("S.entrypoint", []any{"/old"}, []any{"/new", "--flag"}),
		wh("S.healthcheck.test", []any{"CMD", "old"}, []any{"CMD", "new", "arg"}),
		wh("S.command", "old as string", "new string"),
		// mappings of names that also have a short list spelling: an entry that is not refined keeps its (default) value
		{path: "S.depends_on", class: "named", keys: []string{"t", "u"}, vals: []any{m("condition", "service_started", "required", true)},
			fin: []any{m("condition", "service_healthy", "restart", true), nil}, alt: []any{nil, m("condition", "service_completed_successfully", "required", false)}},
		{path: "S.networks", class: "named", keys: []string{"n1", "n2"}, vals: []any{nil},
			fin: []any{m("aliases", []any{"a1"}), nil}, alt: []any{nil, nil}},
		// keyed lists: later entry with the same key wins
		{path: "S.volumes", class: "keyed", entries: [][3]any{{"/t1", "named:/t1", "./src:/t1:ro"}, {"/t2", "./a:/t2", "named:/t2"}, {"/t3", "/abs:/t3", "./b:/t3"}}},
		// the same keys spelled in another way on the earlier side (a target that is not in clean form, a protocol left to its default)
		{path: "S.volumes", variant: "~key-spellings", class: "keyed", entries: [][3]any{{"/t1", "named:/t1/", "./src:/t1:ro"}, {"/t2", "./a:/t2/./", "named:/t2"}, {"/t3", "/abs:/t3", "./b:/x/../t3"}}},
		{path: "S.ports", variant: "~key-spellings", class: "keyed", entries: [][3]any{{"3000", "8000:3000/tcp", "8000:3000"}, {"3001", "8001:3001", "8001:3001/tcp"},
			{"3002", "8002:3002", m("target", 3002, "published", "8002", "mode", "host")}, {"3003", m("target", 3003, "published", "8003", "protocol", "tcp"), m("target", 3003, "published", "8003", "mode", "host")}}},
		{path: "S.ports", class: "keyed", entries: [][3]any{{"3000", "8000:3000", "8000:3000"}, {"3001", "8001:3001/udp", "8001:3001/udp"}, {"3002", "127.0.0.1:8002:3002", "127.0.0.1:8002:3002"}}},
		{path: "S.devices", class: "keyed", entries: [][3]any{{"/dev/b", "/dev/a:/dev/b", "/dev/c:/dev/b:r"}, {"/dev/e", "/dev/d:/dev/e", "/dev/f:/dev/e"}}},
		{path: "S.secrets", class: "keyed", entries: [][3]any{{"sec", "sec", m("source", "sec", "mode", 256)}, {"/x", m("source", "sec", "target", "/x"), m("source", "sec2", "target", "/x")},
			{"/run/secrets/sec2", "sec2", m("source", "sec2", "target", "/run/secrets/sec2", "mode", 256)}}},
		{path: "S.configs", class: "keyed", entries: [][3]any{{"/c1", m("source", "cfg", "target", "/c1"), m("source", "cfg2", "target", "/c1")}, {"/c2", m("source", "cfg", "target", "/c2"), m("source", "cfg", "target", "/c2", "mode", 292)},
			// the short form mounts at /<name>: the long form naming that target is the same entry
			{"/cfg", "cfg", m("source", "cfg", "target", "/cfg", "mode", 292)}}},
		{path: "S.env_file", class: "keyed", entries: [][3]any{{"./e.env", "./e.env", m("path", "./e.env", "required", false)}, {"./f.env", m("path", "./f.env", "required", false), "./f.env"}}},
	}
	return t
}

const c04skeleton = `
services:
  t: {image: t}
  u: {image: u}
networks: {n1: {}, n2: {}}
volumes: {named: {}}
secrets: {sec: {file: ./s}, sec2: {file: ./s}}
configs: {cfg: {content: c}, cfg2: {content: d}}
`

// c04doc builds a document with the given value at path (nil = attribute absent).
func c04doc(path string, v any, present bool) map[string]any {
	doc := yamlToMap(c04skeleton)
	svc := map[string]any{"image": "i"}
	doc["services"].(map[string]any)["s"] = svc
	// supporting attributes required next to the attribute under test are part of every document
	if strings.HasPrefix(path, "S.build") {
		svc["build"] = map[string]any{"context": "."}
	}
	if path == "S.healthcheck" {
		svc["healthcheck"] = map[string]any{"test": []any{"CMD", "x"}}
	}
	if strings.HasPrefix(path, "S.logging.options") {
		svc["logging"] = map[string]any{"driver": "json-file"}
	}
	if !present {
		return doc
	}
	segs := strings.Split(path, ".")
	var cur map[string]any
	if segs[0] == "S" {
		cur = svc
		segs = segs[1:]
	} else {
		cur = doc
	}
	for i, sg := range segs {
		if i == len(segs)-1 {
			if ex, ok := cur[sg].(map[string]any); ok {
				if nv, ok := v.(map[string]any); ok {
					// keep supporting keys (e.g. healthcheck.test) next to the value under test
					for k, x := range nv {
						ex[k] = x
					}
					break
				}
			}
			cur[sg] = v
			break
		}
		nx, ok := cur[sg].(map[string]any)
		if !ok || nx == nil {
			nx = map[string]any{}
			cur[sg] = nx
		}
		cur = nx
	}
	if false && strings.HasPrefix(path, "S.build") && path != "S.build" {
		b := svc["build"].(map[string]any)
		if _, ok := b["context"]; !ok {
			b["context"] = "."
		}
	}
	return doc
}

// overrideDoc builds an override document that mentions only the attribute.
func c04over(path string, v any) map[string]any {
	doc := map[string]any{}
	segs := strings.Split(path, ".")
	var cur map[string]any = doc
	if segs[0] == "S" {
		svc := map[string]any{}
		doc["services"] = map[string]any{"s": svc}
		cur = svc
		segs = segs[1:]
	}
	for i, sg := range segs {
		if i == len(segs)-1 {
			cur[sg] = v
			break
		}
		nx := map[string]any{}
		cur[sg] = nx
		cur = nx
	}
	return doc
}

type c04split struct {
	id          string
	base        any
	basePresent bool
	over        any
	target      any
}

func kvList(keys []string, vals []any) []any {
	var out []any
	for i, k := range keys {
		out = append(out, fmt.Sprintf("%s=%v", k, vals[i]))
	}
	return out
}
func kvMap(keys []string, vals []any) map[string]any {
	out := map[string]any{}
	for i, k := range keys {
		out[k] = vals[i]
	}
	return out
}

func c04splits(a c04attr) []c04split {
	var out []c04split
	switch a.class {
	case "scalar", "whole":
		out = append(out, c04split{"from-other", a.vals[0], true, a.vals[1], a.vals[1]})
		out = append(out, c04split{"from-nothing", nil, false, a.vals[1], a.vals[1]})
		out = append(out, c04split{"same", a.vals[1], true, a.vals[1], a.vals[1]})
	case "map", "kv":
		n := len(a.keys)
		tot := 1
		for i := 0; i < n; i++ {
			tot *= 3
		}
		for code := 0; code < tot; code++ {
			var bk, ok []string
			var bv, ov []any
			x := code
			for i := 0; i < n; i++ {
				switch x % 3 {
				case 0: // base only
					bk, bv = append(bk, a.keys[i]), append(bv, a.fin[i])
				case 1: // override only
					ok, ov = append(ok, a.keys[i]), append(ov, a.fin[i])
				case 2: // both, override final
					bk, bv = append(bk, a.keys[i]), append(bv, a.alt[i])
					ok, ov = append(ok, a.keys[i]), append(ov, a.fin[i])
				}
				x /= 3
			}
			if len(ok) == 0 {
				continue
			}
			target := kvMap(a.keys, a.fin)
			if a.class == "map" {
				out = append(out, c04split{fmt.Sprintf("keys%d", code), kvMap(bk, bv), len(bk) > 0, kvMap(ok, ov), target})
				continue
			}
			for sp := 0; sp < 4; sp++ { // spelling of base / override: list or mapping
				var b, o any
				if sp&1 == 0 {
					b = kvList(bk, bv)
				} else {
					b = kvMap(bk, bv)
				}
				if sp&2 == 0 {
					o = kvList(ok, ov)
				} else {
					o = kvMap(ok, ov)
				}
				if a.path == "S.extra_hosts" {
					// host lists use = or : between host and address in list spelling
				}
				out = append(out, c04split{fmt.Sprintf("keys%d-sp%d", code, sp), b, len(bk) > 0, o, target})
			}
		}
	case "named":
		// a.vals[0] is the long spelling of the default entry; nil in fin/alt means "default"
		def := a.vals[0]
		long := func(v any) any {
			if v == nil {
				return def
			}
			return v
		}
		n := len(a.keys)
		tot := 1
		for i := 0; i < n; i++ {
			tot *= 3
		}
		target := map[string]any{}
		for i, k := range a.keys {
			target[k] = long(a.fin[i])
		}
		// spellings of one side: the mapping, and the short list when every entry is a default
		spell := func(ks []string, vs []any) []any {
			mp := map[string]any{}
			allDef := true
			var lst []any
			for i, k := range ks {
				mp[k] = long(vs[i])
				lst = append(lst, k)
				if vs[i] != nil {
					allDef = false
				}
			}
			out := []any{mp}
			if allDef && len(ks) > 0 {
				out = append(out, lst)
			}
			return out
		}
		for code := 0; code < tot; code++ {
			var bk, ok []string
			var bv, ov []any
			x := code
			for i := 0; i < n; i++ {
				switch x % 3 {
				case 0:
					bk, bv = append(bk, a.keys[i]), append(bv, a.fin[i])
				case 1:
					ok, ov = append(ok, a.keys[i]), append(ov, a.fin[i])
				case 2:
					bk, bv = append(bk, a.keys[i]), append(bv, a.alt[i])
					ok, ov = append(ok, a.keys[i]), append(ov, a.fin[i])
				}
				x /= 3
			}
			if len(ok) == 0 {
				continue
			}
			for bi, b := range spell(bk, bv) {
				for oi, o := range spell(ok, ov) {
					out = append(out, c04split{fmt.Sprintf("names%d-sp%d%d", code, bi, oi), b, len(bk) > 0, o, target})
				}
			}
		}
	case "seq":
		n := len(a.vals)
		for cut := 0; cut < n; cut++ {
			out = append(out, c04split{fmt.Sprintf("cut%d", cut), append([]any{}, a.vals[:cut]...), cut > 0, append([]any{}, a.vals[cut:]...), append([]any{}, a.vals...)})
		}
		// append with a duplicate: plain sequences keep it
		dup := append(append([]any{}, a.vals[:2]...), a.vals[1:]...)
		out = append(out, c04split{"dup", append([]any{}, a.vals[:2]...), true, append([]any{}, a.vals[1:]...), dup})
		// a later file repeating exactly what is there: still appended
		out = append(out, c04split{"same1", append([]any{}, a.vals[:1]...), true, append([]any{}, a.vals[:1]...), append(append([]any{}, a.vals[:1]...), a.vals[:1]...)})
		out = append(out, c04split{"sameall", append([]any{}, a.vals...), true, append([]any{}, a.vals...), append(append([]any{}, a.vals...), a.vals...)})
	case "unique":
		n := len(a.vals)
		for cut := 0; cut < n; cut++ {
			out = append(out, c04split{fmt.Sprintf("cut%d", cut), append([]any{}, a.vals[:cut]...), cut > 0, append([]any{}, a.vals[cut:]...), append([]any{}, a.vals...)})
		}
		// a repeated value stays single
		out = append(out, c04split{"dup", append([]any{}, a.vals[:2]...), true, append([]any{}, a.vals[1:]...), append([]any{}, a.vals...)})
		out = append(out, c04split{"sameall", append([]any{}, a.vals...), true, append([]any{}, a.vals...), append([]any{}, a.vals...)})
		// string spelling of a single value on the override side where the schema allows it
		if strings.HasSuffix(a.path, ".dns") || strings.HasSuffix(a.path, ".dns_search") || strings.HasSuffix(a.path, ".tmpfs") {
			out = append(out, c04split{"string-over", append([]any{}, a.vals[:2]...), true, a.vals[2], append([]any{}, a.vals...)})
			out = append(out, c04split{"string-base", a.vals[0], true, append([]any{}, a.vals[1:]...), append([]any{}, a.vals...)})
		}
	case "keyed":
		n := len(a.entries)
		tot := 1
		for i := 0; i < n; i++ {
			tot *= 3
		}
		for code := 0; code < tot; code++ {
			var b, o, tg []any
			x := code
			for i := 0; i < n; i++ {
				e := a.entries[i]
				switch x % 3 {
				case 0:
					b = append(b, e[2])
				case 1:
					o = append(o, e[2])
				case 2:
					b = append(b, e[1])
					o = append(o, e[2])
				}
				tg = append(tg, e[2])
				x /= 3
			}
			if len(o) == 0 {
				continue
			}
			out = append(out, c04split{fmt.Sprintf("entries%d", code), b, len(b) > 0, o, tg})
		}
	}
	return out
}

// sortKeyedLists makes list order irrelevant for lists that are keyed by the statement.
func sortKeyedLists(p *types.Project) {
	for n, s := range p.Services {
		sort.SliceStable(s.Volumes, func(i, j int) bool { return s.Volumes[i].Target < s.Volumes[j].Target })
		sort.SliceStable(s.Ports, func(i, j int) bool {
			return fmt.Sprint(s.Ports[i].Target, s.Ports[i].Protocol, s.Ports[i].Published) < fmt.Sprint(s.Ports[j].Target, s.Ports[j].Protocol, s.Ports[j].Published)
		})
		sort.SliceStable(s.Devices, func(i, j int) bool { return s.Devices[i].Target < s.Devices[j].Target })
		sort.SliceStable(s.Secrets, func(i, j int) bool {
			return s.Secrets[i].Target+s.Secrets[i].Source < s.Secrets[j].Target+s.Secrets[j].Source
		})
		sort.SliceStable(s.Configs, func(i, j int) bool {
			return s.Configs[i].Target+s.Configs[i].Source < s.Configs[j].Target+s.Configs[j].Source
		})
		sort.SliceStable(s.EnvFiles, func(i, j int) bool { return s.EnvFiles[i].Path < s.EnvFiles[j].Path })
		for _, l := range []*[]string{(*[]string)(&s.CapAdd), (*[]string)(&s.CapDrop), (*[]string)(&s.DNS), (*[]string)(&s.DNSSearch), &s.DNSOpts, (*[]string)(&s.Tmpfs), (*[]string)(&s.Expose), &s.Links, &s.Profiles} {
			sort.Strings(*l)
		}
		if s.Build != nil {
			sort.Strings(s.Build.Tags)
		}
		for _, nc := range s.Networks {
			if nc != nil {
				sort.Strings(nc.Aliases)
			}
		}
		p.Services[n] = s
	}
}

func c04load(files map[string]string, main []string, opts ...func(*loader.Options)) (*types.Project, error) {
	files["s"] = "x"
	files["e.env"] = "E=1\n"
	files["f.env"] = "F=1\n"
	s := &Scn{Files: files, Main: main, Opts: opts}
	root := s.Materialise()
	p, err := s.LoadAt(root)
	if err == nil {
		p = relocate(p)
		sortKeyedLists(p)
		nilZeroPtrs(p)
	}
	return p, err
}

// c04rename gives the service and the resources names containing dots (legal, and escaped inside tree paths).
func c04rename(doc string) string {
	r := strings.NewReplacer("\n    s:\n", "\n    web.api.v2:\n", "\n    n1:", "\n    net.one:", "\n    named:", "\n    vol.data.v1:", "\n    sec:", "\n    db.password:", "\n    cfg:", "\n    nginx.conf:",
		"named:/", "vol.data.v1:/", "source: sec\n", "source: db.password\n", "source: cfg\n", "source: nginx.conf\n", "- sec\n", "- db.password\n")
	return r.Replace(doc)
}

func (c04) Run(c *core.Ctx) {
	table := c04table()
	for _, a := range table {
		for _, sp := range c04splits(a) {
			for _, delivery := range []string{"files", "documents", "files-dotted-names", "files/SkipNormalization", "files/NoResolvePaths", "files/SkipConsistencyCheck", "files/SkipDefaultValues"} {
				if c.Expired() {
					return
				}
				a, sp, delivery := a, sp, delivery
				id := fmt.Sprintf("%s%s/%s/%s/%s", a.path, a.variant, a.class, sp.id, delivery)
				c.Do(id, func() core.Outcome {
					target := mapToYAML(c04doc(a.path, sp.target, true))
					base := mapToYAML(c04doc(a.path, sp.base, sp.basePresent))
					over := mapToYAML(c04over(a.path, sp.over))
					if delivery == "files-dotted-names" {
						target, base, over = c04rename(target), c04rename(base), c04rename(over)
					}
					var ps *types.Project
					var errS error
					// the merge rules do not depend on which later loader stages run: same oracle under each option
					var lopts []func(*loader.Options)
					switch delivery {
					case "files/SkipNormalization":
						lopts = append(lopts, func(o *loader.Options) { o.SkipNormalization = true })
					case "files/NoResolvePaths":
						lopts = append(lopts, func(o *loader.Options) { o.ResolvePaths = false })
					case "files/SkipConsistencyCheck":
						lopts = append(lopts, func(o *loader.Options) { o.SkipConsistencyCheck = true })
					case "files/SkipDefaultValues":
						lopts = append(lopts, func(o *loader.Options) { o.SkipDefaultValues = true })
					}
					if delivery != "documents" {
						ps, errS = c04load(map[string]string{"base.yaml": base, "over.yaml": over}, []string{"base.yaml", "over.yaml"}, lopts...)
					} else {
						ps, errS = c04load(map[string]string{"base.yaml": base + "---\n" + over}, []string{"base.yaml"})
					}
					pt, errT := c04load(map[string]string{"base.yaml": target}, []string{"base.yaml"}, lopts...)
					sample := map[string]any{"attribute": a.path, "split": sp.id, "base": base, "override": over, "target": target}
					if pe, ok := errS.(*core.PanicError); ok {
						return core.Outcome{Class: "panic", Sample: sample, Viol: &core.Violation{Key: "panic@" + pe.Site, Msg: id + ": " + pe.Error(), Detail: pe.Stack}}
					}
					if errT != nil {
						if os.Getenv("C04_DEBUG") != "" {
							fmt.Fprintf(os.Stderr, "C04DBG target-rejected %s: %s\n", id, trunc(errT.Error(), 140))
						}
						c.Count("target_documents_rejected", 1)
						return core.Outcome{Class: "target-rejected:" + trunc(errT.Error(), 60), Trivial: true}
					}
					if errS != nil {
						return core.Outcome{Class: "rej", Sample: sample, Viol: &core.Violation{Key: "split-rejected:" + a.path + ":" + splitClass(sp.id),
							Msg: fmt.Sprintf("%s: the split sources are rejected (%v) although the merged document loads", id, errS)}}
					}
					if d := ProjectDiff(pt, ps); d != "" {
						return core.Outcome{Class: "diff", Sample: sample, Viol: &core.Violation{Key: "merge-differs:" + a.path + ":" + splitClass(sp.id),
							Msg: fmt.Sprintf("%s: merging base and override does not give the model of the merged document: %s", id, trunc(d, 600))}}
					}
					return core.Outcome{Class: a.path + "/" + sp.id + "/" + delivery, Sample: sample}
				})
			}
		}
	}
	if !c.Quick() {
		c04threeWay(c, table)
	}
	c04tags(c)
	c04preserve(c)
}

// c04splitTwo splits an override value into two later parts that the rules map back to it: every bipartition of the keys
// of a mapping, every cut of a sequence.
func c04splitTwo(v any) [][2]any {
	var out [][2]any
	switch x := v.(type) {
	case map[string]any:
		ks := sortedKeys(x)
		if len(ks) < 2 {
			return nil
		}
		for mask := 1; mask < 1<<len(ks)-1; mask++ {
			a, b := map[string]any{}, map[string]any{}
			for i, k := range ks {
				if mask&(1<<i) != 0 {
					a[k] = x[k]
				} else {
					b[k] = x[k]
				}
			}
			out = append(out, [2]any{a, b})
		}
	case []any:
		for cut := 1; cut < len(x); cut++ {
			out = append(out, [2]any{append([]any{}, x[:cut]...), append([]any{}, x[cut:]...)})
		}
	}
	return out
}

// c04threeWay (thorough): the override part of every split is split again, and base + two overrides are delivered as
// three files, as three documents, and mixed (two documents, then a file).
func c04threeWay(c *core.Ctx, table []c04attr) {
	for _, a := range table {
		if a.class == "named" || a.class == "whole" || a.class == "scalar" {
			continue // a short list cannot be cut without changing what its names default to; replaced values do not add up
		}
		for _, sp := range c04splits(a) {
			for pi, parts := range c04splitTwo(sp.over) {
				for _, delivery := range []string{"files3", "documents3", "mixed"} {
					if c.Expired() {
						return
					}
					a, sp, parts, delivery := a, sp, parts, delivery
					id := fmt.Sprintf("%s%s/%s/%s/part%d/%s", a.path, a.variant, a.class, sp.id, pi, delivery)
					c.Do(id, func() core.Outcome {
						target := mapToYAML(c04doc(a.path, sp.target, true))
						base := mapToYAML(c04doc(a.path, sp.base, sp.basePresent))
						o1 := mapToYAML(c04over(a.path, parts[0]))
						o2 := mapToYAML(c04over(a.path, parts[1]))
						var ps *types.Project
						var errS error
						switch delivery {
						case "files3":
							ps, errS = c04load(map[string]string{"base.yaml": base, "o1.yaml": o1, "o2.yaml": o2}, []string{"base.yaml", "o1.yaml", "o2.yaml"})
						case "documents3":
							ps, errS = c04load(map[string]string{"base.yaml": base + "---\n" + o1 + "---\n" + o2}, []string{"base.yaml"})
						default:
							ps, errS = c04load(map[string]string{"base.yaml": base + "---\n" + o1, "o2.yaml": o2}, []string{"base.yaml", "o2.yaml"})
						}
						pt, errT := c04load(map[string]string{"base.yaml": target}, []string{"base.yaml"})
						sample := map[string]any{"attribute": a.path, "split": sp.id, "base": base, "override1": o1, "override2": o2, "target": target}
						if pe, ok := errS.(*core.PanicError); ok {
							return core.Outcome{Class: "panic", Sample: sample, Viol: &core.Violation{Key: "panic@" + pe.Site, Msg: id + ": " + pe.Error(), Detail: pe.Stack}}
						}
						if errT != nil {
							return core.Outcome{Class: "target-rejected", Trivial: true}
						}
						if errS != nil {
							return core.Outcome{Class: "rej", Sample: sample, Viol: &core.Violation{Key: "split-rejected:" + a.path + ":" + splitClass(sp.id) + ":three-way",
								Msg: fmt.Sprintf("%s: the split sources are rejected (%v) although the merged document loads", id, errS)}}
						}
						if d := ProjectDiff(pt, ps); d != "" {
							return core.Outcome{Class: "diff", Sample: sample, Viol: &core.Violation{Key: "merge-differs:" + a.path + ":" + splitClass(sp.id) + ":three-way",
								Msg: fmt.Sprintf("%s: merging base and two overrides does not give the model of the merged document: %s", id, trunc(d, 600))}}
						}
						return core.Outcome{Class: a.path + "/" + sp.id + "/" + delivery, Sample: sample}
					})
				}
			}
		}
	}
}

func splitClass(id string) string {
	for i, r := range id {
		if r >= '0' && r <= '9' {
			return id[:i]
		}
	}
	return id
}

// !reset removes the attribute; !override replaces it without merging.
func c04tags(c *core.Ctx) {
	type tc struct {
		name, base, over, target string
	}
	svc := func(body string) string { return "services:\n  s:\n    image: i\n" + body }
	cases := []tc{
		{"reset-scalar", svc("    hostname: h\n"), "services:\n  s:\n    hostname: !reset null\n", svc("")},
		{"reset-mapping", svc("    environment: {A: \"1\", B: \"2\"}\n"), "services:\n  s:\n    environment: !reset {}\n", svc("")},
		{"reset-sequence", svc("    ports: [\"8000:3000\"]\n"), "services:\n  s:\n    ports: !reset []\n", svc("")},
		{"reset-nested-key", svc("    deploy:\n      resources:\n        limits: {cpus: \"0.5\", memory: 50M}\n"), "services:\n  s:\n    deploy:\n      resources:\n        limits:\n          memory: !reset null\n", svc("    deploy:\n      resources:\n        limits: {cpus: \"0.5\"}\n")},
		{"reset-kv-key", svc("    environment: {A: \"1\", B: \"2\"}\n"), "services:\n  s:\n    environment:\n      B: !reset null\n", svc("    environment: {A: \"1\"}\n")},
		{"override-sequence", svc("    ports: [\"8000:3000\", \"8001:3001\"]\n"), "services:\n  s:\n    ports: !override [\"9000:4000\"]\n", svc("    ports: [\"9000:4000\"]\n")},
		{"override-mapping", svc("    environment: {A: \"1\", B: \"2\"}\n"), "services:\n  s:\n    environment: !override {C: \"3\"}\n", svc("    environment: {C: \"3\"}\n")},
		{"override-kv-list", svc("    labels: [a=1, b=2]\n"), "services:\n  s:\n    labels: !override [c=3]\n", svc("    labels: [c=3]\n")},
		{"override-volumes", svc("    volumes: [\"./a:/t1\", \"./b:/t2\"]\n"), "services:\n  s:\n    volumes: !override [\"./c:/t3\"]\n", svc("    volumes: [\"./c:/t3\"]\n")},
		{"override-nested", svc("    build:\n      context: .\n      args: {A: \"1\", B: \"2\"}\n"), "services:\n  s:\n    build:\n      args: !override {C: \"3\"}\n", svc("    build:\n      context: .\n      args: {C: \"3\"}\n")},
		{"reset-resource", svc("") + "networks:\n  n1: {driver: bridge, labels: {a: \"1\"}}\n", "networks:\n  n1:\n    labels: !reset {}\n", svc("") + "networks:\n  n1: {driver: bridge}\n"},
		{"reset-then-unrelated-document", svc("    hostname: h\n    ports: [\"8000:3000\"]\n"), "services:\n  s:\n    ports: !reset []\n---\nservices:\n  s:\n    user: u\n", svc("    hostname: h\n    user: u\n")},
		{"override-then-append-document", svc("    ports: [\"8000:3000\"]\n"), "services:\n  s:\n    ports: !override [\"9000:4000\"]\n---\nservices:\n  s:\n    ports: [\"9001:4001\"]\n", svc("    ports: [\"9000:4000\", \"9001:4001\"]\n")},
	}
	// the tags on a dotted key as well (a label key, an option key): the path to a tagged node may contain dots anywhere
	cases = append(cases,
		tc{"reset-dotted-label-key", svc("    labels: {com.example.a: \"1\", com.example.b: \"2\"}\n"), "services:\n  s:\n    labels:\n      com.example.b: !reset null\n", svc("    labels: {com.example.a: \"1\"}\n")},
		tc{"override-below-dotted-key", svc("    deploy:\n      labels: {a.b: \"1\"}\n    sysctls: {net.core.somaxconn: 1, net.ipv4.x: 2}\n"), "services:\n  s:\n    sysctls: !override {net.ipv4.y: 3}\n", svc("    deploy:\n      labels: {a.b: \"1\"}\n    sysctls: {net.ipv4.y: 3}\n")},
	)
	var all []tc
	for _, t := range cases {
		all = append(all, t)
		// and with dotted names for the service and the network
		d := t
		d.name += "/dotted-names"
		ren := strings.NewReplacer("\n  s:\n", "\n  web.api.v2:\n", "\n  n1:", "\n  net.one:")
		d.base, d.over, d.target = ren.Replace(t.base), ren.Replace(t.over), ren.Replace(t.target)
		all = append(all, d)
	}
	for _, tcs := range all {
		for _, delivery := range []string{"files", "documents"} {
			tcs, delivery := tcs, delivery
			id := "tag/" + tcs.name + "/" + delivery
			c.Do(id, func() core.Outcome {
				var ps *types.Project
				var errS error
				if delivery == "files" {
					ps, errS = c04load(map[string]string{"base.yaml": tcs.base, "over.yaml": tcs.over}, []string{"base.yaml", "over.yaml"})
				} else {
					ps, errS = c04load(map[string]string{"base.yaml": tcs.base + "---\n" + tcs.over}, []string{"base.yaml"})
				}
				pt, errT := c04load(map[string]string{"base.yaml": tcs.target}, []string{"base.yaml"})
				sample := map[string]any{"case": id, "base": tcs.base, "override": tcs.over, "target": tcs.target}
				if errT != nil {
					return core.Outcome{Class: "target-rejected", Trivial: true}
				}
				if errS != nil {
					return core.Outcome{Class: "rej", Sample: sample, Viol: &core.Violation{Key: "tag-rejected:" + tcs.name, Msg: id + ": " + errS.Error()}}
				}
				if d := ProjectDiff(pt, ps); d != "" {
					return core.Outcome{Class: "diff", Sample: sample, Viol: &core.Violation{Key: "tag-differs:" + tcs.name, Msg: fmt.Sprintf("%s: %s", id, trunc(d, 600))}}
				}
				return core.Outcome{Class: id, Sample: sample}
			})
		}
	}
}

// A later file mentioning one attribute leaves every other attribute unchanged.
func c04preserve(c *core.Ctx) {
	corpus := CorpusScns()
	for _, docName := range []string{"rich", "rich2", "rich3"} {
		base := corpus[docName]
		svcName := map[string]string{"rich": "web", "rich2": "misc", "rich3": "b1"}[docName]
		mentions := []string{"", "hostname: changed", "user: changed", "stop_signal: SIGQUIT", "working_dir: /changed", "labels: {added.label: x}", "environment: {ADDED: x}"}
		for mi, m := range mentions {
			docName, m, mi := docName, m, mi
			c.Do(fmt.Sprintf("preserve/%s/%d", docName, mi), func() core.Outcome {
				over := "services:\n  " + svcName + ": {" + m + "}\n"
				files := map[string]string{}
				for k, v := range base.Files {
					files[k] = v
				}
				files["over.yaml"] = over
				s1 := &Scn{Files: files, Main: []string{"compose.yaml", "over.yaml"}, Env: base.Env}
				// the same change written into the base document itself
				doc := yamlToMap(base.Files["compose.yaml"])
				svc := doc["services"].(map[string]any)[svcName].(map[string]any)
				if m != "" {
					ov := yamlToMap("x: {" + m + "}")["x"].(map[string]any)
					for k, v := range ov {
						if mm, ok := v.(map[string]any); ok {
							switch ex := svc[k].(type) {
							case map[string]any:
								for kk, vv := range mm {
									ex[kk] = vv
								}
							case []any:
								for kk, vv := range mm {
									ex = append(ex, fmt.Sprintf("%s=%v", kk, vv))
								}
								svc[k] = ex
							case nil:
								svc[k] = mm
							}
						} else {
							svc[k] = v
						}
					}
				}
				files2 := map[string]string{}
				for k, v := range base.Files {
					files2[k] = v
				}
				files2["compose.yaml"] = mapToYAML(doc)
				s2 := &Scn{Files: files2, Main: []string{"compose.yaml"}, Env: base.Env}
				r1, r2 := s1.Materialise(), s2.Materialise()
				p1, e1 := s1.LoadAt(r1)
				p2, e2 := s2.LoadAt(r2)
				if e1 != nil || e2 != nil {
					if e2 != nil {
						return core.Outcome{Class: "target-rejected", Trivial: true}
					}
					return core.Outcome{Class: "rej", Viol: &core.Violation{Key: "preserve:override-rejected:" + docName, Msg: fmt.Sprintf("%s + override {%s}: %v", docName, m, e1)}}
				}
				a, b := relocate(p1), relocate(p2)
				a.ComposeFiles, b.ComposeFiles = nil, nil
				if d := ProjectDiff(b, a); d != "" {
					return core.Outcome{Class: "diff", Viol: &core.Violation{Key: "preserve:unmentioned-attribute-changed:" + docName,
						Msg: fmt.Sprintf("%s with an override mentioning only {%s} changes something else: %s", docName, m, trunc(d, 700))}}
				}
				return core.Outcome{Class: fmt.Sprintf("preserve/%s/%d", docName, mi), Sample: map[string]any{"doc": docName, "override": over}}
			})
		}
	}
}
