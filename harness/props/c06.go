package props

import (
	"fmt"
	"path/filepath"
	"strings"

	"verifh/core"
)

func init() { core.Register(c06{}) }

type c06 struct{}

func (c06) ID() string    { return "C06" }
func (c06) Level() string { return "exploration" }
func (c06) Rule() string {
	return "a model of 3 services (each with a variable-bearing image, a relative build context and a relative bind mount) and a network, volume, file secret, environment-sourced secret and config: every assignment of the services to {main file, included file 1, included file 2} x nesting {flat, chain, diamond} x directory of each included file {same, sub-directory, sibling} x project_directory {absent, relative, absolute} x include syntax {short, long} x environment sources of the included project {none, own .env, one env_file, two env_files, one absolute env_file, a relative and an absolute env_file} x the variable defined in every subset of {parent environment, included environment} x content of the including project read after the include {none, override file, second document}; a variable the parent defines as the empty string against the included project's .env / env_file (also nested); env_file / project_directory of a second-level include written relative to the first-level included project; sibling includes with disjoint and clashing variables (each special case delivered by file name, by content, and by content under a name relative to the working directory); include cycles in 5 more path spellings; conflicting and identical redefinitions; include cycles of length 1..3; an environment-sourced config/secret inside an included file. Oracle: field-level equality with the pasted model (parent environment first, included environment for what it does not define; paths joined with the included project directory); conflict/cycle -> error. distinct = distinct scenario shapes"
}
func (c06) Assumptions() []string {
	return []string{"the pasted model is computed by the reference in props/c06.go from the statement"}
}

type c06scn struct {
	place   [3]int // service i lives in 0 main, 1 inc1, 2 inc2
	nesting int    // 0 flat, 1 chain (main->inc1->inc2), 2 diamond handled separately
	dirKind [2]int // for inc1, inc2: 0 same dir, 1 sub-dir, 2 sibling dir
	projDir int    // 0 absent 1 relative 2 absolute (applies to inc1)
	long    bool
	envSrc  int // 0 none 1 own .env 2 one env_file 3 two env_files (applies to inc1)
	parentV bool
	incV    bool
	late    int // content of the including project that is read after the include was applied: 0 none, 1 an override file, 2 a second document
}

func (s c06scn) id() string {
	return fmt.Sprintf("p%v/n%d/d%v/pd%d/l%v/e%d/pv%v/iv%v/late%d", s.place, s.nesting, s.dirKind, s.projDir, s.long, s.envSrc, s.parentV, s.incV, s.late)
}

var c06svc = []string{"a", "b", "c"}

func c06svcBody(name string) string {
	return fmt.Sprintf("  %s:\n    image: \"img-%s:${V}\"\n    build: {context: ./ctx-%s}\n    volumes: [\"./data-%s:/d\"]\n", name, name, name, name)
}

func c06incDir(k, kind int) string {
	switch kind {
	case 1:
		return fmt.Sprintf("proj/inc%d", k)
	case 2:
		return fmt.Sprintf("proj-sib%d", k) // a sibling whose name starts with the project directory's name
	}
	return "proj"
}

func (c06) Run(c *core.Ctx) {
	for place := 0; place < 27; place++ {
		var pl [3]int
		x := place
		for i := 0; i < 3; i++ {
			pl[i] = x % 3
			x /= 3
		}
		uses1, uses2 := false, false
		for _, p := range pl {
			if p == 1 {
				uses1 = true
			}
			if p == 2 {
				uses2 = true
			}
		}
		if !uses1 {
			continue // scenarios without included file 1 are covered by the symmetric ones
		}
		for nesting := 0; nesting < 2; nesting++ {
			if nesting == 1 && !uses2 {
				continue
			}
			for d1 := 0; d1 < 3; d1++ {
				for d2 := 0; d2 < 3; d2++ {
					if !uses2 && d2 != 0 {
						continue
					}
					for pd := 0; pd < 3; pd++ {
						for _, long := range []bool{false, true} {
							if pd != 0 && !long {
								continue
							}
							for envSrc := 0; envSrc < 6; envSrc++ {
								if envSrc >= 2 && !long {
									continue
								}
								for pv := 0; pv < 2; pv++ {
									for iv := 0; iv < 2; iv++ {
										if iv == 1 && envSrc == 0 {
											continue
										}
										if c.Quick() && (d1+d2+pd+envSrc) > 0 && place%3 != 1 && !(pl == [3]int{1, 2, 0}) {
											// quick: the full cross product for one third of the placements; all placements with default dimensions
											continue
										}
										for late := 0; late < 3; late++ {
											if late > 0 && iv == 0 {
												continue // later content matters when the included project defines the variable itself
											}
											s := c06scn{pl, nesting, [2]int{d1, d2}, pd, long, envSrc, pv == 1, iv == 1, late}
											if c.Expired() {
												return
											}
											c.Do("inc/"+s.id(), func() core.Outcome { return c06check(s) })
										}
									}
								}
							}
						}
					}
				}
			}
		}
	}
	c06special(c)
}

func c06check(s c06scn) core.Outcome {
	files := map[string]string{}
	dirs := []string{"proj", c06incDir(1, s.dirKind[0]), c06incDir(2, s.dirKind[1])}
	incFile := []string{"proj/compose.yaml", dirs[1] + "/inc1.yaml", dirs[2] + "/inc2.yaml"}
	bodies := [3]string{}
	for i, n := range c06svc {
		bodies[s.place[i]] += c06svcBody(n)
	}
	// the network travels with a, the volume with b, secret and config with c
	res := [3]string{}
	res[s.place[0]] += "networks:\n  net: {driver: bridge}\n"
	res[s.place[1]] += "volumes:\n  vol: {labels: {l: \"1\"}}\n"
	// an environment-sourced secret travels with a: its value is what the variable is worth where it is declared
	secs := [3]string{}
	secs[s.place[2]] += "  sec: {file: ./sec.txt}\n"
	secs[s.place[0]] += "  esec: {environment: V}\n"
	for i := range secs {
		if secs[i] != "" {
			res[i] += "secrets:\n" + secs[i]
		}
	}
	res[s.place[2]] += "configs:\n  cfg: {file: ./cfg.txt}\n"
	uses2 := bodies[2] != ""
	rel := func(fromDir, to string) string {
		r, _ := filepath.Rel(fromDir, to)
		if !strings.HasPrefix(r, ".") {
			r = "./" + r
		}
		return r
	}
	// project directory of inc1
	pd1 := dirs[1]
	pdLine := ""
	switch s.projDir {
	case 1:
		pd1 = "proj/pd"
		pdLine = "    project_directory: ./pd\n"
	case 2:
		pd1 = "abs-pd"
		pdLine = "    project_directory: <ROOT>/abs-pd\n"
	}
	files[pd1+"/.keep"] = "" // the project directory exists
	// environment of inc1
	envLines := ""
	incVal := ""
	switch s.envSrc {
	case 1:
		if s.incV {
			files[pd1+"/.env"] = "V=from-dotenv\nOTHER=o\n"
			incVal = "from-dotenv"
		} else {
			files[pd1+"/.env"] = "OTHER=o\n"
		}
	case 2:
		envLines = "    env_file: ./envs/one.env\n"
		files["proj/envs/one.env"] = "OTHER=o\n"
		if s.incV {
			files["proj/envs/one.env"] = "V=from-envfile\nOTHER=o\n"
			incVal = "from-envfile"
		}
	case 4:
		// the declared env file given as an absolute path
		envLines = "    env_file: <ROOT>/proj/envs/one.env\n"
		files["proj/envs/one.env"] = "OTHER=o\n"
		if s.incV {
			files["proj/envs/one.env"] = "V=from-envfile\nOTHER=o\n"
			incVal = "from-envfile"
		}
	case 5:
		// a relative and an absolute one: the later file wins
		envLines = "    env_file: [./envs/one.env, <ROOT>/proj/envs/two.env]\n"
		files["proj/envs/one.env"] = "OTHER=o\n"
		files["proj/envs/two.env"] = "OTHER2=o\n"
		if s.incV {
			files["proj/envs/one.env"] = "V=from-one\n"
			files["proj/envs/two.env"] = "V=from-two\n"
			incVal = "from-two"
		}
	case 3:
		envLines = "    env_file: [./envs/one.env, ./envs/two.env]\n"
		files["proj/envs/one.env"] = "OTHER=o\n"
		files["proj/envs/two.env"] = "OTHER2=o\n"
		if s.incV {
			files["proj/envs/one.env"] = "V=from-one\n"
			files["proj/envs/two.env"] = "V=from-two\n"
			incVal = "from-two"
		}
	}
	inc1Entry := ""
	if s.long || pdLine != "" || envLines != "" {
		inc1Entry = "  - path: " + rel("proj", incFile[1]) + "\n" + pdLine + envLines
	} else {
		inc1Entry = "  - " + rel("proj", incFile[1]) + "\n"
	}
	mainDoc := "include:\n" + inc1Entry
	inc1Doc := ""
	if uses2 {
		if s.nesting == 0 {
			mainDoc += "  - " + rel("proj", incFile[2]) + "\n"
		} else {
			inc1Doc = "include:\n  - " + rel(pd1, incFile[2]) + "\n"
			// nested include paths are relative to the including project directory
		}
	}
	mainSvc := bodies[0]
	if mainSvc == "" {
		mainSvc = "  main-only:\n    image: m\n"
	}
	files[incFile[0]] = mainDoc + "services:\n" + mainSvc + res[0]
	if bodies[1] != "" || inc1Doc != "" {
		b := bodies[1]
		doc := inc1Doc
		if b != "" {
			doc += "services:\n" + b
		}
		files[incFile[1]] = doc + res[1]
	}
	if uses2 {
		files[incFile[2]] = "services:\n" + bodies[2] + res[2]
	}
	parentEnv := map[string]string{}
	if s.parentV {
		parentEnv["V"] = "from-parent"
	}
	mainFiles := []string{incFile[0]}
	// what the including project itself says after the include: it sees the parent environment only
	lateDoc := "services:\n  late:\n    image: \"late:${V}\"\n"
	switch s.late {
	case 1:
		files["proj/over.yaml"] = lateDoc
		mainFiles = append(mainFiles, "proj/over.yaml")
	case 2:
		files[incFile[0]] += "---\n" + lateDoc
	}
	scn := &Scn{Files: files, Main: mainFiles, WD: "proj", Env: parentEnv}
	root := scn.Materialise()
	if s.projDir == 2 || s.envSrc >= 4 {
		for k, v := range files {
			files[k] = strings.ReplaceAll(v, "<ROOT>", root)
		}
		scn.MaterialiseAt(root)
	}
	p, err := scn.LoadAt(root)
	sample := map[string]any{"scenario": s.id(), "files": files, "env": parentEnv}
	if err != nil {
		if pe, ok := err.(*core.PanicError); ok {
			return core.Outcome{Class: "panic", Sample: sample, Viol: &core.Violation{Key: "panic@" + pe.Site, Msg: s.id() + ": " + pe.Error(), Detail: pe.Stack}}
		}
		return core.Outcome{Class: "err", Sample: sample, Viol: &core.Violation{Key: fmt.Sprintf("include-rejected:n%d:pd%d:e%d", s.nesting, s.projDir, s.envSrc), Msg: s.id() + ": " + err.Error()}}
	}
	// expectations per service
	projDirOf := []string{"proj", pd1, dirs[2]}
	valueAt := func(where int) string {
		wantV := ""
		if s.parentV {
			wantV = "from-parent"
		} else if where == 1 || (where == 2 && s.nesting == 1) {
			// included project 1's environment also feeds what it includes itself
			wantV = incVal
		}
		if where == 2 && s.nesting == 0 && !s.parentV && s.envSrc == 1 && dirs[2] == pd1 {
			// included file 2 lives in the directory whose .env is included project 1's: it is its own .env too
			wantV = incVal
		}
		return wantV
	}
	if s.late != 0 {
		want := "late:"
		if s.parentV {
			want += "from-parent"
		}
		if got := p.Services["late"].Image; got != want {
			return core.Outcome{Class: "late", Sample: sample, Viol: &core.Violation{Key: fmt.Sprintf("included-environment-leaks-into-includer:late%d", s.late),
				Msg: fmt.Sprintf("%s: service late of the including project (read after the include) has image %q, expected %q", s.id(), got, want)}}
		}
	}
	if es, ok := p.Secrets["esec"]; !ok || es.Content != valueAt(s.place[0]) || es.Environment != "V" {
		return core.Outcome{Class: "esec", Sample: sample, Viol: &core.Violation{Key: fmt.Sprintf("wrong-secret-value:where%d:n%d", s.place[0], s.nesting),
			Msg: fmt.Sprintf("%s: secret esec (environment: V) declared in file %d has content %q, expected %q", s.id(), s.place[0], es.Content, valueAt(s.place[0]))}}
	}
	for i, n := range c06svc {
		svc, ok := p.Services[n]
		if !ok {
			return core.Outcome{Class: "miss", Sample: sample, Viol: &core.Violation{Key: "included-service-missing", Msg: s.id() + ": service " + n + " missing"}}
		}
		where := s.place[i]
		wantV := valueAt(where)
		if svc.Image != "img-"+n+":"+wantV {
			return core.Outcome{Class: "img", Sample: sample, Viol: &core.Violation{Key: fmt.Sprintf("wrong-interpolation:where%d:n%d", where, s.nesting),
				Msg: fmt.Sprintf("%s: service %s image %q, expected %q", s.id(), n, svc.Image, "img-"+n+":"+wantV)}}
		}
		base := filepath.Join(root, projDirOf[where])
		if svc.Build == nil || svc.Build.Context != filepath.Join(base, "ctx-"+n) {
			got := ""
			if svc.Build != nil {
				got = svc.Build.Context
			}
			return core.Outcome{Class: "ctx", Sample: sample, Viol: &core.Violation{Key: fmt.Sprintf("wrong-path:build.context:where%d:pd%d", where, s.projDir),
				Msg: fmt.Sprintf("%s: service %s build context %q, expected %q", s.id(), n, got, filepath.Join(base, "ctx-"+n))}}
		}
		if len(svc.Volumes) != 1 || svc.Volumes[0].Source != filepath.Join(base, "data-"+n) {
			return core.Outcome{Class: "vol", Sample: sample, Viol: &core.Violation{Key: fmt.Sprintf("wrong-path:volume:where%d:pd%d", where, s.projDir),
				Msg: fmt.Sprintf("%s: service %s bind source %v, expected %q", s.id(), n, svc.Volumes, filepath.Join(base, "data-"+n))}}
		}
	}
	if _, ok := p.Networks["net"]; !ok {
		return core.Outcome{Class: "res", Sample: sample, Viol: &core.Violation{Key: "included-resource-missing:network", Msg: s.id() + ": network net missing"}}
	}
	if v, ok := p.Volumes["vol"]; !ok || v.Labels["l"] != "1" {
		return core.Outcome{Class: "res", Sample: sample, Viol: &core.Violation{Key: "included-resource-missing:volume", Msg: s.id() + ": volume vol missing or altered"}}
	}
	secBase := filepath.Join(root, projDirOf[s.place[2]])
	if sec, ok := p.Secrets["sec"]; !ok || sec.File != filepath.Join(secBase, "sec.txt") {
		return core.Outcome{Class: "res", Sample: sample, Viol: &core.Violation{Key: "wrong-path:secret.file", Msg: fmt.Sprintf("%s: secret file %q, expected %q", s.id(), p.Secrets["sec"].File, filepath.Join(secBase, "sec.txt"))}}
	}
	if cfg, ok := p.Configs["cfg"]; !ok || cfg.File != filepath.Join(secBase, "cfg.txt") {
		return core.Outcome{Class: "res", Sample: sample, Viol: &core.Violation{Key: "wrong-path:config.file", Msg: fmt.Sprintf("%s: config file %q", s.id(), p.Configs["cfg"].File)}}
	}
	return core.Outcome{Class: s.id(), Sample: sample}
}

func c06special(c *core.Ctx) {
	type sc struct {
		name    string
		files   map[string]string
		env     map[string]string
		wantErr bool
		check   func(images map[string]string) string
	}
	svc := func(n, img string) string { return fmt.Sprintf("  %s:\n    image: \"%s\"\n", n, img) }
	cases := []sc{
		{name: "siblings-disjoint-variable", files: map[string]string{
			"compose.yaml":     "include:\n  - ./one/compose.yaml\n  - ./two/compose.yaml\nservices:\n" + svc("m", "m"),
			"one/compose.yaml": "services:\n" + svc("one", "img:${ONLY_ONE}"), "one/.env": "ONLY_ONE=1\n",
			"two/compose.yaml": "services:\n" + svc("two", "img:${ONLY_ONE}-${ONLY_TWO}"), "two/.env": "ONLY_TWO=2\n"},
			check: func(im map[string]string) string {
				if im["one"] != "img:1" || im["two"] != "img:-2" {
					return fmt.Sprintf("one=%q two=%q, expected img:1 and img:-2 (a sibling's .env must not leak)", im["one"], im["two"])
				}
				return ""
			}},
		{name: "siblings-clashing-variable", files: map[string]string{
			"compose.yaml":     "include:\n  - ./one/compose.yaml\n  - ./two/compose.yaml\nservices:\n" + svc("m", "m"),
			"one/compose.yaml": "services:\n" + svc("one", "img:${V}"), "one/.env": "V=one\n",
			"two/compose.yaml": "services:\n" + svc("two", "img:${V}"), "two/.env": "V=two\n"},
			check: func(im map[string]string) string {
				if im["one"] != "img:one" || im["two"] != "img:two" {
					return fmt.Sprintf("one=%q two=%q, expected img:one and img:two", im["one"], im["two"])
				}
				return ""
			}},
		{name: "siblings-envfile-then-dotenv", files: map[string]string{
			"compose.yaml": "include:\n  - path: ./one/compose.yaml\n    env_file: ./one.env\n  - ./two/compose.yaml\nservices:\n" + svc("m", "img:${V}"),
			"one.env":      "V=one\n", "one/compose.yaml": "services:\n" + svc("one", "img:${V}"),
			"two/compose.yaml": "services:\n" + svc("two", "img:${V}")},
			check: func(im map[string]string) string {
				if im["one"] != "img:one" || im["two"] != "img:" || im["m"] != "img:" {
					return fmt.Sprintf("one=%q two=%q m=%q, expected img:one, img: and img:", im["one"], im["two"], im["m"])
				}
				return ""
			}},
		// the same file included twice: identical entries bring identical resources; entries whose own environment or
		// project directory makes the resources differ are a redefinition like any other
		{name: "same-file-twice-identical", files: map[string]string{
			"compose.yaml": "include:\n  - path: ./inc/app.yaml\n    env_file: ./one.env\n  - path: ./inc/app.yaml\n    env_file: ./one.env\nservices:\n" + svc("m", "m"),
			"inc/app.yaml": "services:\n" + svc("x", "app:${TAG}"), "one.env": "TAG=1\n"},
			check: func(im map[string]string) string {
				if im["x"] != "app:1" {
					return "x image " + im["x"]
				}
				return ""
			}},
		{name: "conflict-same-file-two-env-files", wantErr: true, files: map[string]string{
			"compose.yaml": "include:\n  - path: ./inc/app.yaml\n    env_file: ./one.env\n  - path: ./inc/app.yaml\n    env_file: ./two.env\nservices:\n" + svc("m", "m"),
			"inc/app.yaml": "services:\n" + svc("x", "app:${TAG}"), "one.env": "TAG=1\n", "two.env": "TAG=2\n"}},
		{name: "conflict-same-file-two-project-directories", wantErr: true, files: map[string]string{
			"compose.yaml": "include:\n  - path: ./inc/app.yaml\n    project_directory: ./pd1\n  - path: ./inc/app.yaml\n    project_directory: ./pd2\nservices:\n" + svc("m", "m"),
			"inc/app.yaml": "services:\n  x:\n    image: x\n    build: {context: ./ctx}\n", "pd1/.keep": "", "pd2/.keep": ""}},
		{name: "conflict-service", wantErr: true, files: map[string]string{
			"compose.yaml": "include:\n  - ./inc.yaml\nservices:\n" + svc("x", "main"), "inc.yaml": "services:\n" + svc("x", "included")}},
		{name: "conflict-network", wantErr: true, files: map[string]string{
			"compose.yaml": "include:\n  - ./inc.yaml\nservices:\n" + svc("m", "m") + "networks:\n  n: {driver: bridge}\n", "inc.yaml": "services:\n" + svc("x", "x") + "networks:\n  n: {driver: overlay}\n"}},
		{name: "conflict-volume", wantErr: true, files: map[string]string{
			"compose.yaml": "include:\n  - ./inc.yaml\nservices:\n" + svc("m", "m") + "volumes:\n  v: {labels: {a: \"1\"}}\n", "inc.yaml": "services:\n" + svc("x", "x") + "volumes:\n  v: {labels: {a: \"2\"}}\n"}},
		{name: "conflict-between-includes", wantErr: true, files: map[string]string{
			"compose.yaml": "include:\n  - ./i1.yaml\n  - ./i2.yaml\nservices:\n" + svc("m", "m"), "i1.yaml": "services:\n" + svc("x", "one"), "i2.yaml": "services:\n" + svc("x", "two")}},
		{name: "conflict-bare-volume-in-main", wantErr: true, files: map[string]string{
			"compose.yaml": "include:\n  - ./inc.yaml\nservices:\n" + svc("m", "m") + "volumes:\n  data:\n", "inc.yaml": "services:\n" + svc("x", "x") + "volumes:\n  data: {driver: nfs}\n"}},
		{name: "conflict-bare-volume-in-include", wantErr: true, files: map[string]string{
			"compose.yaml": "include:\n  - ./inc.yaml\nservices:\n" + svc("m", "m") + "volumes:\n  data: {driver: nfs}\n", "inc.yaml": "services:\n" + svc("x", "x") + "volumes:\n  data:\n"}},
		{name: "conflict-bare-network-between-includes", wantErr: true, files: map[string]string{
			"compose.yaml": "include:\n  - ./i1.yaml\n  - ./i2.yaml\nservices:\n" + svc("m", "m"), "i1.yaml": "services:\n" + svc("one", "one") + "networks:\n  front:\n", "i2.yaml": "services:\n" + svc("two", "two") + "networks:\n  front: {driver: overlay}\n"}},
		{name: "conflict-network-then-bare-between-includes", wantErr: true, files: map[string]string{
			"compose.yaml": "include:\n  - ./i1.yaml\n  - ./i2.yaml\nservices:\n" + svc("m", "m"), "i1.yaml": "services:\n" + svc("one", "one") + "networks:\n  front: {driver: overlay}\n", "i2.yaml": "services:\n" + svc("two", "two") + "networks:\n  front:\n"}},
		{name: "identical-bare-on-both-sides", files: map[string]string{
			"compose.yaml": "include:\n  - ./inc.yaml\nservices:\n" + svc("m", "m") + "volumes:\n  data:\nnetworks:\n  front:\n", "inc.yaml": "services:\n" + svc("x", "x") + "volumes:\n  data:\nnetworks:\n  front:\n"},
			check: func(im map[string]string) string { return "" }},
		{name: "conflict-secret", wantErr: true, files: map[string]string{
			"compose.yaml": "include:\n  - ./inc.yaml\nservices:\n" + svc("m", "m") + "secrets:\n  s: {file: ./a}\n", "inc.yaml": "services:\n" + svc("x", "x") + "secrets:\n  s: {file: ./b}\n"}},
		{name: "conflict-config", wantErr: true, files: map[string]string{
			"compose.yaml": "include:\n  - ./inc.yaml\nservices:\n" + svc("m", "m") + "configs:\n  c: {content: a}\n", "inc.yaml": "services:\n" + svc("x", "x") + "configs:\n  c: {content: b}\n"}},
		{name: "identical-through-two-routes", files: map[string]string{
			"compose.yaml": "include:\n  - ./i1.yaml\n  - ./i2.yaml\nservices:\n" + svc("m", "m"),
			"i1.yaml":      "include:\n  - ./shared.yaml\nservices:\n" + svc("one", "one"), "i2.yaml": "include:\n  - ./shared.yaml\nservices:\n" + svc("two", "two"),
			"shared.yaml": "services:\n" + svc("shared", "shared") + "networks:\n  sn: {}\n"},
			check: func(im map[string]string) string {
				if im["shared"] != "shared" || im["one"] != "one" || im["two"] != "two" {
					return fmt.Sprintf("images %v", im)
				}
				return ""
			}},
		{name: "cycle-1", wantErr: true, files: map[string]string{"compose.yaml": "include:\n  - ./compose.yaml\nservices:\n" + svc("m", "m")}},
		{name: "cycle-2", wantErr: true, files: map[string]string{"compose.yaml": "include:\n  - ./a.yaml\nservices:\n" + svc("m", "m"), "a.yaml": "include:\n  - ./compose.yaml\nservices:\n" + svc("a", "a")}},
		{name: "cycle-3", wantErr: true, files: map[string]string{"compose.yaml": "include:\n  - ./a.yaml\nservices:\n" + svc("m", "m"), "a.yaml": "include:\n  - ./sub/b.yaml\nservices:\n" + svc("a", "a"), "sub/b.yaml": "include:\n  - ../a.yaml\nservices:\n" + svc("b", "b")}},
		{name: "cycle-2-long-syntax", wantErr: true, files: map[string]string{"compose.yaml": "include:\n  - path: ./a.yaml\nservices:\n" + svc("m", "m"), "a.yaml": "include:\n  - path: ./compose.yaml\nservices:\n" + svc("a", "a")}},
		{name: "missing-included-file", wantErr: true, files: map[string]string{"compose.yaml": "include:\n  - ./nofile.yaml\nservices:\n" + svc("m", "m")}},
		{name: "env-config-in-include", env: map[string]string{"CVAL": "cfgvalue"}, files: map[string]string{
			"compose.yaml": "include:\n  - ./inc.yaml\nservices:\n" + svc("m", "m"),
			"inc.yaml":     "services:\n" + svc("x", "x") + "configs:\n  envcfg: {environment: CVAL}\n"},
			check: func(im map[string]string) string { return "" }},
		{name: "env-secret-in-include", env: map[string]string{"SVAL": "secvalue"}, files: map[string]string{
			"compose.yaml": "include:\n  - ./inc.yaml\nservices:\n" + svc("m", "m"),
			"inc.yaml":     "services:\n" + svc("x", "x") + "secrets:\n  envsec: {environment: SVAL}\n"},
			check: func(im map[string]string) string { return "" }},
	}
	// a variable the parent environment defines as the empty string is defined: the included project's own files do not
	// replace it (default .env, declared env_file, two levels down)
	emptyWins := func(im map[string]string) string {
		for n, img := range im {
			if strings.HasPrefix(img, "i-") && img != "i--x" {
				return fmt.Sprintf("service %s has image %q, expected \"i--x\" (V is defined, empty, by the parent environment)", n, img)
			}
		}
		return ""
	}
	cases = append(cases,
		sc{name: "parent-empty-vs-dotenv", env: map[string]string{"V": ""}, check: emptyWins, files: map[string]string{
			"compose.yaml": "include:\n  - ./one/compose.yaml\nservices:\n" + svc("m", "m"), "one/.env": "V=file\n", "one/compose.yaml": "services:\n" + svc("one", "i-${V}-x")}},
		sc{name: "parent-empty-vs-env_file", env: map[string]string{"V": ""}, check: emptyWins, files: map[string]string{
			"compose.yaml": "include:\n  - path: ./one/compose.yaml\n    env_file: ./one.env\nservices:\n" + svc("m", "m"), "one.env": "V=file\n", "one/compose.yaml": "services:\n" + svc("one", "i-${V}-x")}},
		sc{name: "parent-empty-nested", env: map[string]string{"V": ""}, check: emptyWins, files: map[string]string{
			"compose.yaml":     "include:\n  - ./one/compose.yaml\nservices:\n" + svc("m", "m"),
			"one/compose.yaml": "include:\n  - ./two/compose.yaml\nservices:\n" + svc("one", "i-${V}-x"), "one/.env": "V=one\n",
			"one/two/compose.yaml": "services:\n" + svc("two", "i-${V}-x"), "one/two/.env": "V=two\n"}},
		sc{name: "parent-undefined-vs-dotenv", check: func(im map[string]string) string {
			if im["one"] != "i-file-x" {
				return "service one has image " + im["one"] + ", expected i-file-x"
			}
			return ""
		}, files: map[string]string{
			"compose.yaml": "include:\n  - ./one/compose.yaml\nservices:\n" + svc("m", "m"), "one/.env": "V=file\n", "one/compose.yaml": "services:\n" + svc("one", "i-${V}-x")}})
	// an included file that itself includes, with an env_file / project_directory written relative to its own directory:
	// the second level anchors on the included project's directory, exactly like the first
	imgIs := func(svcName, want string) func(map[string]string) string {
		return func(im map[string]string) string {
			if im[svcName] != want {
				return fmt.Sprintf("service %s has image %q, expected %q", svcName, im[svcName], want)
			}
			return ""
		}
	}
	cases = append(cases,
		sc{name: "nested-relative-env_file", check: imgIs("c", "c-1"), files: map[string]string{
			"compose.yaml": "include:\n  - ./sub/b.yaml\nservices:\n" + svc("m", "m"),
			"sub/b.yaml":   "include:\n  - path: ./c/c.yaml\n    env_file: ./c/my.env\nservices:\n" + svc("b", "b"),
			"sub/c/c.yaml": "services:\n" + svc("c", "c-${V}"), "sub/c/my.env": "V=1\n"}},
		sc{name: "nested-relative-project_directory", check: imgIs("c", "c-2"), files: map[string]string{
			"compose.yaml": "include:\n  - ./sub/b.yaml\nservices:\n" + svc("m", "m"),
			"sub/b.yaml":   "include:\n  - path: ./c.yaml\n    project_directory: ./pd\nservices:\n" + svc("b", "b"),
			"sub/c.yaml":   "services:\n" + svc("c", "c-${V}"), "sub/pd/.env": "V=2\n"}},
		sc{name: "nested-twice-relative-env_file", check: imgIs("d", "d-3"), files: map[string]string{
			"compose.yaml":   "include:\n  - ./sub/b.yaml\nservices:\n" + svc("m", "m"),
			"sub/b.yaml":     "include:\n  - ./c/c.yaml\nservices:\n" + svc("b", "b"),
			"sub/c/c.yaml":   "include:\n  - path: ./d/d.yaml\n    env_file: [./d/one.env]\nservices:\n" + svc("c", "c"),
			"sub/c/d/d.yaml": "services:\n" + svc("d", "d-${V}"), "sub/c/d/one.env": "V=3\n"}})
	// include cycles whose edges are spelled in other ways than ./file
	for _, sp := range []struct{ name, fwd, back string }{
		{"bare", "sub/a.yaml", "../compose.yaml"}, {"updown", "./d/../sub/a.yaml", "../d/../compose.yaml"},
		{"abs", "${ROOT}/sub/a.yaml", "${ROOT}/compose.yaml"}, {"abs-dot", "${ROOT}/./sub/a.yaml", "${ROOT}/./compose.yaml"},
		{"abs-updown", "${ROOT}/sub/../sub/a.yaml", "${ROOT}/sub/../compose.yaml"}} {
		cases = append(cases, sc{name: "cycle-2-spelled-" + sp.name, wantErr: true, env: map[string]string{"ROOT": RootToken}, files: map[string]string{"d/.keep": "",
			"compose.yaml": "include:\n  - " + sp.fwd + "\nservices:\n" + svc("m", "m"), "sub/a.yaml": "include:\n  - " + sp.back + "\nservices:\n" + svc("a", "a")}})
	}
	deliveries := []struct {
		name           string
		inMem, relName bool
	}{{"", false, false}, {"/content", true, false}, {"/content-relative-name", true, true}}
	for _, tc := range cases {
		for _, dl := range deliveries {
			tc, dl := tc, dl
			c.Do("special/"+tc.name+dl.name, func() core.Outcome {
				s := &Scn{Files: tc.files, Main: []string{"compose.yaml"}, Env: tc.env, InMem: dl.inMem, RelNames: dl.relName}
				root := s.Materialise()
				p, err := s.LoadAt(root)
				sample := map[string]any{"case": tc.name, "files": tc.files}
				if pe, ok := err.(*core.PanicError); ok {
					return core.Outcome{Class: "panic", Sample: sample, Viol: &core.Violation{Key: "panic@" + pe.Site, Msg: tc.name + ": " + pe.Error(), Detail: pe.Stack}}
				}
				if tc.wantErr {
					if err == nil {
						return core.Outcome{Class: "acc", Sample: sample, Viol: &core.Violation{Key: "accepted:" + tc.name, Msg: tc.name + ": must be an error but loads"}}
					}
					return core.Outcome{Class: "special/" + tc.name, Sample: sample}
				}
				if err != nil {
					return core.Outcome{Class: "rej", Sample: sample, Viol: &core.Violation{Key: "rejected:" + tc.name, Msg: tc.name + ": " + err.Error()}}
				}
				im := map[string]string{}
				for n, sv := range p.Services {
					im[n] = sv.Image
				}
				if msg := tc.check(im); msg != "" {
					return core.Outcome{Class: "diff", Sample: sample, Viol: &core.Violation{Key: "wrong:" + tc.name, Msg: tc.name + ": " + msg}}
				}
				return core.Outcome{Class: "special/" + tc.name, Sample: sample}
			})
		}
	}
}
