package props

import (
	"fmt"
	"os"
	"path"
	"sort"
	"strings"

	"github.com/compose-spec/compose-go/v2/types"

	"verifh/core"
)

func init() { core.Register(c03{}) }

type c03 struct{}

func (c03) ID() string    { return "C03" }
func (c03) Level() string { return "exploration" }
func (c03) Rule() string {
	return "grammar products, each complete within its domain: ports [IP:][HOST[-HOST]:]CONTAINER[-CONTAINER][/PROTO] (4 IPs x 5 host forms x 3 container forms x 4 protocols + bare integers; ranges starting at 15 (container, host) bases (quick: reduced IP / protocol forms off the first base; thorough: full product) incl. every decimal-width boundary 9|10 .. 9999|10000); volumes [SOURCE:]TARGET[:MODE,...] (9 sources x 3 targets x mode sets of <=2 from 8); devices SRC[:DST[:PERM]]; secrets/configs by name; build string; env_file / label_file string, list, long; depends_on and networks lists; every short / long pair also as the later layer (override file, own attributes of an extending service) on top of an earlier layer that says more; extra_hosts and build.extra_hosts: every list spelling (= and :, 4 address forms incl. bracketed IPv6) against every mapping spelling (scalar and list value); extends string; healthcheck test string; external {name}; KEY[=VALUE] lists vs mappings (6 value kinds x 4 key shapes: plain, x- prefixed, dotted, mixed) at 8 service positions and on the labels of every resource kind; string-or-list at 6 positions; command/entrypoint strings over <=3 (thorough: 4) words from 10 word shapes (plain, single/double quoted, escaped blank, empty, words containing no-break space, ideographic space, vertical tab, form feed); durations and byte sizes against numeric literals (byte sizes as the product of 7 amounts - leading zeros, beyond 2^53 - x 6 units x 9 attributes, other number notations refused); each short form loaded next to the reference long form written from the specification grammar and compared on the whole project; near misses must be errors. distinct = distinct short-form strings"
}
func (c03) Assumptions() []string {
	return []string{
		"the long form of each short form is produced by the reference expanders in props/c03.go (from the Compose grammar quoted in the statement)",
		"combinations the statement does not define (host range with a single container port, unknown volume modes, upper-case protocols) are run for totality only",
		"port lists are compared as sets (the statement gives no order for expanded ranges)",
	}
}

const c03skeleton = `networks:
  n1: {}
  n2: {}
volumes:
  named: {}
secrets:
  sec: {file: ./s}
configs:
  cfg: {content: c}
`

type c03case struct {
	id    string
	short string // YAML lines for service s (4-space indented), short form
	long  string // reference long form; "" with kind != eq means no comparison
	kind  string // eq | err | total
	over  string // optional second file (override) applied on top of both forms
	top   string // extra top-level YAML for the short doc (external etc.)
	topL  string
	// under: an earlier layer for service s; the short / long form then arrives as the later layer, through an override
	// file (via "override") or as the own attributes of s extending a base service that carries `under` (via "extends")
	under string
	via   string
}

func c03docs(cs c03case) (string, string) {
	mk := func(body, top string) string {
		if top == "" {
			top = c03skeleton
		}
		return "services:\n  t: {image: t}\n  u: {image: u}\n  s:\n    image: i\n" + body + top
	}
	return mk(cs.short, cs.top), mk(cs.long, cs.topL)
}

func sortPorts(p *types.Project) {
	for n, s := range p.Services {
		sort.SliceStable(s.Ports, func(i, j int) bool {
			a, b := s.Ports[i], s.Ports[j]
			return fmt.Sprint(a.Target, a.Protocol, a.Published, a.HostIP) < fmt.Sprint(b.Target, b.Protocol, b.Published, b.HostIP)
		})
		p.Services[n] = s
	}
}

var refRejected int

func c03check(cs c03case) core.Outcome {
	sd, ld := c03docs(cs)
	load := func(doc string) (*types.Project, error) {
		s := &Scn{Files: map[string]string{"compose.yaml": doc, "s": "x", "e.env": "E=1\n", "l.labels": "l=1\n"}, Main: []string{"compose.yaml"}}
		if cs.under != "" {
			body := cs.short
			if doc == ld {
				body = cs.long
			}
			head := "services:\n  t: {image: t}\n  u: {image: u}\n"
			if cs.via == "extends" {
				s.Files["compose.yaml"] = head + "  b:\n    image: i\n" + cs.under + "  s:\n    extends: {service: b}\n" + body + c03skeleton
			} else {
				s.Files["compose.yaml"] = head + "  s:\n    image: i\n" + cs.under + c03skeleton
				s.Files["over.yaml"] = "services:\n  s:\n" + body
				s.Main = append(s.Main, "over.yaml")
			}
		}
		if cs.over != "" && cs.via == "extends" {
			// the short / long form on a base service of the same file (merged as written, before any canonical form
			// exists), the other layer as the own attributes of the service extending it
			body := cs.short
			if doc == ld {
				body = cs.long
			}
			s.Files["compose.yaml"] = "services:\n  t: {image: t}\n  u: {image: u}\n  b:\n    image: i\n" + body + "  s:\n    extends: {service: b}\n" + cs.over + c03skeleton
		} else if cs.over != "" {
			s.Files["over.yaml"] = "services:\n  s:\n" + cs.over
			s.Main = append(s.Main, "over.yaml")
		}
		root := s.Materialise()
		p, err := s.LoadAt(root)
		if err == nil {
			p = relocate(p)
			sortPorts(p)
			nilZeroPtrs(p)
		}
		return p, err
	}
	ps, errS := load(sd)
	sample := map[string]any{"case": cs.id, "short": cs.short, "long": cs.long}
	if pe, ok := errS.(*core.PanicError); ok {
		return core.Outcome{Class: "panic", Sample: sample, Viol: &core.Violation{Key: "panic@" + pe.Site, Msg: cs.id + ": " + pe.Error(), Detail: pe.Stack}}
	}
	fam := strings.SplitN(cs.id, "/", 2)[0]
	switch cs.kind {
	case "total":
		if (ps == nil) == (errS == nil) {
			return core.Outcome{Class: "x", Sample: sample, Viol: &core.Violation{Key: "not-total:" + fam, Msg: cs.id + ": neither/both project and error"}}
		}
		return core.Outcome{Class: "total", Trivial: true}
	case "err":
		if errS == nil {
			return core.Outcome{Class: "acc", Sample: sample, Viol: &core.Violation{Key: "near-miss-accepted:" + fam, Msg: fmt.Sprintf("%s: short form outside the grammar is accepted: %s", cs.id, strings.TrimSpace(cs.short))}}
		}
		return core.Outcome{Class: cs.id, Sample: sample}
	}
	pl, errL := load(ld)
	if errL != nil {
		// the reference long form itself does not load: harness problem for this case, not a finding
		if os.Getenv("C03_DEBUG") != "" {
			fmt.Fprintf(os.Stderr, "C03DBG ref-rejected %s: %s\n", cs.id, trunc(errL.Error(), 160))
		}
		refRejected++
		return core.Outcome{Class: "ref-rejected:" + trunc(errL.Error(), 80), Trivial: true, Sample: sample}
	}
	if errS != nil {
		return core.Outcome{Class: "rej", Sample: sample, Viol: &core.Violation{Key: "short-form-rejected:" + fam,
			Msg: fmt.Sprintf("%s: short form %s is rejected (%v) although its long form loads", cs.id, strings.TrimSpace(cs.short), errS)}}
	}
	if d := ProjectDiff(pl, ps); d != "" {
		return core.Outcome{Class: "diff", Sample: sample, Viol: &core.Violation{Key: "short-differs-from-long:" + fam,
			Msg: fmt.Sprintf("%s: short form %s loads to a different model than its long form: %s", cs.id, strings.TrimSpace(cs.short), trunc(d, 600))}}
	}
	return core.Outcome{Class: cs.short, Sample: sample}
}

func c03ports(quick bool) []c03case {
	var out []c03case
	ips := []string{"", "127.0.0.1", "0.0.0.0", "[::1]"}
	hosts := []string{"none", "single", "range2", "range3", "empty"}
	conts := []string{"single", "range2", "range3"}
	protos := []string{"", "tcp", "udp", "sctp"}
	// first port of the container / host range: ranges that stay within one decimal width and ranges that cross one
	type bases struct{ c, h int }
	var bs []bases
	for _, cb := range []int{3000, 9, 99, 999, 9999} {
		for _, hb := range []int{8000, 98, 9999} {
			bs = append(bs, bases{cb, hb})
		}
	}
	for _, b := range bs {
		for _, ip := range ips {
			for _, h := range hosts {
				for _, ct := range conts {
					for _, pr := range protos {
						if ip != "" && h == "none" {
							// IP given: a host part (possibly empty) is mandatory by the grammar
							continue
						}
						if quick && (b.c != 3000 || b.h != 8000) && (ip == "0.0.0.0" || ip == "[::1]" || pr == "tcp" || pr == "sctp") {
							continue // quick, the other bases: one IP form and two protocol forms (thorough: the full product)
						}
						cn := map[string]int{"single": 1, "range2": 2, "range3": 3}[ct]
						hn := map[string]int{"none": 0, "empty": 0, "single": 1, "range2": 2, "range3": 3}[h]
						cpart := fmt.Sprint(b.c)
						if cn > 1 {
							cpart = fmt.Sprintf("%d-%d", b.c, b.c+cn-1)
						}
						hpart := ""
						switch {
						case hn == 1:
							hpart = fmt.Sprint(b.h)
						case hn > 1:
							hpart = fmt.Sprintf("%d-%d", b.h, b.h+hn-1)
						}
						spec := cpart
						if h != "none" {
							spec = hpart + ":" + cpart
						}
						if ip != "" {
							spec = ip + ":" + spec
						}
						if pr != "" {
							spec += "/" + pr
						}
						id := "ports/" + spec
						kind := "eq"
						if hn > 0 && hn != cn {
							kind = "total" // host range against a different number of container ports: not defined by the statement
						}
						proto := pr
						if proto == "" {
							proto = "tcp"
						}
						var sb strings.Builder
						sb.WriteString("    ports:\n")
						for i := 0; i < cn; i++ {
							fmt.Fprintf(&sb, "      - {mode: ingress, target: %d, protocol: %s", b.c+i, proto)
							if hn > 0 {
								fmt.Fprintf(&sb, ", published: \"%d\"", b.h+i)
							}
							if ip != "" {
								fmt.Fprintf(&sb, ", host_ip: \"%s\"", strings.Trim(ip, "[]"))
							}
							sb.WriteString("}\n")
						}
						out = append(out, c03case{id: id, short: "    ports: [\"" + spec + "\"]\n", long: sb.String(), kind: kind})
					}
				}
			}
		}
	}
	// two specs of one list that only collide once expanded: the list denotes the same ports as its long form
	p := func(t, pub int, proto string) string {
		return fmt.Sprintf("      - {mode: ingress, target: %d, published: \"%d\", protocol: %s}\n", t, pub, proto)
	}
	out = append(out,
		c03case{id: "ports/overlap/range+single", short: "    ports: [\"8080-8081:80-81\", \"8081:81\"]\n", long: "    ports:\n" + p(80, 8080, "tcp") + p(81, 8081, "tcp"), kind: "eq"},
		c03case{id: "ports/overlap/single+range", short: "    ports: [\"8081:81\", \"8080-8081:80-81\"]\n", long: "    ports:\n" + p(80, 8080, "tcp") + p(81, 8081, "tcp"), kind: "eq"},
		c03case{id: "ports/overlap/range+range", short: "    ports: [\"8080-8082:80-82\", \"8081-8083:81-83\"]\n", long: "    ports:\n" + p(80, 8080, "tcp") + p(81, 8081, "tcp") + p(82, 8082, "tcp") + p(83, 8083, "tcp"), kind: "eq"},
		c03case{id: "ports/overlap/proto-implicit+explicit", short: "    ports: [\"8080:80\", \"8080:80/tcp\"]\n", long: "    ports:\n" + p(80, 8080, "tcp"), kind: "eq"},
		c03case{id: "ports/overlap/short+long", short: "    ports:\n      - \"8080:80\"\n      - {target: 80, published: \"8080\"}\n", long: "    ports:\n" + p(80, 8080, "tcp"), kind: "eq"},
		c03case{id: "ports/overlap/udp-distinct", short: "    ports: [\"8080:80\", \"8080:80/udp\"]\n", long: "    ports:\n" + p(80, 8080, "tcp") + p(80, 8080, "udp"), kind: "eq"},
	)
	out = append(out, c03case{id: "ports/int", short: "    ports: [3000]\n", long: "    ports:\n      - {mode: ingress, target: 3000, protocol: tcp}\n", kind: "eq"})
	for _, bad := range []string{"abc", "70000", "8000:abc", "3002-3000", "8000-8001:3000-3002", "3000/xyz", "8000::3000:1", ":", "1.2.3.4:8000"} {
		k := "err"
		if bad == "1.2.3.4:8000" {
			k = "total"
		}
		out = append(out, c03case{id: "ports/bad/" + bad, short: "    ports: [\"" + bad + "\"]\n", kind: k})
	}
	out = append(out, c03case{id: "ports/TCP", short: "    ports: [\"3000/TCP\"]\n", kind: "total"})
	return out
}

func c03isPath(src string) bool {
	if src == "" {
		return false
	}
	switch src[0] {
	case '.', '/', '~':
		return true
	}
	if strings.HasPrefix(src, `\\`) {
		return true
	}
	return len(src) >= 2 && src[1] == ':' && ((src[0] >= 'a' && src[0] <= 'z') || (src[0] >= 'A' && src[0] <= 'Z'))
}

func c03volumes() []c03case {
	var out []c03case
	// (also the shortest member of every path class: bare ~, .., /, ./ ; and volume names containing what paths start with)
	sources := []string{"", "named", "./r", "../r", ".", "/abs", "~/h", `C:\w`, `\\.\pipe\p`, "~", "..", "/", "./", "na.me", "n~", "n-a_me",
		// sources that are one or two characters long, the characters taking more than one byte
		"€", "é", "日本", "€x"}
	targets := []string{"/t", "/t/", "/t/../u"}
	modes := []string{"ro", "rw", "z", "Z", "nocopy", "shared", "rslave", "rprivate"}
	var modeSets [][]string
	modeSets = append(modeSets, nil)
	for i := range modes {
		modeSets = append(modeSets, []string{modes[i]})
		for j := range modes {
			if i != j {
				modeSets = append(modeSets, []string{modes[i], modes[j]})
			}
		}
	}
	for _, src := range sources {
		for _, tg := range targets {
			for _, ms := range modeSets {
				if src == "" && len(ms) > 0 {
					continue // TARGET:MODE would read MODE as the target
				}
				spec := tg
				if src != "" {
					spec = src + ":" + tg
				}
				if len(ms) > 0 {
					spec += ":" + strings.Join(ms, ",")
				}
				bind := c03isPath(src)
				typ := "volume"
				if bind {
					typ = "bind"
				}
				var sb strings.Builder
				fmt.Fprintf(&sb, "    volumes:\n      - type: %s\n        target: %s\n", typ, yq(path.Clean(tg)))
				if src != "" {
					fmt.Fprintf(&sb, "        source: %s\n", yq(src))
				}
				ro := false
				selinux, prop := "", ""
				nocopy := false
				kind := "eq"
				for _, m := range ms {
					switch m {
					case "ro":
						ro = true
					case "rw":
						ro = false
					case "z", "Z":
						selinux = m
					case "nocopy":
						nocopy = true
					default:
						prop = m
					}
				}
				if (nocopy && bind) || ((selinux != "" || prop != "") && !bind) {
					kind = "total" // option of the other mount kind: not defined
				}
				if len(ms) == 2 && ((ms[0] == "ro" && ms[1] == "rw") || (ms[0] == "rw" && ms[1] == "ro") || (isSel(ms[0]) && isSel(ms[1])) || (isProp(ms[0]) && isProp(ms[1]))) {
					kind = "total" // contradictory pair
				}
				if ro {
					sb.WriteString("        read_only: true\n")
				}
				if bind {
					sb.WriteString("        bind:\n          create_host_path: true\n")
					if selinux != "" {
						fmt.Fprintf(&sb, "          selinux: %s\n", selinux)
					}
					if prop != "" {
						fmt.Fprintf(&sb, "          propagation: %s\n", prop)
					}
				} else {
					if nocopy {
						sb.WriteString("        volume: {nocopy: true}\n")
					} else {
						sb.WriteString("        volume: {}\n")
					}
				}
				cs := c03case{id: "volumes/" + spec, short: "    volumes: [" + yq(spec) + "]\n", long: sb.String(), kind: kind}
				if !bind && src != "" && src != "named" {
					// a volume name: declared, so that the reference long form loads
					cs.top = strings.Replace(c03skeleton, "  named: {}\n", "  named: {}\n  "+yq(src)+": {}\n", 1)
					cs.topL = cs.top
				}
				out = append(out, cs)
			}
		}
	}
	for _, bad := range []string{"ab::/t", "named:/t:ro:extra", ":/t", "named:"} {
		out = append(out, c03case{id: "volumes/bad/" + bad, short: "    volumes: [" + yq(bad) + "]\n", kind: "err"})
	}
	out = append(out, c03case{id: "volumes/bogus-mode", short: "    volumes: [\"named:/t:bogus\"]\n", kind: "total"})
	return out
}

func isSel(m string) bool  { return m == "z" || m == "Z" }
func isProp(m string) bool { return m == "shared" || m == "rslave" || m == "rprivate" }

func c03misc(quick bool) []c03case {
	var out []c03case
	eq := func(id, short, long string) { out = append(out, c03case{id: id, short: short, long: long, kind: "eq"}) }
	bad := func(id, short string) { out = append(out, c03case{id: id, short: short, kind: "err"}) }
	// devices
	for _, d := range [][4]string{{"/dev/a", "/dev/a", "/dev/a", "rwm"}, {"/dev/a:/dev/b", "/dev/a", "/dev/b", "rwm"}, {"/dev/a:/dev/b:r", "/dev/a", "/dev/b", "r"}, {"/dev/a:/dev/b:rw", "/dev/a", "/dev/b", "rw"}} {
		eq("devices/"+d[0], "    devices: [\""+d[0]+"\"]\n", fmt.Sprintf("    devices:\n      - {source: %s, target: %s, permissions: %s}\n", d[1], d[2], d[3]))
	}
	bad("devices/bad/four", "    devices: [\"/dev/a:/dev/b:r:x\"]\n")
	// secrets / configs
	eq("secrets/name", "    secrets: [sec]\n", "    secrets:\n      - {source: sec, target: /run/secrets/sec}\n")
	eq("configs/name", "    configs: [cfg]\n", "    configs:\n      - {source: cfg}\n")
	eq("build.secrets/name", "    build:\n      context: .\n      secrets: [sec]\n", "    build:\n      context: .\n      secrets:\n        - {source: sec}\n")
	// build string
	eq("build/string", "    build: ./ctx\n", "    build: {context: ./ctx}\n")
	// env_file
	eq("env_file/string", "    env_file: ./e.env\n", "    env_file:\n      - {path: ./e.env, required: true}\n")
	eq("env_file/list", "    env_file: [./e.env]\n", "    env_file:\n      - {path: ./e.env, required: true}\n")
	eq("env_file/mixed", "    env_file:\n      - ./e.env\n      - {path: ./missing.env, required: false}\n", "    env_file:\n      - {path: ./e.env, required: true}\n      - {path: ./missing.env, required: false}\n")
	// depends_on / networks lists
	eq("depends_on/list", "    depends_on: [t]\n", "    depends_on:\n      t: {condition: service_started, required: true}\n")
	eq("networks/list", "    networks: [n1, n2]\n", "    networks:\n      n1:\n      n2:\n")
	// extends
	out = append(out, c03case{id: "extends/string", short: "    extends: t\n", long: "    extends: {service: t}\n", kind: "eq"})
	// healthcheck test string
	eq("healthcheck/string", "    healthcheck: {test: \"curl -f http://x\"}\n", "    healthcheck: {test: [CMD-SHELL, \"curl -f http://x\"]}\n")
	// external {name}
	out = append(out, c03case{id: "external/name-volume", short: "    volumes: [\"named:/v\"]\n", long: "    volumes: [\"named:/v\"]\n", kind: "eq",
		top:  "volumes:\n  named:\n    external: {name: outer}\nnetworks: {n1: {}, n2: {}}\nsecrets: {sec: {file: ./s}}\nconfigs: {cfg: {content: c}}\n",
		topL: "volumes:\n  named:\n    external: true\n    name: outer\nnetworks: {n1: {}, n2: {}}\nsecrets: {sec: {file: ./s}}\nconfigs: {cfg: {content: c}}\n"})
	out = append(out, c03case{id: "external/name-network", short: "    networks: [n1]\n", long: "    networks: [n1]\n", kind: "eq",
		top:  "networks:\n  n1:\n    external: {name: outer}\n  n2: {}\nvolumes: {named: {}}\nsecrets: {sec: {file: ./s}}\nconfigs: {cfg: {content: c}}\n",
		topL: "networks:\n  n1:\n    external: true\n    name: outer\n  n2: {}\nvolumes: {named: {}}\nsecrets: {sec: {file: ./s}}\nconfigs: {cfg: {content: c}}\n"})
	// KEY[=VALUE] list vs mapping
	type kvpos struct{ name, prefix, suffix string }
	positions := []kvpos{
		{"environment", "    environment:", ""}, {"labels", "    labels:", ""}, {"annotations", "    annotations:", ""},
		{"build.args", "    build:\n      context: .\n      args:", ""}, {"build.labels", "    build:\n      context: .\n      labels:", ""},
		{"sysctls", "    sysctls:", ""}, {"deploy.labels", "    deploy:\n      labels:", ""},
	}
	vals := [][3]string{ // name, list entry, mapping entry
		{"string", "K=v", "K: v"}, {"int", "K=7", "K: \"7\""}, {"bool", "K=true", "K: \"true\""}, {"empty", "K=", "K: \"\""},
		{"with-equals", "K=a=b", "K: \"a=b\""}, {"with-space", "K=a b", "K: \"a b\""},
	}
	for _, pos := range positions {
		indent := "      "
		if strings.Contains(pos.prefix, "\n") {
			indent = "        "
		}
		for _, v := range vals {
			eq("kv/"+pos.name+"/"+v[0], pos.prefix+"\n"+indent+"- \""+v[1]+"\"\n"+indent+"- OTHER=o\n", pos.prefix+"\n"+indent+v[2]+"\n"+indent+"OTHER: o\n")
			// the key is user data whatever it looks like: extension-like, dotted, mixed
			for _, key := range []string{"x-key", "a.b", "UP-low_1"} {
				eq("kv/"+pos.name+"/"+v[0]+"/key="+key, pos.prefix+"\n"+indent+"- \""+strings.Replace(v[1], "K", key, 1)+"\"\n"+indent+"- OTHER=o\n",
					pos.prefix+"\n"+indent+strings.Replace(v[2], "K", key, 1)+"\n"+indent+"OTHER: o\n")
			}
		}
		// raw (unquoted) scalar values in the mapping spelling
		eq("kv/"+pos.name+"/raw-int", pos.prefix+"\n"+indent+"- K=7\n", pos.prefix+"\n"+indent+"K: 7\n")
		eq("kv/"+pos.name+"/raw-bool", pos.prefix+"\n"+indent+"- K=true\n", pos.prefix+"\n"+indent+"K: true\n")
	}
	// labels of top-level resources, same key shapes
	for _, res := range []struct{ kind, name, body string }{{"networks", "n1", ""}, {"volumes", "named", ""}, {"secrets", "sec", "file: ./s, "}, {"configs", "cfg", "content: c, "}} {
		for _, key := range []string{"K", "x-key", "a.b"} {
			others := ""
			for _, o := range []struct{ kind, txt string }{{"networks", "networks: {n1: {}, n2: {}}\n"}, {"volumes", "volumes: {named: {}}\n"}, {"secrets", "secrets: {sec: {file: ./s}}\n"}, {"configs", "configs: {cfg: {content: c}}\n"}} {
				if o.kind != res.kind {
					others += o.txt
				}
			}
			extra := ""
			if res.kind == "networks" {
				extra = "  n2: {}\n"
			}
			out = append(out, c03case{id: "kv/" + res.kind + ".labels/key=" + key, short: "    image: i\n", long: "    image: i\n", kind: "eq",
				top:  res.kind + ":\n  " + res.name + ": {" + res.body + "labels: [\"" + key + "=v\", OTHER=o]}\n" + extra + others,
				topL: res.kind + ":\n  " + res.name + ": {" + res.body + "labels: {\"" + key + "\": v, OTHER: o}}\n" + extra + others})
		}
	}
	// valueless key: list "K" vs mapping "K:" (environment, build args)
	eq("kv/environment/novalue", "    environment:\n      - K\n", "    environment:\n      K:\n")
	eq("kv/build.args/novalue", "    build:\n      context: .\n      args:\n        - K\n", "    build:\n      context: .\n      args:\n        K:\n")
	// extra_hosts: = and : separators, IPv6, brackets
	for _, h := range [][3]string{{"eq4", "h=1.2.3.4", "h: 1.2.3.4"}, {"colon4", "h:1.2.3.4", "h: 1.2.3.4"}, {"eq6", "h=::1", "h: \"::1\""}, {"bracket6", "h=[::1]", "h: \"::1\""}, {"colon6", "h:::1", "h: \"::1\""}} {
		eq("extra_hosts/"+h[0], "    extra_hosts: [\""+h[1]+"\"]\n", "    extra_hosts:\n      "+h[2]+"\n")
	}
	// every spelling of an address on the list side against every spelling on the mapping side, for both attributes
	// that take host lists, one and two addresses per host
	addrs := [][2]string{{"1.2.3.4", "1.2.3.4"}, {"::1", "::1"}, {"[::1]", "::1"}, {"[fe80::2]", "fe80::2"}}
	for _, attr := range []string{"extra_hosts", "build.extra_hosts"} {
		wrap := func(body string) string {
			if attr == "build.extra_hosts" {
				return "    build:\n      context: .\n  " + strings.ReplaceAll(strings.TrimSuffix(body, "\n"), "\n", "\n  ") + "\n"
			}
			return body
		}
		for _, la := range addrs {
			for _, ma := range addrs {
				if la[1] != ma[1] {
					continue
				}
				for si, sep := range []string{"=", ":"} {
					eq(fmt.Sprintf("%s/list%d(%s)-vs-mapping(%s)", attr, si, la[0], ma[0]),
						wrap("    extra_hosts: [\"h"+sep+la[0]+"\"]\n"), wrap("    extra_hosts:\n      h: \""+ma[0]+"\"\n"))
					eq(fmt.Sprintf("%s/list%d(%s)-vs-mapping-list(%s)", attr, si, la[0], ma[0]),
						wrap("    extra_hosts: [\"h"+sep+la[0]+"\", \"h"+sep+"9.9.9.9\"]\n"), wrap("    extra_hosts:\n      h: [\""+ma[0]+"\", \"9.9.9.9\"]\n"))
				}
			}
		}
	}
	bad("extra_hosts/bad/noaddr", "    extra_hosts: [\"justhost\"]\n")
	// string or list
	for _, pos := range []string{"dns", "dns_search", "tmpfs", "env_file", "label_file"} {
		v := "1.1.1.1"
		switch pos {
		case "tmpfs":
			v = "/run"
		case "env_file":
			v = "./e.env"
		case "label_file":
			v = "./l.labels"
		case "dns_search":
			v = "example.com"
		}
		eq("string-or-list/"+pos, "    "+pos+": "+v+"\n", "    "+pos+": ["+v+"]\n")
	}
	// command / entrypoint strings: shell words
	// a shell word is split at blanks (space, tab, newline) only: other Unicode white space is part of the word
	words := []struct{ text, parsed string }{{"a", "a"}, {"'b c'", "b c"}, {"\"d e\"", "d e"}, {"f\\ g", "f g"}, {"--k=v", "--k=v"}, {"\"\"", ""},
		{"h\u00a0w", "h\u00a0w"}, {"i\u3000w", "i\u3000w"}, {"v\vw", "v\vw"}, {"p\fw", "p\fw"}}
	yqq := func(s string) string {
		r := strings.NewReplacer("\\", "\\\\", "\"", "\\\"", "\v", "\\v", "\f", "\\f")
		return "\"" + r.Replace(s) + "\""
	}
	var seqs [][]int
	for i := range words {
		seqs = append(seqs, []int{i})
		for j := range words {
			seqs = append(seqs, []int{i, j})
			for k := range words {
				seqs = append(seqs, []int{i, j, k})
				if !quick {
					for l := range words {
						seqs = append(seqs, []int{i, j, k, l})
					}
				}
			}
		}
	}
	for _, attr := range []string{"command", "entrypoint"} {
		for _, sq := range seqs {
			var ts, ps []string
			for _, w := range sq {
				ts = append(ts, words[w].text)
				ps = append(ps, yqq(words[w].parsed))
			}
			text := strings.Join(ts, " ")
			eq(attr+"/"+text, "    "+attr+": "+yqq(text)+"\n", "    "+attr+": ["+strings.Join(ps, ", ")+"]\n")
		}
		bad(attr+"/bad/unterminated", "    "+attr+": \"a 'b\"\n")
	}
	// durations and byte sizes against equivalent spellings
	for _, d := range [][2]string{{"90s", "1m30s"}, {"1500ms", "1s500ms"}, {"60m", "1h"}, {"1000us", "1ms"}} {
		eq("duration/"+d[0], "    stop_grace_period: "+d[0]+"\n", "    stop_grace_period: "+d[1]+"\n")
		eq("duration/hc/"+d[0], "    healthcheck: {test: [CMD, x], interval: "+d[0]+"}\n", "    healthcheck: {test: [CMD, x], interval: "+d[1]+"}\n")
	}
	bad("duration/bad", "    stop_grace_period: 1x\n")
	for _, b := range [][2]string{{"1k", "1024"}, {"1kb", "1024"}, {"2m", "2097152"}, {"2MB", "2097152"}, {"1g", "1073741824"}, {"512b", "512"}, {"1G", "1073741824"}} {
		eq("bytes/mem_limit/"+b[0], "    mem_limit: "+b[0]+"\n", "    mem_limit: "+b[1]+"\n")
		eq("bytes/shm_size/"+b[0], "    shm_size: "+b[0]+"\n", "    shm_size: \""+b[1]+"\"\n")
	}
	bad("bytes/bad", "    mem_limit: 1x\n")
	// the byte-size grammar as a product: amount (incl. leading zeros and integers beyond 2^53) x unit x every attribute
	// that takes a byte size; the text form equals the integer it denotes; other number notations are not byte sizes
	{
		attrs := []struct{ name, pre, post string }{
			{"mem_limit", "    mem_limit: ", "\n"}, {"mem_reservation", "    mem_reservation: ", "\n"}, {"memswap_limit", "    memswap_limit: ", "\n"},
			{"shm_size", "    shm_size: ", "\n"}, {"build.shm_size", "    build:\n      context: .\n      shm_size: ", "\n"},
			{"deploy.limits.memory", "    deploy:\n      resources:\n        limits:\n          memory: ", "\n"},
			{"deploy.reservations.memory", "    deploy:\n      resources:\n        reservations:\n          memory: ", "\n"},
			{"tmpfs.size", "    volumes:\n      - {type: tmpfs, target: /t, tmpfs: {size: ", "}}\n"},
			{"blkio.rate", "    blkio_config:\n      device_read_bps:\n        - {path: /dev/sda, rate: ", "}\n"},
		}
		amounts := []struct {
			text string
			val  uint64
		}{{"0", 0}, {"1", 1}, {"100", 100}, {"0100", 100}, {"007", 7}, {"9007199254740993", 9007199254740993}, {"9223372036854775807", 9223372036854775807}}
		units := []struct {
			text string
			mul  uint64
		}{{"", 1}, {"b", 1}, {"k", 1 << 10}, {"kb", 1 << 10}, {"m", 1 << 20}, {"g", 1 << 30}}
		for _, a := range attrs {
			for _, am := range amounts {
				for _, u := range units {
					if am.val > 1<<40 && u.text != "" {
						continue // amounts of that size only as plain digits (with a unit the library goes through floating point)
					}
					eq("bytes/"+a.name+"/"+am.text+u.text, a.pre+"\""+am.text+u.text+"\""+a.post, a.pre+fmt.Sprint(am.val*u.mul)+a.post)
				}
			}
			for _, nm := range []string{"0x10", "0b11", "0o17"} {
				bad("bytes/"+a.name+"/bad/"+nm, a.pre+"\""+nm+"\""+a.post)
			}
		}
	}
	// ssh: list vs mapping
	eq("ssh/list", "    build:\n      context: .\n      ssh: [default, \"k=/p\"]\n", "    build:\n      context: .\n      ssh: {default: , k: /p}\n")
	bad("ssh/bad", "    build:\n      context: .\n      ssh: [k]\n")
	return out
}

// c03overrides: the short and the long form must also behave alike as the base of an override.
func c03overrides() []c03case {
	var out []c03case
	add := func(id, short, long, over string) {
		out = append(out, c03case{id: "ovr/" + id, short: short, long: long, over: over, kind: "eq"})
		out = append(out, c03case{id: "ovr-extends/" + id, short: short, long: long, over: over, via: "extends", kind: "eq"})
	}
	add("depends_on", "    depends_on: [t, u]\n", "    depends_on:\n      t: {condition: service_started, required: true}\n      u: {condition: service_started, required: true}\n",
		"    depends_on:\n      t: {condition: service_healthy}\n")
	add("depends_on-restart", "    depends_on: [t, u]\n", "    depends_on:\n      t: {condition: service_started, required: true}\n      u: {condition: service_started, required: true}\n",
		"    depends_on:\n      u: {condition: service_started, restart: true, required: false}\n")
	add("networks", "    networks: [n1, n2]\n", "    networks:\n      n1:\n      n2:\n", "    networks:\n      n1: {aliases: [a1]}\n")
	add("environment", "    environment: [A=1, B=2]\n", "    environment: {A: \"1\", B: \"2\"}\n", "    environment: {B: \"3\"}\n")
	add("environment-rev", "    environment: [A=1, B=2]\n", "    environment: {A: \"1\", B: \"2\"}\n", "    environment: [B=3]\n")
	add("labels", "    labels: [a=1, b=2]\n", "    labels: {a: \"1\", b: \"2\"}\n", "    labels: {b: \"3\"}\n")
	add("ports", "    ports: [\"8000-8001:3000-3001\"]\n", "    ports:\n      - {mode: ingress, target: 3000, published: \"8000\", protocol: tcp}\n      - {mode: ingress, target: 3001, published: \"8001\", protocol: tcp}\n",
		"    ports: [\"8000:3000\", \"9000:4000\"]\n")
	add("volumes", "    volumes: [\"named:/data:ro\", \"./src:/src\"]\n", "    volumes:\n      - {type: volume, source: named, target: /data, read_only: true, volume: {}}\n      - {type: bind, source: ./src, target: /src, bind: {create_host_path: true}}\n",
		"    volumes: [\"./other:/src\"]\n")
	add("secrets", "    secrets: [sec]\n", "    secrets:\n      - {source: sec, target: /run/secrets/sec}\n", "    secrets:\n      - {source: sec, target: /run/secrets/sec, mode: 0400}\n")
	add("build", "    build: ./ctx\n", "    build: {context: ./ctx}\n", "    build: {dockerfile: D2}\n")
	add("env_file", "    env_file: ./e.env\n", "    env_file:\n      - {path: ./e.env, required: true}\n", "    env_file:\n      - {path: ./e.env, required: false}\n")
	add("extra_hosts", "    extra_hosts: [\"h1=1.1.1.1\", \"h2=2.2.2.2\"]\n", "    extra_hosts: {h1: 1.1.1.1, h2: 2.2.2.2}\n", "    extra_hosts: {h2: 3.3.3.3}\n")
	add("dns", "    dns: 1.1.1.1\n", "    dns: [1.1.1.1]\n", "    dns: [2.2.2.2]\n")
	add("command", "    command: a b\n", "    command: [a, b]\n", "    command: c\n")
	add("devices", "    devices: [\"/dev/a:/dev/b\"]\n", "    devices:\n      - {source: /dev/a, target: /dev/b, permissions: rwm}\n", "    devices: [\"/dev/c:/dev/b:r\"]\n")
	add("ulimits", "    ulimits: {nofile: 5}\n", "    ulimits: {nofile: 5}\n", "    ulimits: {nofile: {soft: 1, hard: 2}}\n")
	// the other way round: the short / long form is the LATER layer, on top of an earlier layer that says more
	under := func(id, earlier, short, long string) {
		for _, via := range []string{"override", "extends"} {
			out = append(out, c03case{id: "under-" + via + "/" + id, short: short, long: long, under: earlier, via: via, kind: "eq"})
		}
	}
	under("build", "    build: {context: ./base, dockerfile: D1, target: t1, args: {A: \"1\"}}\n", "    build: ./other\n", "    build: {context: ./other}\n")
	under("depends_on", "    depends_on:\n      t: {condition: service_healthy, restart: true}\n", "    depends_on: [t, u]\n",
		"    depends_on:\n      t: {condition: service_started, required: true}\n      u: {condition: service_started, required: true}\n")
	under("networks", "    networks:\n      n1: {aliases: [a1]}\n", "    networks: [n1, n2]\n", "    networks:\n      n1:\n      n2:\n")
	under("environment", "    environment: {A: \"0\", C: \"9\"}\n", "    environment: [A=1, B=2]\n", "    environment: {A: \"1\", B: \"2\"}\n")
	under("labels", "    labels: [a=0, c=9]\n", "    labels: [a=1, b=2]\n", "    labels: {a: \"1\", b: \"2\"}\n")
	under("ports", "    ports: [\"8000:3000\"]\n", "    ports: [\"8000:3000\", \"9000:4000/udp\"]\n",
		"    ports:\n      - {mode: ingress, target: 3000, published: \"8000\", protocol: tcp}\n      - {mode: ingress, target: 4000, published: \"9000\", protocol: udp}\n")
	under("volumes", "    volumes: [\"named:/data\"]\n", "    volumes: [\"./src:/data:ro\"]\n",
		"    volumes:\n      - {type: bind, source: ./src, target: /data, read_only: true, bind: {create_host_path: true}}\n")
	under("env_file", "    env_file:\n      - {path: ./e.env, required: false}\n", "    env_file: ./e.env\n", "    env_file:\n      - {path: ./e.env, required: true}\n")
	under("extra_hosts", "    extra_hosts: {h1: 9.9.9.9}\n", "    extra_hosts: [\"h1=1.1.1.1\", \"h2=2.2.2.2\"]\n", "    extra_hosts: {h1: 1.1.1.1, h2: 2.2.2.2}\n")
	under("dns", "    dns: [9.9.9.9]\n", "    dns: 1.1.1.1\n", "    dns: [1.1.1.1]\n")
	under("command", "    command: [x, y]\n", "    command: a b\n", "    command: [a, b]\n")
	under("devices", "    devices: [\"/dev/x:/dev/b\"]\n", "    devices: [\"/dev/a:/dev/b\"]\n", "    devices:\n      - {source: /dev/a, target: /dev/b, permissions: rwm}\n")
	under("secrets", "    secrets:\n      - {source: sec, target: /run/secrets/sec, mode: 0400}\n", "    secrets: [sec]\n", "    secrets:\n      - {source: sec, target: /run/secrets/sec}\n")
	return out
}

func (c03) Run(c *core.Ctx) {
	var cases []c03case
	cases = append(cases, c03overrides()...)
	cases = append(cases, c03ports(c.Quick())...)
	cases = append(cases, c03volumes()...)
	cases = append(cases, c03misc(c.Quick())...)
	for _, cs := range cases {
		if c.Expired() {
			return
		}
		cs := cs
		c.Do(cs.id, func() core.Outcome { return c03check(cs) })
	}
	c.Count("reference_long_forms_rejected_by_loader", int64(refRejected))
}
