package props

import (
	"fmt"
	"strings"
	"verifh/mapctl"

	"github.com/compose-spec/compose-go/v2/loader"

	"verifh/core"
)

func init() { core.Register(c16{}) }

type c16 struct{}

func (c16) ID() string    { return "C16" }
func (c16) Level() string { return "fault_enumeration" }
func (c16) Rule() string {
	return "(thorough: four keys) an env file shared by two services whose earlier files define the referenced variable differently (2 declaration orders x discard x 4 map rotations); three environment keys at once, each {valueless and defined by the project environment with its own value, valueless and undefined, given a value, absent} x {list, mapping} x {default load, normalisation skipped, explicit WithServicesEnvironmentResolved}; one key in every subset of the layers {project environment, env_file 1, 2, 3} x {no environment entry, with value, empty value, without value} x {list, mapping} spelling; two-key cross references (value ${K2} in env file j with K2 defined in exactly one of project environment / earlier file / earlier line / later file); every {present, absent} x {required, optional} state vector of the three env files x 5 spellings of the flag (implied, boolean, quoted text, variable, variable default); discard on/off, and the service disabled by a profile at load and enabled afterwards (WithServicesEnabled); the same lattice for label_file 1..2 x labels; every case loaded through the real loader and compared with the layering reference. distinct = distinct (layer subset, outcome) pairs"
}
func (c16) Assumptions() []string {
	return []string{
		"a valueless key absent from the project environment: nothing beyond totality is asserted",
		"for a name defined in two layers that an env file may reference, the order in which the statement lists them (earlier env files, project environment, earlier lines) is read as the precedence",
	}
}

func ptrStr(p *string) string {
	if p == nil {
		return "<nil>"
	}
	return fmt.Sprintf("%q", *p)
}

func (c16) Run(c *core.Ctx) {
	// ---- three keys at once, each {valueless and defined by the project environment, valueless and undefined, given a value, absent}
	// resolved by the loader's normalisation (default), by the environment resolution alone (normalisation skipped),
	// and by an explicit WithServicesEnvironmentResolved on a project loaded with both skipped
	nkeys, ncodes := 3, 64
	if !c.Quick() {
		nkeys, ncodes = 4, 256
	}
	for code := 0; code < ncodes*3; code++ {
		for spelling := 0; spelling < 2; spelling++ {
			code, mode, spelling := code%ncodes, code/ncodes, spelling
			id := fmt.Sprintf("env3/%02d/sp%d/mode%d", code, spelling, mode)
			c.Do(id, func() core.Outcome {
				env := map[string]string{}
				var sb strings.Builder
				sb.WriteString("services:\n  s:\n    image: i\n    environment:\n")
				want := map[string]*string{}
				x := code
				for i := 1; i <= nkeys; i++ {
					k := fmt.Sprintf("K%d", i)
					kind := x % 4
					x /= 4
					switch kind {
					case 0: // valueless, project environment defines it (a different value per key)
						v := fmt.Sprintf("pe%d", i)
						env[k] = v
						want[k] = &v
					case 1: // valueless, undefined: nothing asserted beyond totality
					case 2:
						v := fmt.Sprintf("ev%d", i)
						want[k] = &v
						env[k] = "pe-loses" // an explicit value is not replaced by the project environment
					case 3:
						continue
					}
					val := ""
					if kind == 2 {
						val = fmt.Sprintf("ev%d", i)
					}
					switch {
					case spelling == 0 && kind == 2:
						fmt.Fprintf(&sb, "      - %s=%s\n", k, val)
					case spelling == 0:
						fmt.Fprintf(&sb, "      - %s\n", k)
					case kind == 2:
						fmt.Fprintf(&sb, "      %s: %s\n", k, val)
					default:
						fmt.Fprintf(&sb, "      %s:\n", k)
					}
				}
				if spelling == 0 {
					sb.WriteString("      - Z=z\n")
				} else {
					sb.WriteString("      Z: z\n")
				}
				files := map[string]string{"compose.yaml": sb.String()}
				s := &Scn{Files: files, Main: []string{"compose.yaml"}, Env: env, InMem: true}
				switch mode {
				case 1:
					s.Opts = []func(*loader.Options){func(o *loader.Options) { o.SkipNormalization = true }}
				case 2:
					s.Opts = []func(*loader.Options){func(o *loader.Options) { o.SkipNormalization, o.SkipResolveEnvironment = true, true }}
				}
				p, err := s.LoadAt(Scratch())
				sample := map[string]any{"case": id, "files": files, "env": env, "mode": mode}
				if err == nil && mode == 2 {
					err = core.Try(func() error {
						var e error
						p, e = p.WithServicesEnvironmentResolved(false)
						return e
					})
				}
				if err != nil {
					return core.Outcome{Class: "err", Sample: sample, Viol: &core.Violation{Key: "env:spurious-error", Msg: id + ": " + err.Error()}}
				}
				got := p.Services["s"].Environment
				cls := ""
				for i := 1; i <= nkeys; i++ {
					k := fmt.Sprintf("K%d", i)
					cls += k + "=" + ptrStr(got[k]) + ";"
					if w := want[k]; w != nil && (got[k] == nil || *got[k] != *w) {
						return core.Outcome{Class: cls, Sample: sample, Viol: &core.Violation{Key: "env:wrong-value:several-keys",
							Msg: fmt.Sprintf("%s: service environment %s = %s, expected %q", id, k, ptrStr(got[k]), *w)}}
					}
				}
				return core.Outcome{Class: cls, Sample: sample}
			})
		}
	}
	// ---- an env file shared by two services: its references resolve per service (each against that service's own earlier files)
	for order := 0; order < 2; order++ {
		for discard := 0; discard < 2; discard++ {
			for rot := uintptr(0); rot < 8; rot++ {
				// rotations 4..7: the same with WHO also defined by the project environment
				order, discard, rot, pe := order, discard, rot%4, rot >= 4
				id := fmt.Sprintf("shared-file/o%d/d%d/r%d/pe%v", order, discard, rot, pe)
				c.Do(id, func() core.Outcome {
					files := map[string]string{"a.env": "WHO=a\n", "b.env": "WHO=b\n", "shared.env": "GREETING=hello-${WHO}\nPLAIN=p\n"}
					svcs := []string{"  a:\n    image: i\n    env_file: [./a.env, ./shared.env]\n", "  b:\n    image: i\n    env_file: [./b.env, ./shared.env]\n"}
					if order == 1 {
						svcs[0], svcs[1] = svcs[1], svcs[0]
					}
					files["compose.yaml"] = "services:\n" + svcs[0] + svcs[1] + "  c:\n    image: i\n    env_file: [./shared.env]\n    environment: {WHO: c}\n"
					s := &Scn{Files: files, Main: []string{"compose.yaml"}}
					if pe {
						s.Env = map[string]string{"WHO": "pe"}
					}
					if discard == 1 {
						s.Opts = []func(*loader.Options){loader.WithDiscardEnvFiles}
					}
					root := s.Materialise()
					mapctl.SetUniform(rot)
					p, err := s.LoadAt(root)
					mapctl.SetUniform(0)
					sample := map[string]any{"case": id, "files": files}
					if err != nil {
						return core.Outcome{Class: "err", Sample: sample, Viol: &core.Violation{Key: "env:spurious-error", Msg: id + ": " + err.Error()}}
					}
					// service c has no earlier file of its own: the reference resolves against the project environment only
					// (never against what the env files of other services define, nor its own `environment` entries)
					wantC := "hello-"
					if pe {
						wantC = "hello-pe"
					}
					if got := p.Services["c"].Environment["GREETING"]; got == nil || *got != wantC {
						return core.Outcome{Class: "wrong", Sample: sample, Viol: &core.Violation{Key: "env:file-reference-sees-another-service",
							Msg: fmt.Sprintf("%s: service c has GREETING=%s, expected %s (WHO is defined by no env file of c)", id, ptrStr(got), wantC)}}
					}
					for _, n := range []string{"a", "b"} {
						if pe {
							break // which of project environment and own earlier file a reference prefers is not stated
						}
						got := p.Services[n].Environment["GREETING"]
						if got == nil || *got != "hello-"+n {
							return core.Outcome{Class: "wrong", Sample: sample, Viol: &core.Violation{Key: "env:shared-file-resolved-for-another-service",
								Msg: fmt.Sprintf("%s: service %s has GREETING=%s, expected hello-%s (its own earlier env file defines WHO=%s)", id, n, ptrStr(got), n, n)}}
						}
					}
					return core.Outcome{Class: id, Sample: sample}
				})
			}
		}
	}
	// ---- single key over the layer lattice
	for pe := 0; pe < 2; pe++ {
		for fmask := 0; fmask < 8; fmask++ {
			for envKind := 0; envKind < 4; envKind++ { // 0 none 1 value 2 empty 3 valueless
				for spelling := 0; spelling < 2; spelling++ {
					for discard := 0; discard < 3; discard++ {
						// discard 2: the service is behind a profile, disabled by the load, and enabled afterwards with
						// WithServicesEnabled (which resolves its environment and discards the file references)
						later := discard == 2
						pe, fmask, envKind, spelling, discard := pe, fmask, envKind, spelling, discard
						id := fmt.Sprintf("env/pe%d/f%d/e%d/sp%d/d%d", pe, fmask, envKind, spelling, discard)
						if later {
							discard = 1
						}
						c.Do(id, func() core.Outcome {
							files := map[string]string{}
							for i := 0; i < 3; i++ {
								content := fmt.Sprintf("OTHER%d=o%d\n", i+1, i+1)
								if fmask&(1<<i) != 0 {
									content += fmt.Sprintf("K=f%d\n", i+1)
								}
								files[fmt.Sprintf("e%d.env", i+1)] = content
							}
							var sb strings.Builder
							sb.WriteString("services:\n  s:\n    image: i\n    env_file: [./e1.env, ./e2.env, ./e3.env]\n")
							if later {
								sb.WriteString("    profiles: [off]\n")
							}
							if envKind != 0 {
								sb.WriteString("    environment:\n")
								switch {
								case spelling == 0 && envKind == 1:
									sb.WriteString("      - K=ev\n      - Z=z\n")
								case spelling == 0 && envKind == 2:
									sb.WriteString("      - K=\n      - Z=z\n")
								case spelling == 0 && envKind == 3:
									sb.WriteString("      - K\n      - Z=z\n")
								case spelling == 1 && envKind == 1:
									sb.WriteString("      K: ev\n      Z: z\n")
								case spelling == 1 && envKind == 2:
									sb.WriteString("      K: \"\"\n      Z: z\n")
								case spelling == 1 && envKind == 3:
									sb.WriteString("      K:\n      Z: z\n")
								}
							}
							files["compose.yaml"] = sb.String()
							env := map[string]string{}
							if pe == 1 {
								env["K"] = "pe"
							}
							s := &Scn{Files: files, Main: []string{"compose.yaml"}, Env: env}
							if discard == 1 {
								s.Opts = []func(*loader.Options){loader.WithDiscardEnvFiles}
							}
							root := s.Materialise()
							p, err := s.LoadAt(root)
							sample := map[string]any{"case": id, "files": files, "env": env}
							if err == nil && later {
								err = core.Try(func() error {
									var e error
									p, e = p.WithServicesEnabled("s")
									return e
								})
							}
							if err != nil {
								return core.Outcome{Class: "err", Sample: sample, Viol: &core.Violation{Key: "env:spurious-error", Msg: id + ": " + err.Error()}}
							}
							svc := p.Services["s"]
							got, present := svc.Environment["K"]
							// reference
							var want *string
							wantPresent := false
							defined := true // does the statement define the outcome?
							lastFile := ""
							for i := 0; i < 3; i++ {
								if fmask&(1<<i) != 0 {
									lastFile = fmt.Sprintf("f%d", i+1)
								}
							}
							set := func(v string) { want = &v; wantPresent = true }
							switch envKind {
							case 0:
								if lastFile != "" {
									set(lastFile)
								}
							case 1:
								set("ev")
							case 2:
								set("")
							case 3:
								if pe == 1 {
									set("pe")
								} else {
									defined = false
								}
							}
							cls := fmt.Sprintf("%v/%s", present, ptrStr(got))
							if defined {
								if present != wantPresent || (wantPresent && (got == nil || *got != *want)) {
									return core.Outcome{Class: cls, Sample: sample, Viol: &core.Violation{Key: fmt.Sprintf("env:wrong-value:e%d", envKind),
										Msg: fmt.Sprintf("%s: service environment K = %s (present=%v), expected %s (present=%v)", id, ptrStr(got), present, ptrStr(want), wantPresent)}}
								}
							}
							// keys of other layers are preserved
							for i := 0; i < 3; i++ {
								k := fmt.Sprintf("OTHER%d", i+1)
								if v := svc.Environment[k]; v == nil || *v != fmt.Sprintf("o%d", i+1) {
									return core.Outcome{Class: cls, Sample: sample, Viol: &core.Violation{Key: "env:file-key-lost", Msg: fmt.Sprintf("%s: %s from env file %d is %s", id, k, i+1, ptrStr(v))}}
								}
							}
							if envKind != 0 {
								if v := svc.Environment["Z"]; v == nil || *v != "z" {
									return core.Outcome{Class: cls, Sample: sample, Viol: &core.Violation{Key: "env:environment-key-lost", Msg: id + ": Z from `environment` is " + ptrStr(v)}}
								}
							}
							// discard removes only the file references
							if discard == 1 && len(svc.EnvFiles) != 0 {
								return core.Outcome{Class: cls, Sample: sample, Viol: &core.Violation{Key: "env:discard-ignored", Msg: id + ": env_file references kept although discard was requested"}}
							}
							if discard == 0 && len(svc.EnvFiles) != 3 {
								return core.Outcome{Class: cls, Sample: sample, Viol: &core.Violation{Key: "env:files-dropped", Msg: fmt.Sprintf("%s: %d env_file references kept, expected 3", id, len(svc.EnvFiles))}}
							}
							return core.Outcome{Class: id[:strings.LastIndex(id, "/")] + cls, Sample: sample}
						})
					}
				}
			}
		}
	}
	// ---- cross references: e2.env has A=${B}; B defined in exactly one place
	for where := 0; where < 5; where++ { // 0 project env, 1 earlier file, 2 earlier line, 3 later file, 4 nowhere
		for quoted := 0; quoted < 2; quoted++ {
			where, quoted := where, quoted
			id := fmt.Sprintf("xref/w%d/q%d", where, quoted)
			c.Do(id, func() core.Outcome {
				files := map[string]string{"e1.env": "P=1\n", "e2.env": "", "e3.env": "Q=3\n"}
				ref := "A=x${B}y\n"
				if quoted == 1 {
					ref = "A=\"x${B}y\"\n"
				}
				env := map[string]string{}
				want := "xy"
				switch where {
				case 0:
					env["B"] = "pe"
					want = "xpey"
				case 1:
					files["e1.env"] += "B=f1\n"
					want = "xf1y"
				case 2:
					files["e2.env"] += "B=l2\n"
					want = "xl2y"
				case 3:
					files["e3.env"] += "B=f3\n"
				}
				files["e2.env"] += ref
				files["compose.yaml"] = "services:\n  s:\n    image: i\n    env_file: [./e1.env, ./e2.env, ./e3.env]\n"
				s := &Scn{Files: files, Main: []string{"compose.yaml"}, Env: env}
				root := s.Materialise()
				p, err := s.LoadAt(root)
				sample := map[string]any{"case": id, "files": files, "env": env}
				if err != nil {
					return core.Outcome{Class: "err", Sample: sample, Viol: &core.Violation{Key: "xref:spurious-error", Msg: id + ": " + err.Error()}}
				}
				got := p.Services["s"].Environment["A"]
				if got == nil || *got != want {
					return core.Outcome{Class: ptrStr(got), Sample: sample, Viol: &core.Violation{Key: fmt.Sprintf("xref:wrong-value:w%d", where),
						Msg: fmt.Sprintf("%s: A = %s, expected %q", id, ptrStr(got), want)}}
				}
				return core.Outcome{Class: id + ptrStr(got), Sample: sample}
			})
		}
	}
	// ---- cross references with the name defined in TWO layers: the statement lists what an env file may
	// reference as "earlier env files, the project environment and earlier lines"; with the dotenv rule
	// (lookup first, earlier lines second) this reads as a precedence: earlier file > project environment > earlier line
	for combo := 0; combo < 3; combo++ { // 0: earlier file + project env; 1: project env + earlier line; 2: earlier file + earlier line
		for form := 0; form < 2; form++ { // 0: ${B} reference, 1: bare inherited key
			combo, form := combo, form
			id := fmt.Sprintf("xref2/c%d/f%d", combo, form)
			c.Do(id, func() core.Outcome {
				files := map[string]string{"e1.env": "P=1\n", "e2.env": ""}
				env := map[string]string{}
				want := ""
				switch combo {
				case 0:
					files["e1.env"] += "B=f1\n"
					env["B"] = "pe"
					want = "f1"
				case 1:
					env["B"] = "pe"
					files["e2.env"] += "B=l2\n"
					want = "pe"
				case 2:
					files["e1.env"] += "B=f1\n"
					files["e2.env"] += "B=l2\n"
					want = "f1"
				}
				key := "A"
				if form == 0 {
					files["e2.env"] += "A=x${B}y\n"
					want = "x" + want + "y"
				} else {
					if combo != 0 {
						return core.Outcome{Class: "na", Trivial: true}
					}
					files["e2.env"] += "B\n" // bare key: inherited from the lookup
					key = "B"
				}
				files["compose.yaml"] = "services:\n  s:\n    image: i\n    env_file: [./e1.env, ./e2.env]\n"
				s := &Scn{Files: files, Main: []string{"compose.yaml"}, Env: env}
				root := s.Materialise()
				p, err := s.LoadAt(root)
				sample := map[string]any{"case": id, "files": files, "env": env}
				if err != nil {
					return core.Outcome{Class: "err", Sample: sample, Viol: &core.Violation{Key: "xref:spurious-error", Msg: id + ": " + err.Error()}}
				}
				got := p.Services["s"].Environment[key]
				if got == nil || *got != want {
					return core.Outcome{Class: ptrStr(got), Sample: sample, Viol: &core.Violation{Key: fmt.Sprintf("xref:wrong-precedence:c%d", combo),
						Msg: fmt.Sprintf("%s: %s = %s, expected %q (earlier env file > project environment > earlier line)", id, key, ptrStr(got), want)}}
				}
				return core.Outcome{Class: id + ptrStr(got), Sample: sample}
			})
		}
	}
	// ---- file presence x required flag
	for state := 0; state < 27; state++ { // per file: 0 present, 1 absent+required, 2 absent+optional
		// how the flag is written: short string (required) / YAML boolean / quoted text / variable / variable default
		for spell := 0; spell < 5; spell++ {
			state, spell := state, spell
			id := fmt.Sprintf("presence/%d/%d", state, spell)
			flag := func(v bool) string {
				switch spell {
				case 2:
					return fmt.Sprintf("\"%v\"", v)
				case 3:
					if v {
						return "\"${REQ_T}\""
					}
					return "\"${REQ_F}\""
				case 4:
					return fmt.Sprintf("\"${UNSET_FLAG:-%v}\"", v)
				}
				return fmt.Sprint(v)
			}
			c.Do(id, func() core.Outcome {
				files := map[string]string{}
				var sb strings.Builder
				sb.WriteString("services:\n  s:\n    image: i\n    env_file:\n")
				x := state
				var missingRequired []string
				for i := 1; i <= 3; i++ {
					st := x % 3
					x /= 3
					name := fmt.Sprintf("p%d.env", i)
					switch st {
					case 0:
						files[name] = fmt.Sprintf("V%d=%d\n", i, i)
						if spell == 0 {
							fmt.Fprintf(&sb, "      - ./%s\n", name)
						} else {
							fmt.Fprintf(&sb, "      - {path: ./%s, required: %s}\n", name, flag(true))
						}
					case 1:
						missingRequired = append(missingRequired, name)
						if spell == 0 {
							fmt.Fprintf(&sb, "      - ./%s\n", name)
						} else {
							fmt.Fprintf(&sb, "      - {path: ./%s, required: %s}\n", name, flag(true))
						}
					case 2:
						fmt.Fprintf(&sb, "      - {path: ./%s, required: %s}\n", name, flag(false))
					}
				}
				files["compose.yaml"] = sb.String()
				s := &Scn{Files: files, Main: []string{"compose.yaml"}, Env: map[string]string{"REQ_T": "true", "REQ_F": "false"}}
				root := s.Materialise()
				p, err := s.LoadAt(root)
				sample := map[string]any{"case": id, "files": files}
				if len(missingRequired) > 0 {
					if err == nil {
						return core.Outcome{Class: "ok", Sample: sample, Viol: &core.Violation{Key: "presence:missing-required-accepted", Msg: fmt.Sprintf("%s: required env files %v are missing but the load succeeds", id, missingRequired)}}
					}
					named := false
					for _, m := range missingRequired {
						if strings.Contains(err.Error(), m) {
							named = true
						}
					}
					if !named {
						return core.Outcome{Class: "err", Sample: sample, Viol: &core.Violation{Key: "presence:error-does-not-name-file", Msg: fmt.Sprintf("%s: error %q names none of %v", id, err.Error(), missingRequired)}}
					}
					return core.Outcome{Class: "error-names-file", Sample: sample}
				}
				if err != nil {
					return core.Outcome{Class: "err", Sample: sample, Viol: &core.Violation{Key: "presence:optional-missing-raises", Msg: id + ": only optional files are missing but the load fails: " + err.Error()}}
				}
				x = state
				for i := 1; i <= 3; i++ {
					st := x % 3
					x /= 3
					v := p.Services["s"].Environment[fmt.Sprintf("V%d", i)]
					if st == 0 && (v == nil || *v != fmt.Sprint(i)) {
						return core.Outcome{Class: "lost", Sample: sample, Viol: &core.Violation{Key: "presence:present-file-ignored", Msg: fmt.Sprintf("%s: V%d from a present file is %s", id, i, ptrStr(v))}}
					}
				}
				return core.Outcome{Class: id, Sample: sample}
			})
		}
	}
	// ---- labels: label_file 1..2 x labels entry
	for fmask := 0; fmask < 4; fmask++ {
		for lab := 0; lab < 3; lab++ { // 0 none, 1 list, 2 mapping
			for discard := 0; discard < 2; discard++ {
				fmask, lab, discard := fmask, lab, discard
				id := fmt.Sprintf("labels/f%d/l%d/d%d", fmask, lab, discard)
				c.Do(id, func() core.Outcome {
					files := map[string]string{}
					for i := 0; i < 2; i++ {
						content := fmt.Sprintf("other%d=o%d\n", i+1, i+1)
						if fmask&(1<<i) != 0 {
							content += fmt.Sprintf("k=f%d\n", i+1)
						}
						files[fmt.Sprintf("l%d.labels", i+1)] = content
					}
					doc := "services:\n  s:\n    image: i\n    label_file: [./l1.labels, ./l2.labels]\n"
					switch lab {
					case 1:
						doc += "    labels: [k=lv, z=z]\n"
					case 2:
						doc += "    labels: {k: lv, z: z}\n"
					}
					files["compose.yaml"] = doc
					s := &Scn{Files: files, Main: []string{"compose.yaml"}}
					if discard == 1 {
						s.Opts = []func(*loader.Options){loader.WithDiscardEnvFiles}
					}
					root := s.Materialise()
					p, err := s.LoadAt(root)
					sample := map[string]any{"case": id, "files": files}
					if err != nil {
						return core.Outcome{Class: "err", Sample: sample, Viol: &core.Violation{Key: "labels:spurious-error", Msg: id + ": " + err.Error()}}
					}
					got, present := p.Services["s"].Labels["k"]
					want, wantPresent := "", false
					if lab != 0 {
						want, wantPresent = "lv", true
					} else if fmask&2 != 0 {
						want, wantPresent = "f2", true
					} else if fmask&1 != 0 {
						want, wantPresent = "f1", true
					}
					if present != wantPresent || got != want {
						return core.Outcome{Class: got, Sample: sample, Viol: &core.Violation{Key: "labels:wrong-value", Msg: fmt.Sprintf("%s: label k = %q (present=%v), expected %q (present=%v)", id, got, present, want, wantPresent)}}
					}
					for i := 1; i <= 2; i++ {
						if p.Services["s"].Labels[fmt.Sprintf("other%d", i)] != fmt.Sprintf("o%d", i) {
							return core.Outcome{Class: got, Sample: sample, Viol: &core.Violation{Key: "labels:file-key-lost", Msg: fmt.Sprintf("%s: other%d lost", id, i)}}
						}
					}
					return core.Outcome{Class: id + got, Sample: sample}
				})
			}
		}
	}
	// missing label file is an error naming it
	c.Do("labels/missing", func() core.Outcome {
		s := &Scn{Files: map[string]string{"compose.yaml": "services:\n  s:\n    image: i\n    label_file: [./nope.labels]\n"}, Main: []string{"compose.yaml"}}
		root := s.Materialise()
		_, err := s.LoadAt(root)
		if err == nil || !strings.Contains(err.Error(), "nope.labels") {
			return core.Outcome{Class: "x", Viol: &core.Violation{Key: "labels:missing-file-not-reported", Msg: fmt.Sprintf("missing label file: err=%v", err)}}
		}
		return core.Outcome{Class: "labels-missing-ok"}
	})
}
