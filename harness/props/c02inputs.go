package props

import "github.com/compose-spec/compose-go/v2/loader"

// extra C02 inputs exercising list/map spellings on both merge sides
func c02extraInputs() map[string]*Scn {
	a := `
services:
  s:
    image: s
    build:
      context: .
      args: [A=1, B=2]
      labels: {x: "1", y: "2"}
      ssh: [default, k2=/p2, k1=/p1, k3=/p3]
    environment: {E1: "1", E2: "2", E3: "3"}
    labels: [l1=1, l2=2, l3=3]
    extra_hosts: {h1: 1.1.1.1, h2: 2.2.2.2, h3: "::3"}
    sysctls: {a.b: 1, c.d: 2}
    ports: ["5000-5003:6000-6003/udp", "5000-5003:6000-6003/tcp"]
    depends_on: [t, u]
    networks: [n1, n2, n3]
    dns: [1.1.1.1, 2.2.2.2]
    annotations: [a1=1, a2=2]
  t: {image: t, networks: [n1]}
  u: {image: u, networks: [n2], depends_on: [t]}
networks:
  n1: {ipam: {config: [{subnet: 10.1.0.0/16}, {subnet: 10.2.0.0/16}]}}
  n2: {driver_opts: {a: "1", b: "2", c: "3"}}
  n3: {labels: {k1: v1, k2: v2}}
`
	b := `
services:
  s:
    build:
      args: {B: 3, C: 4}
      labels: [y=3, z=4]
      ssh: {k4: /p4, k1: /p1b}
    environment: [E2=b, E4=4]
    labels: {l2: b, l4: "4"}
    extra_hosts: [h2=9.9.9.9, h4=4.4.4.4]
    sysctls: [c.d=3, e.f=4]
    ports: ["5001:6001/udp"]
    depends_on: {v: {condition: service_healthy}}
    networks: {n2: {aliases: [al]}, n4: {}}
    dns: 3.3.3.3
    annotations: {a2: b, a3: c}
  v: {image: v}
networks:
  n1: {ipam: {config: [{subnet: 10.2.0.0/16, gateway: 10.2.0.1}, {subnet: 10.3.0.0/16}]}}
  n4: {}
`
	sameMain := `
services:
  web:
    extends: {file: common.yaml, service: web}
    environment: [ROLE=frontend]
    ports: ["8080:80"]
  alpha:
    extends: {file: common.yaml, service: web}
  worker:
    extends: {file: common.yaml, service: web}
    command: work
  zeta:
    extends: {file: ./common.yaml, service: api}
  api:
    extends: {file: common.yaml, service: api}
    labels: [main=1]
`
	sameCommon := `
services:
  web:
    image: common
    environment: [ROLE=common]
  api:
    extends: web
    environment: [API=1]
`
	refineBase := `
services:
  s:
    image: s
    depends_on: [t, u]
    links: [t]
    network_mode: "service:u"
  t: {image: t}
  u: {image: u}
`
	refineOver := `
services:
  s:
    depends_on:
      t: {condition: service_healthy, restart: true}
      u: {condition: service_completed_successfully, required: false}
`
	knownExt := `
services:
  a:
    image: a
    x-tune: {level: 1, tags: [one]}
  b:
    image: b
    x-tune: {level: 2}
  c:
    image: c
    x-tune: {tags: [three, more]}
networks:
  n:
    x-tune: {level: 4}
`
	type tune struct {
		Level int      `yaml:"level" json:"level"`
		Tags  []string `yaml:"tags" json:"tags"`
	}
	// the extension type is registered once per option set: by value, by pointer, and as a map
	knownBy := func(v any) []func(*loader.Options) {
		return []func(*loader.Options){func(o *loader.Options) { o.KnownExtensions = map[string]any{"x-tune": v} }}
	}
	return map[string]*Scn{
		"known-ext-value":   {Files: map[string]string{"compose.yaml": knownExt}, Main: []string{"compose.yaml"}, Opts: knownBy(tune{})},
		"known-ext-pointer": {Files: map[string]string{"compose.yaml": knownExt}, Main: []string{"compose.yaml"}, Opts: knownBy(&tune{})},
		"known-ext-map":     {Files: map[string]string{"compose.yaml": knownExt}, Main: []string{"compose.yaml"}, Opts: knownBy(map[string]any{})},
		"depends-refine":    {Files: map[string]string{"a.yaml": refineBase, "b.yaml": refineOver}, Main: []string{"a.yaml", "b.yaml"}},
		"depends-short":     {Files: map[string]string{"a.yaml": refineBase}, Main: []string{"a.yaml"}},
		"extends-samename":  {Files: map[string]string{"compose.yaml": sameMain, "common.yaml": sameCommon}, Main: []string{"compose.yaml"}},
		"spellings":         {Files: map[string]string{"a.yaml": a, "b.yaml": b}, Main: []string{"a.yaml", "b.yaml"}},
	}
}
