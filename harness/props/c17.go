package props

import (
	"context"
	"fmt"
	"os"
	"path/filepath"
	"regexp"
	"strings"

	"github.com/compose-spec/compose-go/v2/cli"
	"github.com/compose-spec/compose-go/v2/types"

	"verifh/core"
)

func init() { core.Register(c17{}) }

type c17 struct{}

func (c17) ID() string    { return "C17" }
func (c17) Level() string { return "exploration" }
func (c17) Rule() string {
	return "full product of {explicit name: unset, ok, invalid x2} x {COMPOSE_PROJECT_NAME: absent | via WithEnv, OS, .env; valid, invalid or empty} x {name: in none/first/last/both of two files or a second --- document} x {name text: literal, ${VAR} set, ${VAR} unset, mixed case, normalises to empty} x {directory base name: plain, upper+dot, leading symbol, unicode, normalises to empty}, loaded through cli.NewProjectOptions/LoadProject with default options and with normalisation off / consistency and path resolution off / environment resolution off; every string of length <= 3 (thorough: 4) over 8 character classes (lower, upper, digit, _, -, ., @, non-ASCII) as directory base name, as literal file name and as COMPOSE_PROJECT_NAME (explicit environment, .env); and a variable that each of {WithEnv, OS environment, .env #1, .env #2} leaves undefined, defines, or defines as the empty string (all 80 state vectors) under all 8 documented option orders, observed through ${V-unset}, plus .env #2 values referencing that variable. Reference = the precedence chains of Appendix A.4. distinct = distinct (configuration class, outcome) pairs"
}
func (c17) Assumptions() []string {
	return []string{
		"when the last file that sets `name:` normalises to empty while an earlier one does not, the statement does not say which candidate follows; either is accepted",
		"the OS environment is set per case inside the single-threaded worker process",
	}
}

var c17nameRe = regexp.MustCompile(`^[a-z0-9][a-z0-9_-]*$`)

func c17norm(s string) string {
	s = strings.ToLower(s)
	var sb strings.Builder
	for _, r := range s {
		if (r >= 'a' && r <= 'z') || (r >= '0' && r <= '9') || r == '_' || r == '-' {
			sb.WriteRune(r)
		}
	}
	return strings.TrimLeft(sb.String(), "_-")
}

type c17nameCase struct {
	explicit  string // "" unset
	envSource int    // 0 absent 1 WithEnv 2 OS 3 .env
	envValid  bool
	placement int // 0 none 1 first 2 last 3 both 4 second-document
	text      int // 0 literal 1 ${VAR} set 2 ${VAR} unset 3 MiXed 4 "..."
	dir       string
	envEmpty  bool // COMPOSE_PROJECT_NAME is present with an empty value: as good as absent, or an error; never a third thing
}

func (n c17nameCase) id() string {
	if n.envEmpty {
		return fmt.Sprintf("name/x%q/e%d-empty/p%d/t%d/d%s", n.explicit, n.envSource, n.placement, n.text, n.dir)
	}
	return fmt.Sprintf("name/x%q/e%d%v/p%d/t%d/d%s", n.explicit, n.envSource, n.envValid, n.placement, n.text, n.dir)
}

// c17extraOpts: further options of the case being run (set by the driver around the call).
var c17extraOpts []cli.ProjectOptionsFn

var c17optionSets = []struct {
	name string
	opts []cli.ProjectOptionsFn
}{
	{"no-normalization", []cli.ProjectOptionsFn{cli.WithNormalization(false)}},
	{"no-consistency-no-paths", []cli.ProjectOptionsFn{cli.WithConsistency(false), cli.WithResolvedPaths(false)}},
	{"no-env-resolution", []cli.ProjectOptionsFn{cli.WithoutEnvironmentResolution}},
}

func c17load(dir string, files []string, opts ...cli.ProjectOptionsFn) (p *types.Project, err error) {
	perr := core.Try(func() error {
		var po *cli.ProjectOptions
		po, err = cli.NewProjectOptions(files, opts...)
		if err != nil {
			return nil
		}
		p, err = po.LoadProject(context.Background())
		return nil
	})
	if perr != nil {
		return nil, perr
	}
	return p, err
}

func (c17) Run(c *core.Ctx) {
	texts := []string{"fromfile", "${NAMEVAR}", "${UNSETVAR}", "MiXed_Name", "..."}
	// interpolated / normalised value of each text
	textVal := []string{"fromfile", "fromvar", "", "mixed_name", ""}
	dirs := []string{"app", "App.v2", "_lead", "ünï-x", "---"}
	explicits := []string{"", "ok-name", "Bad Name", "-lead"}
	base := filepath.Join(Scratch(), "c17")
	for _, ex := range explicits {
		for envSource := 0; envSource < 4; envSource++ {
			for _, envValid := range []bool{true, false} {
				if envSource == 0 && !envValid {
					continue
				}
				for placement := 0; placement < 5; placement++ {
					for text := range texts {
						if placement == 0 && text != 0 {
							continue
						}
						for di, dir := range dirs {
							nc := c17nameCase{ex, envSource, envValid, placement, text, dir, false}
							c.Do(nc.id(), func() core.Outcome { c17extraOpts = nil; return c17nameCheck(base, nc, texts, textVal) })
							// the name rules do not depend on the other load options: the same point with normalisation off,
							// with consistency checks and path resolution off, without environment resolution
							if c.Quick() && di != 0 && di != len(dirs)-1 {
								// quick: the plain directory name and the one that normalises to nothing
								continue
							}
							for _, os := range c17optionSets {
								os := os
								c.Do(nc.id()+"/opt-"+os.name, func() core.Outcome {
									c17extraOpts = os.opts
									defer func() { c17extraOpts = nil }()
									return c17nameCheck(base, nc, texts, textVal)
								})
							}
						}
					}
				}
			}
		}
	}
	// COMPOSE_PROJECT_NAME present but empty, from each source
	for _, ex := range []string{"", "ok-name"} {
		for envSource := 1; envSource < 4; envSource++ {
			for placement := 0; placement < 5; placement++ {
				for _, text := range []int{0, 3} {
					if placement == 0 && text != 0 {
						continue
					}
					for _, dir := range []string{"app", "---"} {
						nc := c17nameCase{explicit: ex, envSource: envSource, envValid: true, envEmpty: true, placement: placement, text: text, dir: dir}
						c.Do(nc.id(), func() core.Outcome { c17extraOpts = nil; return c17nameCheck(base, nc, texts, textVal) })
					}
				}
			}
		}
	}
	// every short string over the character classes as directory base name and as file name: literal
	alphabet := []string{"a", "B", "7", "_", "-", ".", "@", "é"}
	var shapes []string
	var gen func(prefix string, n int)
	gen = func(prefix string, n int) {
		if prefix != "" {
			shapes = append(shapes, prefix)
		}
		if n == 0 {
			return
		}
		for _, a := range alphabet {
			gen(prefix+a, n-1)
		}
	}
	maxShape := 3
	if !c.Quick() {
		maxShape = 4
	}
	gen("", maxShape)
	for _, sh := range shapes {
		sh := sh
		if sh != "." && sh != ".." {
			nc := c17nameCase{"", 0, true, 0, 0, sh, false}
			c.Do("shape/dir/"+sh, func() core.Outcome { return c17nameCheck(base, nc, texts, textVal) })
		}
		nc := c17nameCase{"", 0, true, 1, 0, "app", false}
		c.Do("shape/file/"+sh, func() core.Outcome { return c17nameCheck(base, nc, []string{sh}, []string{c17norm(sh)}) })
		// the same string requested through COMPOSE_PROJECT_NAME (explicit environment, .env): accepted iff it is
		// already in canonical form, never adjusted
		for _, src := range []int{1, 3} {
			src := src
			if src == 3 && (strings.ContainsAny(sh, " ") || strings.HasPrefix(sh, "-")) {
				continue
			}
			c.Do(fmt.Sprintf("shape/env%d/%s", src, sh), func() core.Outcome { return c17envNameCheck(base, sh, src) })
		}
	}
	c17envLattice(c, base)
}

func c17nameCheck(base string, nc c17nameCase, texts, textVal []string) core.Outcome {
	scratchSeq++
	wd := filepath.Join(base, fmt.Sprintf("n%d", scratchSeq), nc.dir)
	os.MkdirAll(wd, 0o755)
	defer os.RemoveAll(filepath.Dir(wd))
	envName := "envname"
	if !nc.envValid {
		envName = "Env Name"
	}
	if nc.envEmpty {
		envName = ""
	}
	svc := "services:\n  s:\n    image: i\n    labels:\n      pn: \"${COMPOSE_PROJECT_NAME}\"\n"
	nameLine := func(t int) string { return "name: \"" + texts[t] + "\"\n" }
	f1, f2 := svc, "services:\n  s:\n    environment: [A=1]\n"
	lastVal, anyEarlier := "", ""
	switch nc.placement {
	case 1:
		f1 = nameLine(nc.text) + f1
		lastVal = textVal[nc.text]
	case 2:
		f2 = nameLine(nc.text) + f2
		lastVal = textVal[nc.text]
	case 3:
		f1 = "name: firstfile\n" + f1
		f2 = nameLine(nc.text) + f2
		lastVal = textVal[nc.text]
		anyEarlier = "firstfile"
	case 4:
		f1 = "name: firstdoc\n" + f1 + "---\n" + nameLine(nc.text) + "services:\n  s:\n    environment: [B=2]\n"
		lastVal = textVal[nc.text]
		anyEarlier = "firstdoc"
	}
	os.WriteFile(filepath.Join(wd, "a.yaml"), []byte(f1), 0o644)
	os.WriteFile(filepath.Join(wd, "b.yaml"), []byte(f2), 0o644)
	files := []string{filepath.Join(wd, "a.yaml"), filepath.Join(wd, "b.yaml")}
	var opts []cli.ProjectOptionsFn
	opts = append(opts, cli.WithWorkingDirectory(wd))
	explicitEnv := []string{"NAMEVAR=fromvar"}
	if nc.envSource == 1 {
		explicitEnv = append(explicitEnv, "COMPOSE_PROJECT_NAME="+envName)
	}
	opts = append(opts, cli.WithEnv(explicitEnv))
	if nc.envSource == 2 {
		os.Setenv("COMPOSE_PROJECT_NAME", envName)
		defer os.Unsetenv("COMPOSE_PROJECT_NAME")
	}
	opts = append(opts, cli.WithOsEnv)
	if nc.envSource == 3 {
		os.WriteFile(filepath.Join(wd, ".env"), []byte("COMPOSE_PROJECT_NAME=\""+envName+"\"\n"), 0o644)
	}
	opts = append(opts, cli.WithEnvFiles(), cli.WithDotEnv)
	if nc.explicit != "" {
		opts = append(opts, cli.WithName(nc.explicit))
	}
	opts = append(opts, c17extraOpts...)
	p, err := c17load(wd, files, opts...)
	// reference
	wantErr := false
	want := ""
	open := false // statement leaves the outcome open
	switch {
	case nc.explicit != "":
		if c17norm(nc.explicit) != nc.explicit {
			wantErr = true
		} else {
			want = nc.explicit
		}
	case nc.envSource != 0 && !nc.envEmpty:
		if !nc.envValid {
			wantErr = true
		} else {
			want = envName
		}
	default:
		switch {
		case nc.placement != 0 && lastVal != "":
			want = lastVal
		case nc.placement != 0 && lastVal == "" && anyEarlier != "":
			open = true
		default:
			want = c17norm(nc.dir)
			if want == "" {
				wantErr = true
			}
		}
	}
	sample := map[string]any{"case": nc.id(), "a.yaml": f1, "b.yaml": f2}
	if pe, ok := err.(*core.PanicError); ok {
		return core.Outcome{Class: "panic", Sample: sample, Viol: &core.Violation{Key: "panic@" + pe.Site, Msg: nc.id() + ": " + pe.Error(), Detail: pe.Stack}}
	}
	if err == nil {
		if p.Name == "" || !c17nameRe.MatchString(p.Name) {
			return core.Outcome{Class: "bad-name", Sample: sample, Viol: &core.Violation{Key: "name:shape", Msg: fmt.Sprintf("%s: loaded with project name %q", nc.id(), p.Name)}}
		}
		if l := p.Services["s"].Labels["pn"]; l != p.Name {
			return core.Outcome{Class: "interp", Sample: sample, Viol: &core.Violation{Key: "name:not-visible-to-interpolation", Msg: fmt.Sprintf("%s: ${COMPOSE_PROJECT_NAME} = %q but project name is %q", nc.id(), l, p.Name)}}
		}
	}
	if open {
		return core.Outcome{Class: "open", Trivial: true}
	}
	if nc.envEmpty && err != nil {
		return core.Outcome{Class: "empty-env-name-rejected", Sample: sample}
	}
	if wantErr {
		if err == nil {
			return core.Outcome{Class: "accepted", Sample: sample, Viol: &core.Violation{Key: "name:invalid-accepted", Msg: fmt.Sprintf("%s: must be rejected, loaded with name %q", nc.id(), p.Name)}}
		}
		return core.Outcome{Class: "rejected", Sample: sample}
	}
	if err != nil {
		return core.Outcome{Class: "error", Sample: sample, Viol: &core.Violation{Key: "name:spurious-error", Msg: fmt.Sprintf("%s: expected name %q, got error %v", nc.id(), want, err)}}
	}
	if p.Name != want {
		src := "dir"
		switch {
		case nc.explicit != "":
			src = "explicit"
		case nc.envSource != 0:
			src = fmt.Sprintf("env%d", nc.envSource)
		case nc.placement != 0:
			src = fmt.Sprintf("file-p%d", nc.placement)
		}
		return core.Outcome{Class: "wrong", Sample: sample, Viol: &core.Violation{Key: "name:wrong-precedence:" + src, Msg: fmt.Sprintf("%s: project name %q, expected %q", nc.id(), p.Name, want)}}
	}
	return core.Outcome{Class: fmt.Sprintf("%s/%d/%d/%s", nc.explicit, nc.envSource, nc.placement, p.Name), Sample: sample}
}

// c17envNameCheck: COMPOSE_PROJECT_NAME = name through WithEnv (src 1) or a .env file (src 3), nothing else naming the project.
func c17envNameCheck(base, name string, src int) core.Outcome {
	scratchSeq++
	wd := filepath.Join(base, fmt.Sprintf("e%d", scratchSeq), "app")
	os.MkdirAll(wd, 0o755)
	defer os.RemoveAll(filepath.Dir(wd))
	os.WriteFile(filepath.Join(wd, "a.yaml"), []byte("services:\n  s:\n    image: i\n    labels:\n      pn: \"${COMPOSE_PROJECT_NAME}\"\n"), 0o644)
	opts := []cli.ProjectOptionsFn{cli.WithWorkingDirectory(wd)}
	if src == 1 {
		opts = append(opts, cli.WithEnv([]string{"COMPOSE_PROJECT_NAME=" + name}))
	} else {
		os.WriteFile(filepath.Join(wd, ".env"), []byte("COMPOSE_PROJECT_NAME='"+name+"'\n"), 0o644)
	}
	opts = append(opts, cli.WithEnvFiles(), cli.WithDotEnv)
	p, err := c17load(wd, []string{filepath.Join(wd, "a.yaml")}, opts...)
	id := fmt.Sprintf("shape/env%d/%s", src, name)
	sample := map[string]any{"case": id, "requested": name}
	if pe, ok := err.(*core.PanicError); ok {
		return core.Outcome{Class: "panic", Sample: sample, Viol: &core.Violation{Key: "panic@" + pe.Site, Msg: id + ": " + pe.Error(), Detail: pe.Stack}}
	}
	canonical := name != "" && c17nameRe.MatchString(name)
	if err == nil {
		if !c17nameRe.MatchString(p.Name) {
			return core.Outcome{Class: "bad-name", Sample: sample, Viol: &core.Violation{Key: "name:shape", Msg: fmt.Sprintf("%s: loaded with project name %q", id, p.Name)}}
		}
		if !canonical {
			return core.Outcome{Class: "accepted", Sample: sample, Viol: &core.Violation{Key: "name:invalid-accepted", Msg: fmt.Sprintf("%s: COMPOSE_PROJECT_NAME=%q is not in canonical form and must be rejected; loaded with name %q", id, name, p.Name)}}
		}
		if p.Name != name {
			return core.Outcome{Class: "wrong", Sample: sample, Viol: &core.Violation{Key: "name:wrong-precedence:env", Msg: fmt.Sprintf("%s: project name %q, expected %q", id, p.Name, name)}}
		}
		return core.Outcome{Class: "env-name-ok"}
	}
	if canonical {
		return core.Outcome{Class: "error", Sample: sample, Viol: &core.Violation{Key: "name:spurious-error", Msg: fmt.Sprintf("%s: the canonical name %q is rejected: %v", id, name, err)}}
	}
	return core.Outcome{Class: "env-name-rejected"}
}

func c17envLattice(c *core.Ctx, base string) {
	// option orders: all permutations of {WithEnv, WithOsEnv, WithEnvFiles, WithDotEnv} with DotEnv after OsEnv and EnvFiles
	var orders [][]int
	permute(4, func(p []int) {
		pos := map[int]int{}
		for i, x := range p {
			pos[x] = i
		}
		if pos[3] > pos[1] && pos[3] > pos[2] {
			orders = append(orders, append([]int{}, p...))
		}
	})
	layerVal := []string{"explicit", "osenv", "dotenv1", "dotenv2"}
	// every layer leaves V undefined (0), defines it (1) or defines it as the empty string (2): a variable defined
	// empty is defined, and wins over the layers below it like any other value
	for code := 1; code < 81; code++ {
		var st [4]int
		for i, x := 0, code; i < 4; i, x = i+1, x/3 {
			st[i] = x % 3
		}
		valOf := func(i int) string {
			if st[i] == 1 {
				return layerVal[i]
			}
			return ""
		}
		for oi, ord := range orders {
			for ref := 0; ref < 2; ref++ { // 0: observe V itself; 1: observe W=${V} written in .env #2
				code, st, oi, ord, ref := code, st, oi, ord, ref
				id := fmt.Sprintf("env/s%d%d%d%d/o%d/r%d", st[0], st[1], st[2], st[3], oi, ref)
				_ = code
				c.Do(id, func() core.Outcome {
					scratchSeq++
					wd := filepath.Join(base, fmt.Sprintf("e%d", scratchSeq))
					os.MkdirAll(wd, 0o755)
					defer os.RemoveAll(wd)
					doc := "services:\n  s:\n    image: i\n    labels:\n      v: \"${V-unset}\"\n      w: \"${W-unset}\"\n"
					os.WriteFile(filepath.Join(wd, "compose.yaml"), []byte(doc), 0o644)
					e1, e2 := "U1=1\n", "U2=2\n"
					if st[2] != 0 {
						e1 += "V=" + valOf(2) + "\n"
					}
					if st[3] != 0 {
						e2 += "V=" + valOf(3) + "\n"
					}
					if ref == 1 {
						e2 = "W=ref-${V-unset}\n" + e2 // references V before (possibly) defining it itself
					}
					os.WriteFile(filepath.Join(wd, "one.env"), []byte(e1), 0o644)
					os.WriteFile(filepath.Join(wd, "two.env"), []byte(e2), 0o644)
					var explicit []string
					if st[0] != 0 {
						explicit = []string{"V=" + valOf(0)}
					}
					if st[1] != 0 {
						os.Setenv("V", valOf(1))
						defer os.Unsetenv("V")
					}
					avail := []cli.ProjectOptionsFn{cli.WithEnv(explicit), cli.WithOsEnv,
						cli.WithEnvFiles(filepath.Join(wd, "one.env"), filepath.Join(wd, "two.env")), cli.WithDotEnv}
					opts := []cli.ProjectOptionsFn{cli.WithWorkingDirectory(wd), cli.WithName("p")}
					for _, x := range ord {
						opts = append(opts, avail[x])
					}
					p, err := c17load(wd, []string{filepath.Join(wd, "compose.yaml")}, opts...)
					sample := map[string]any{"case": id, "one.env": e1, "two.env": e2, "explicit": explicit, "order": ord}
					if err != nil {
						return core.Outcome{Class: "err", Sample: sample, Viol: &core.Violation{Key: "env:spurious-error", Msg: id + ": " + err.Error()}}
					}
					want := "unset"
					for _, i := range []int{0, 1, 3, 2} { // explicit > OS > .env #2 > .env #1
						if st[i] != 0 {
							want = valOf(i)
							break
						}
					}
					if ref == 0 {
						if got := p.Services["s"].Labels["v"]; got != want {
							return core.Outcome{Class: got, Sample: sample, Viol: &core.Violation{Key: "env:wrong-precedence", Msg: fmt.Sprintf("%s: ${V-unset} = %q, expected %q (explicit > OS > .env #2 > .env #1; a variable defined empty is defined)", id, got, want)}}
						}
						return core.Outcome{Class: fmt.Sprintf("s%v:%s", st, want), Sample: sample}
					}
					// W=ref-${V-unset} in .env #2 may reference the variables above it: explicit, OS, .env #1
					wantRef := "unset"
					for i := 0; i < 3; i++ {
						if st[i] != 0 {
							wantRef = valOf(i)
							break
						}
					}
					got := p.Services["s"].Labels["w"]
					posOf := func(x int) int {
						for i, y := range ord {
							if y == x {
								return i
							}
						}
						return -1
					}
					if st[0] != 0 && posOf(0) > posOf(3) {
						// explicit variables supplied after the .env files were read cannot be referenced by them: not asserted
						return core.Outcome{Class: "open", Trivial: true}
					}
					if st[0] == 0 && st[1] == 0 && st[2] == 0 {
						// V defined only later in the same file: not "above" -> nothing asserted
						return core.Outcome{Class: "open", Trivial: true}
					}
					if got != "ref-"+wantRef {
						return core.Outcome{Class: got, Sample: sample, Viol: &core.Violation{Key: "env:reference-precedence", Msg: fmt.Sprintf("%s: W (written ref-${V-unset} in .env #2) = %q, expected %q", id, got, "ref-"+wantRef)}}
					}
					return core.Outcome{Class: fmt.Sprintf("ref/s%v:%s", st, got), Sample: sample}
				})
			}
		}
	}
}
