package props

import (
	"errors"
	"fmt"
	"io"
	"strings"

	"github.com/compose-spec/compose-go/v2/template"
	"github.com/sirupsen/logrus"

	"verifh/core"
	"verifh/refmodel/interp"
)

func init() {
	logrus.SetOutput(io.Discard)
	logrus.SetLevel(logrus.PanicLevel)
	core.Register(c07{})
}

type c07 struct{}

func (c07) ID() string    { return "C07" }
func (c07) Level() string { return "exploration" }
func (c07) Rule() string {
	return "every template of T ::= (lit|$$|$N|${N}|${N op T})* up to an AST-node bound (alphabet shrinking with size) x every environment of the variable-state lattice, plus every string over {$ { } : - + ? A _ 1 space} up to a length bound x 3 environments; each compared with a reference evaluator written from the statement; the templates of up to 3 nodes also through SubstituteWith and SubstituteWithOptions. A case is non-trivial when it contains a substitution; distinct = distinct (template-shape-free) outcome signature: kind of outcome + value"
}
func (c07) Assumptions() []string {
	return []string{
		"reference evaluator refmodel/interp (Appendix A.1 of DESIGN.md) is the specification",
		"a required-error nested in a branch that is not taken is compared on value only if both sides succeed (statement is silent)",
		"arbitrary strings containing a '{' not introduced by '$' are checked for totality and must-error only",
	}
}

type c07alpha struct {
	lits  []string
	names []string
	ops   []string
}

var c07ops = []string{":-", "-", ":+", "+", ":?", "?"}

// each streams all templates with exactly n AST nodes to f (nothing is materialised beyond the current string).
func (a c07alpha) each(n int, prefix string, f func(string)) {
	if n == 0 {
		f(prefix)
		return
	}
	// first item has k nodes (1..n), the remainder n-k
	for k := 1; k <= n; k++ {
		if k == 1 {
			for _, l := range a.lits {
				a.each(n-1, prefix+l, f)
			}
			a.each(n-1, prefix+"$$", f)
			for _, nm := range a.names {
				a.each(n-1, prefix+"$"+nm, f)
				a.each(n-1, prefix+"${"+nm+"}", f)
			}
		}
		for _, nm := range a.names {
			for _, op := range a.ops {
				head := prefix + "${" + nm + op
				a.each(k-1, "", func(sub string) {
					a.each(n-k, head+sub+"}", f)
				})
			}
		}
	}
}

type c07env struct {
	name string
	m    map[string]string
}

func (e c07env) lookup(k string) (string, bool) { v, ok := e.m[k]; return v, ok }

func c07envs(states []string) []c07env {
	var out []c07env
	vals := map[string]*string{}
	s := func(x string) *string { return &x }
	vals["ne"] = s("v")
	vals["empty"] = s("")
	vals["unset"] = nil
	vals["dollar"] = s("$B")
	vals["brace"] = s("${B:-z}")
	for _, sa := range states {
		for _, sb := range states {
			m := map[string]string{}
			if p := vals[sa]; p != nil {
				m["A"] = *p
				if sa == "ne" {
					m["A"] = "va"
				}
			}
			if p := vals[sb]; p != nil {
				m["B"] = *p
				if sb == "ne" {
					m["B"] = "vb"
				}
			}
			out = append(out, c07env{"A=" + sa + ",B=" + sb, m})
		}
	}
	return out
}

// c07check compares the implementation with the reference on one template.
func c07check(t string, e c07env, strictValue bool) core.Outcome {
	return c07checkVia(t, e, strictValue, 0)
}

// c07entries: the public substitution functions, all held to the same reference (default pattern, default operators).
var c07entries = []string{"Substitute", "SubstituteWith", "SubstituteWithOptions"}

func c07checkVia(t string, e c07env, strictValue bool, entry int) core.Outcome {
	var got string
	var gerr error
	perr := core.Try(func() error {
		switch entry {
		case 1:
			got, gerr = template.SubstituteWith(t, e.lookup, template.DefaultPattern)
		case 2:
			got, gerr = template.SubstituteWithOptions(t, e.lookup)
		default:
			got, gerr = template.Substitute(t, e.lookup)
		}
		return nil
	})
	sample := map[string]any{"template": t, "env": e.m}
	if perr != nil {
		pe := perr.(*core.PanicError)
		return core.Outcome{Class: "panic", Sample: sample, Viol: &core.Violation{
			Key: "panic-site=" + pe.Site, Msg: fmt.Sprintf("template.Substitute(%q) panics: %v", t, pe.Val), Detail: pe.Stack}}
	}
	ref, rerr := interp.Eval(t, e.lookup)
	nontrivial := strings.Contains(t, "$")
	var mal *interp.ErrMalformed
	var req *interp.ErrRequired
	switch {
	case errors.As(rerr, &mal):
		if gerr == nil {
			return core.Outcome{Class: "malformed-accepted", Sample: sample, Viol: &core.Violation{
				Key: "malformed-accepted", Msg: fmt.Sprintf("malformed substitution %q (env %s) is accepted and yields %q; the statement requires an error", t, e.name, got)}}
		}
		return core.Outcome{Class: "malformed", Trivial: !nontrivial}
	case errors.As(rerr, &req):
		if gerr == nil {
			if !strictValue {
				return core.Outcome{Class: "req-outside", Trivial: true}
			}
			return core.Outcome{Class: "required-missed", Sample: sample, Viol: &core.Violation{
				Key: "required-error-missing", Msg: fmt.Sprintf("%q (env %s) must fail: variable %s required (%q); got value %q", t, e.name, req.Name, req.Msg, got)}}
		}
		if strictValue && !ref.UnusedBranchError {
			var mre *template.MissingRequiredError
			if !errors.As(gerr, &mre) {
				// an inner malformed/other error in place of the required error is a wrong error class
				return core.Outcome{Class: "required-wrongclass", Sample: sample, Viol: &core.Violation{
					Key: "required-error-wrong-class", Msg: fmt.Sprintf("%q (env %s): expected required-variable error for %s, got %v", t, e.name, req.Name, gerr)}}
			}
			if mre.Variable != req.Name || !strings.Contains(gerr.Error(), req.Msg) {
				return core.Outcome{Class: "required-wrongtext", Sample: sample, Viol: &core.Violation{
					Key: "required-error-text", Msg: fmt.Sprintf("%q (env %s): error must carry variable %q and message %q; got %q", t, e.name, req.Name, req.Msg, gerr.Error())}}
			}
		}
		return core.Outcome{Class: "required:" + req.Name + ":" + req.Msg}
	}
	// reference succeeds
	if gerr != nil {
		if ref.UnusedBranchError || !strictValue {
			return core.Outcome{Class: "unused-branch-error", Trivial: true}
		}
		return core.Outcome{Class: "spurious-error", Sample: sample, Viol: &core.Violation{
			Key: "spurious-error", Msg: fmt.Sprintf("%q (env %s) must yield %q; got error %v", t, e.name, ref.Val, gerr)}}
	}
	if got != ref.Val {
		if !strictValue {
			return core.Outcome{Class: "value-outside", Trivial: true}
		}
		return core.Outcome{Class: "wrong-value", Sample: sample, Viol: &core.Violation{
			Key: "wrong-value", Msg: fmt.Sprintf("%q (env %s) must yield %q; got %q", t, e.name, ref.Val, got)}}
	}
	return core.Outcome{Class: "ok:" + got, Trivial: !nontrivial, Sample: sample}
}

// inSubLanguage: every '{' is introduced by an unescaped '$'.
func c07inSub(s string) bool {
	for i := 0; i < len(s); i++ {
		if s[i] == '$' && i+1 < len(s) && s[i+1] == '$' {
			i++
			continue
		}
		if s[i] == '$' && i+1 < len(s) && s[i+1] == '{' {
			i++
			continue
		}
		if s[i] == '{' {
			return false
		}
	}
	return true
}

func (c07) Run(c *core.Ctx) {
	full := c07alpha{lits: []string{"a", " ", "}", ":", "-", "/"}, names: []string{"A", "B", "_x1"}, ops: c07ops}
	mid := c07alpha{lits: []string{"a", "}", "-"}, names: []string{"A", "B"}, ops: c07ops}
	small := c07alpha{lits: []string{"a", "}"}, names: []string{"A"}, ops: c07ops}
	env25 := c07envs([]string{"ne", "empty", "unset", "dollar", "brace"})
	env9 := c07envs([]string{"ne", "empty", "unset"})
	type stage struct {
		tag  string
		a    c07alpha
		n    int
		envs []c07env
	}
	stages := []stage{{"f", full, 3, env25}, {"m", mid, 4, env9}}
	if !c.Quick() {
		stages = []stage{{"f", full, 3, env25}, {"m", mid, 4, env25}, {"s", small, 6, env9}}
	}
	for _, st := range stages {
		for n := 0; n <= st.n; n++ {
			ti := 0
			stop := false
			st.a.each(n, "", func(t string) {
				if stop {
					return
				}
				if ti&4095 == 0 && c.Expired() {
					stop = true
					return
				}
				for ei, e := range st.envs {
					id := fmt.Sprintf("g/%s/%d/%d/%d", st.tag, n, ti, ei)
					e := e
					c.Do(id, func() core.Outcome { return c07check(t, e, true) })
					if n <= 3 && st.tag == "f" {
						// the other public entry points on the templates of up to 3 nodes
						for en := 1; en < len(c07entries); en++ {
							en := en
							c.Do(id+"/via-"+c07entries[en], func() core.Outcome { return c07checkVia(t, e, true, en) })
						}
					}
				}
				ti++
			})
			if stop {
				return
			}
		}
	}
	// all strings over the error-side alphabet
	alpha := []byte("${}:-+?A_1 ")
	maxLen := 6
	if !c.Quick() {
		maxLen = 7
	}
	envs3 := []c07env{{"A=unset", map[string]string{}}, {"A=ne", map[string]string{"A": "v"}}, {"A=empty", map[string]string{"A": ""}}}
	buf := make([]byte, 0, maxLen)
	var rec func(depth int)
	cnt := 0
	rec = func(depth int) {
		if depth > 0 {
			s := string(buf)
			strict := c07inSub(s)
			for ei, e := range envs3 {
				e := e
				c.Do(fmt.Sprintf("s/%s/%d", s, ei), func() core.Outcome { return c07check(s, e, strict) })
			}
			cnt++
		}
		if depth == maxLen || (cnt&4095 == 0 && c.Expired()) {
			return
		}
		for _, b := range alpha {
			buf = append(buf, b)
			rec(depth + 1)
			buf = buf[:len(buf)-1]
		}
	}
	rec(0)
}
