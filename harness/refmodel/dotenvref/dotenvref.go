// Package dotenvref is the reference evaluator of the documented dotenv
// grammar (DESIGN.md Appendix A.2). It decides three things about a file:
// the map it denotes, that it must be an error, or that it lies outside the
// checked sub-language (then only totality is asserted).
package dotenvref

import (
	"strings"

	"verifh/refmodel/interp"
)

type Verdict int

const (
	Defined   Verdict = iota // Map is what the grammar defines
	MustError                // unterminated quote / invalid key / malformed or required substitution
	Outside                  // statement does not define this input
)

type Result struct {
	V      Verdict
	Map    map[string]string
	Reason string
	// SoftError: an error is acceptable but not required (e.g. a required-error in an untaken branch)
	SoftError bool
}

type Lookup func(string) (string, bool)

func isBlank(c byte) bool { return c == ' ' || c == '\t' }

func keyStart(c byte) bool { return c == '_' || (c >= 'a' && c <= 'z') || (c >= 'A' && c <= 'Z') }
func keyChar(c byte) bool {
	return keyStart(c) || (c >= '0' && c <= '9') || c == '.' || c == '-'
}

func outside(r string) Result { return Result{V: Outside, Reason: r} }
func mustErr(r string) Result { return Result{V: MustError, Reason: r} }

// Parse evaluates src.
func Parse(src string, lookup Lookup) Result {
	if lookup == nil {
		lookup = func(string) (string, bool) { return "", false }
	}
	out := map[string]string{}
	soft := false
	for i := 0; i < len(src); i++ {
		if src[i] >= 0x80 {
			// non-ASCII outside quotes is not addressed by the statement; inside quotes is fine,
			// handled below by scanning; decide later
		}
	}
	i := 0
	n := len(src)
	for {
		// skip blank lines / leading blanks
		for i < n && (isBlank(src[i]) || src[i] == '\n' || src[i] == '\r') {
			i++
		}
		if i >= n {
			break
		}
		if src[i] == '#' {
			for i < n && src[i] != '\n' {
				i++
			}
			continue
		}
		// optional export
		if strings.HasPrefix(src[i:], "export") && i+6 < n && isBlank(src[i+6]) {
			j := i + 6
			for j < n && isBlank(src[j]) {
				j++
			}
			// "export" followed by a key
			if j < n && keyStart(src[j]) {
				i = j
			} else {
				return outside("export without key")
			}
		}
		// key
		if !keyStart(src[i]) {
			c := src[i]
			if c >= '0' && c <= '9' {
				return outside("digit-leading key")
			}
			if c == '=' || c == ':' {
				return outside("empty key")
			}
			if c >= 0x80 || c == '.' || c == '-' || c == '[' || c == ']' || c == '\v' || c == '\f' {
				return outside("key start not addressed by the statement")
			}
			return mustErr("invalid key character " + string(c))
		}
		j := i
		for j < n && keyChar(src[j]) {
			j++
		}
		key := src[i:j]
		// blanks
		k := j
		for k < n && isBlank(src[k]) {
			k++
		}
		if k >= n || src[k] == '\n' || (src[k] == '\r' && (k+1 >= n || src[k+1] == '\n')) {
			// bare key, newline- or EOF-terminated
			if v, ok := lookup(key); ok {
				out[key] = v
			}
			i = k
			continue
		}
		if src[k] != '=' && src[k] != ':' {
			c := src[k]
			if k > j {
				// KEY blanks something: a key containing a blank
				if c >= 0x80 || c == '[' || c == ']' || c == '\r' || c == '\v' || c == '\f' {
					return outside("character after blank in key")
				}
				if strings.ContainsRune(src[j:k], '\t') {
					// the statement names no rule for a tab inside a key
					return outside("tab inside a key")
				}
				// find whether an assignment follows on this line: then it is "key with a space" -> error;
				// otherwise a bare key line with trailing garbage: also an invalid key
				return mustErr("key contains a blank")
			}
			if c >= 0x80 || c == '[' || c == ']' || c == '\r' || c == '\v' || c == '\f' {
				return outside("key character not addressed by the statement")
			}
			return mustErr("invalid key character " + string(c))
		}
		// value
		v := k + 1
		for v < n && isBlank(src[v]) {
			v++
		}
		if v >= n {
			out[key] = ""
			i = v
			continue
		}
		switch src[v] {
		case '\'':
			e := v + 1
			for e < n && src[e] != '\'' {
				if src[e] == '\\' {
					// backslash inside single quotes: only defined when it does not precede a quote
					if e+1 < n && src[e+1] == '\'' {
						return outside("backslash-quote inside single quotes")
					}
				}
				e++
			}
			if e >= n {
				return mustErr("unterminated single quote")
			}
			out[key] = src[v+1 : e]
			i = e + 1
			if r := afterQuote(src, &i); r != "" {
				return outside(r)
			}
		case '"':
			e := v + 1
			var raw []byte
			bad := ""
			for e < n && src[e] != '"' {
				if src[e] == '\\' {
					if e+1 >= n {
						e++
						break
					}
					switch src[e+1] {
					case 'n':
						raw = append(raw, '\n')
					case 'r':
						raw = append(raw, '\r')
					case 't':
						raw = append(raw, '\t')
					case '\\':
						raw = append(raw, '\\')
					case '"':
						raw = append(raw, '"')
					case '$':
						raw = append(raw, '$', '$')
					default:
						bad = "escape not in the documented set"
					}
					e += 2
					continue
				}
				raw = append(raw, src[e])
				e++
			}
			if e >= n {
				return mustErr("unterminated double quote")
			}
			if bad != "" {
				return outside(bad)
			}
			val, verdict, sf := interpolate(string(raw), out, lookup)
			if verdict != Defined {
				return Result{V: verdict, Reason: "interpolation in double-quoted value"}
			}
			soft = soft || sf
			out[key] = val
			i = e + 1
			if r := afterQuote(src, &i); r != "" {
				return outside(r)
			}
		default:
			e := v
			for e < n && src[e] != '\n' {
				e++
			}
			val := src[v:e]
			if strings.ContainsAny(val, "\\'\"") {
				return outside("backslash or quote inside an unquoted value")
			}
			for x := 0; x < len(val); x++ {
				if val[x] >= 0x80 || val[x] == '\v' || val[x] == '\f' {
					// unicode spaces at the edge of unquoted values are not addressed
					return outside("non-ASCII in unquoted value")
				}
			}
			if ix := strings.IndexByte(val, '\r'); ix >= 0 && ix != len(val)-1 {
				return outside("carriage return inside a line")
			}
			if len(val) > 0 && val[0] == '#' && v != k+1 {
				// blanks between the separator and the #: value or comment is not stated. Directly after the
				// separator (KEY=#x) it is a value: only blank-then-# starts a comment
				return outside("unquoted value starting with # after blanks")
			}
			if idx := strings.Index(val, " #"); idx >= 0 {
				val = val[:idx]
			}
			val = strings.TrimRight(val, " \t\r")
			if strings.Contains(val, "\r") {
				return outside("carriage return inside a value")
			}
			r, verdict, sf := interpolate(val, out, lookup)
			if verdict != Defined {
				return Result{V: verdict, Reason: "interpolation in unquoted value"}
			}
			soft = soft || sf
			out[key] = r
			i = e
		}
	}
	return Result{V: Defined, Map: out, SoftError: soft}
}

// afterQuote: only blanks, a comment, or end of line may follow a closing quote.
func afterQuote(src string, i *int) string {
	j := *i
	for j < len(src) && (isBlank(src[j]) || src[j] == '\r') {
		j++
	}
	if j >= len(src) || src[j] == '\n' {
		*i = j
		return ""
	}
	if src[j] == '#' && j > *i {
		for j < len(src) && src[j] != '\n' {
			j++
		}
		*i = j
		return ""
	}
	return "text after a closing quote"
}

func interpolate(s string, earlier map[string]string, lookup Lookup) (string, Verdict, bool) {
	if strings.Contains(s, "${") && strings.Contains(s, "\n") {
		return "", Outside, false
	}
	for i := 0; i < len(s); i++ {
		if s[i] == '{' && (i == 0 || s[i-1] != '$') {
			return "", Outside, false
		}
	}
	env := func(k string) (string, bool) {
		if v, ok := lookup(k); ok {
			return v, true
		}
		v, ok := earlier[k]
		return v, ok
	}
	r, err := interp.Eval(s, env)
	if err != nil {
		if r.UnusedBranchError {
			return "", Outside, false
		}
		return "", MustError, false
	}
	if r.UnusedBranchError {
		return "", Outside, false
	}
	return r.Val, Defined, false
}
