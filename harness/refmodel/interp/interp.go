// Package interp is the reference evaluator of the Compose interpolation
// grammar (DESIGN.md Appendix A.1), written from the property statement.
package interp

import "fmt"

// Env maps a variable to (value, set).
type Env func(string) (string, bool)

// ErrMalformed marks a malformed substitution.
type ErrMalformed struct{ At int }

func (e *ErrMalformed) Error() string { return fmt.Sprintf("malformed substitution at %d", e.At) }

// ErrRequired is the error of ${N?msg} / ${N:?msg}.
type ErrRequired struct{ Name, Msg string }

func (e *ErrRequired) Error() string { return "required " + e.Name + ": " + e.Msg }

func nameStart(c byte) bool { return c == '_' || (c >= 'a' && c <= 'z') || (c >= 'A' && c <= 'Z') }
func nameChar(c byte) bool  { return nameStart(c) || (c >= '0' && c <= '9') }

// Result of an evaluation.
type Result struct {
	Val string
	// NestedUnusedError is set when a required-error (or malformed text) sits in
	// a branch the evaluation did not need; the statement does not say whether
	// that must fail, so callers compare on value only when both sides succeed.
	UnusedBranchError bool
}

// Eval evaluates template s. It returns *ErrMalformed, *ErrRequired or nil.
func Eval(s string, env Env) (Result, error) {
	var r Result
	v, err := eval(s, env, &r)
	r.Val = v
	return r, err
}

func eval(s string, env Env, r *Result) (string, error) {
	out := make([]byte, 0, len(s))
	i := 0
	for i < len(s) {
		c := s[i]
		if c != '$' || i+1 >= len(s) {
			out = append(out, c)
			i++
			continue
		}
		n := s[i+1]
		switch {
		case n == '$':
			out = append(out, '$')
			i += 2
		case nameStart(n):
			j := i + 1
			for j < len(s) && nameChar(s[j]) {
				j++
			}
			v, _ := env(s[i+1 : j])
			out = append(out, v...)
			i = j
		case n == '{':
			j := i + 2
			if j >= len(s) || !nameStart(s[j]) {
				return "", &ErrMalformed{i}
			}
			k := j
			for k < len(s) && nameChar(s[k]) {
				k++
			}
			name := s[j:k]
			if k >= len(s) {
				return "", &ErrMalformed{i}
			}
			if s[k] == '}' {
				v, _ := env(name)
				out = append(out, v...)
				i = k + 1
				continue
			}
			colon := false
			if s[k] == ':' {
				colon = true
				k++
			}
			if k >= len(s) || (s[k] != '-' && s[k] != '+' && s[k] != '?') {
				return "", &ErrMalformed{i}
			}
			op := s[k]
			k++
			// find the brace matching the opening one; nested ${ … } are counted
			depth := 1
			m := k
			for m < len(s) {
				if s[m] == '$' && m+1 < len(s) && s[m+1] == '$' {
					m += 2
					continue
				}
				if s[m] == '$' && m+1 < len(s) && s[m+1] == '{' {
					depth++
					m += 2
					continue
				}
				if s[m] == '}' {
					depth--
					if depth == 0 {
						break
					}
				}
				m++
			}
			if m >= len(s) {
				return "", &ErrMalformed{i}
			}
			arg := s[k:m]
			v, set := env(name)
			cond := set
			if colon {
				cond = set && v != ""
			}
			var use bool // whether the argument is needed
			switch op {
			case '-', '?':
				use = !cond
			case '+':
				use = cond
			}
			if !use {
				// argument not needed: evaluate only to learn whether it would fail
				var r2 Result
				if _, err := eval(arg, env, &r2); err != nil || r2.UnusedBranchError {
					r.UnusedBranchError = true
				}
				if op != '+' {
					out = append(out, v...)
				}
			} else {
				av, err := eval(arg, env, r)
				if err != nil {
					return "", err
				}
				switch op {
				case '-', '+':
					out = append(out, av...)
				case '?':
					return "", &ErrRequired{name, av}
				}
			}
			i = m + 1
		default:
			out = append(out, c)
			i++
		}
	}
	return string(out), nil
}
