//go:build sched

// Package sched holds the drivers that need the instrumented, race-enabled build (C13, C19).
package sched

import (
	"encoding/json"
	"fmt"
	"os"
	"path/filepath"
	"sort"
	"strings"
	"sync"
	"time"

	"vsched"

	"verifh/core"
)

// Log is the harness event log of one execution. Appends are harness code (norace):
// the scheduler serialises them.
type Log struct {
	cell uint64
	Ev   []Ev
	mu   sync.Mutex // only used by the free-running pass (no controlled execution active)
}

type Ev struct {
	Kind string // enter | exit | ret
	Name string
	Err  string
}

//go:norace
func (l *Log) Add(kind, name, err string) {
	if !vsched.Active() {
		l.mu.Lock()
		defer l.mu.Unlock()
	}
	if len(l.Ev) == cap(l.Ev) {
		// grow manually (append's growslice would be visible to the race detector)
		n := make([]Ev, len(l.Ev), 2*cap(l.Ev)+16)
		for i := range l.Ev {
			n[i] = l.Ev[i]
		}
		l.Ev = n
	}
	l.Ev = l.Ev[:len(l.Ev)+1]
	l.Ev[len(l.Ev)-1] = Ev{kind, name, err}
	var code uint64 = 14695981039346656037
	for i := 0; i < len(kind); i++ {
		code = (code ^ uint64(kind[i])) * 1099511628211
	}
	for i := 0; i < len(name); i++ {
		code = (code ^ uint64(name[i])) * 1099511628211
	}
	vsched.Event(&l.cell, code)
}

//go:norace
func (l *Log) String() string {
	var sb strings.Builder
	for i, e := range l.Ev {
		if i > 0 {
			sb.WriteByte(' ')
		}
		sb.WriteString(e.Kind)
		if e.Name != "" {
			sb.WriteString("(" + e.Name + ")")
		}
		if e.Err != "" {
			sb.WriteString("!" + e.Err)
		}
	}
	return sb.String()
}

// raceLogBase is where the race detector writes its reports (GORACE log_path).
func raceLogBase() string {
	for _, kv := range strings.Fields(os.Getenv("GORACE")) {
		if strings.HasPrefix(kv, "log_path=") {
			return strings.TrimPrefix(kv, "log_path=")
		}
	}
	return ""
}

var raceSeen int64

// NewRaceReports returns the relevant data-race reports written since the last call.
// A report is relevant iff both racing accesses are in compose-go code (including the
// instrumented errgroup copy); reports involving the scheduler's or the harness's own
// state are artefacts of hiding the baton from the detector.
func NewRaceReports() []string {
	base := raceLogBase()
	if base == "" {
		return nil
	}
	path := fmt.Sprintf("%s.%d", base, os.Getpid())
	b, err := os.ReadFile(path)
	if err != nil || int64(len(b)) <= raceSeen {
		return nil
	}
	fresh := string(b[raceSeen:])
	raceSeen = int64(len(b))
	var out []string
	for _, rep := range strings.Split(fresh, "==================") {
		if !strings.Contains(rep, "WARNING: DATA RACE") {
			continue
		}
		if relevantRace(rep) {
			out = append(out, strings.TrimSpace(rep))
		}
	}
	return out
}

const composePrefix = "github.com/compose-spec/compose-go/v2/"

// relevantRace: the top non-runtime frame of both accesses is compose-go code.
func relevantRace(rep string) bool {
	blocks := 0
	ok := 0
	lines := strings.Split(rep, "\n")
	for i := 0; i < len(lines); i++ {
		l := lines[i]
		if strings.HasPrefix(l, "Read at") || strings.HasPrefix(l, "Write at") || strings.HasPrefix(l, "Previous read at") || strings.HasPrefix(l, "Previous write at") ||
			strings.HasPrefix(l, "Atomic") || strings.HasPrefix(l, "Previous atomic") {
			blocks++
			for j := i + 1; j < len(lines); j++ {
				f := strings.TrimSpace(lines[j])
				if f == "" {
					break
				}
				if strings.HasPrefix(f, "/") { // file:line
					continue
				}
				if strings.HasPrefix(f, "runtime.") || strings.HasPrefix(f, "internal/") {
					continue
				}
				if dataOnlyHelper(f) {
					continue // works on the caller's data only: the access is the caller's
				}
				if strings.HasPrefix(f, composePrefix) {
					ok++
				}
				break
			}
		}
	}
	return blocks >= 2 && ok == blocks
}

// dataOnlyHelper: standard-library algorithms that touch nothing but the data handed to them (no state of their
// own, no synchronisation of their own), so an access reported inside them is an access of their caller.
func dataOnlyHelper(frame string) bool {
	for _, p := range []string{"sort.", "slices.", "maps.", "reflect.Swapper", "reflect.typedmemmove", "reflect.Copy", "reflect.typedslicecopy", "strings.", "bytes."} {
		if strings.HasPrefix(frame, p) {
			return true
		}
	}
	return false
}

// RaceSite extracts a stable key from a report: the top compose-go frame of each racing access.
func RaceSite(rep string) string {
	var sites []string
	lines := strings.Split(rep, "\n")
	for i := 0; i < len(lines); i++ {
		l := lines[i]
		if strings.HasPrefix(l, "Read at") || strings.HasPrefix(l, "Write at") || strings.HasPrefix(l, "Previous read at") || strings.HasPrefix(l, "Previous write at") ||
			strings.HasPrefix(l, "Atomic") || strings.HasPrefix(l, "Previous atomic") {
			for j := i + 1; j < len(lines); j++ {
				f := strings.TrimSpace(lines[j])
				if f == "" {
					break
				}
				if strings.HasPrefix(f, composePrefix) {
					f = strings.TrimPrefix(f, composePrefix)
					if k := strings.LastIndex(f, "("); k > 0 {
						f = f[:k]
					}
					if k := strings.Index(f, "["); k > 0 {
						f = f[:k]
					}
					sites = append(sites, f)
					break
				}
			}
		}
	}
	sort.Strings(sites)
	return strings.Join(sites, "|")
}

// ExploreResult is the outcome of exploring one scenario.
type ExploreResult struct {
	Executions  int64
	States      int64
	Transitions int64
	Bound       int
	Capped      bool
	FailMsg     string
	FailPrefix  []int
	FailTrace   []vsched.TraceEv
	Outcomes    int
}

// ExploreScenario runs iterative preemption bounding 0..bound on one scenario.
func ExploreScenario(bound int, cache bool, deadline time.Time, tick func(), setup func() (func(), func(*vsched.Sched) string)) ExploreResult {
	var res ExploreResult
	outcomes := map[uint64]struct{}{}
	for b := 0; b <= bound; b++ {
		e := &vsched.Explorer{Bound: b, Cache: cache, Deadline: deadline, Setup: setup, Outcomes: outcomes, Tick: tick}
		ok := e.Explore()
		res.Executions += e.Executions
		res.States += e.States
		res.Transitions += e.Transitions
		if !ok {
			res.FailMsg, res.FailPrefix, res.FailTrace = e.FailMsg, e.FailPrefix, e.FailTrace
			res.Bound = b
			return res
		}
		if e.Capped {
			res.Capped = true
			return res
		}
		res.Bound = b
	}
	res.Outcomes = len(outcomes)
	return res
}

func jsonOf(v any) string {
	b, _ := json.Marshal(v)
	return string(b)
}

var _ = filepath.Join
var _ = core.Try
