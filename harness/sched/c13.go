//go:build sched

package sched

import (
	"context"
	"errors"
	"fmt"
	"sort"
	"strings"

	"vsched"

	"github.com/compose-spec/compose-go/v2/graph"
	"github.com/compose-spec/compose-go/v2/types"

	"verifh/core"
	"verifh/mapctl"
)

func init() { core.Register(c13{}) }

type c13 struct{}

func (c13) ID() string    { return "C13" }
func (c13) Level() string { return "model_checking" }
func (c13) Rule() string {
	return "scenario = (DAG up to isomorphism on <=4 services, direction, concurrency limit, root selection, error injection, optional dependencies on a disabled and a missing service under 4 map-iteration starts: plain errors, and on <=3 services errors that are or wrap context.Canceled / DeadlineExceeded); for each scenario every schedule of the instrumented traversal (caller, coordinator, one thread per visit; errgroup's own semaphore/WaitGroup/Once scheduled too) with iterative preemption bounding and every ready select branch, happens-before state caching; 8 monitors on every execution incl. ThreadSanitizer inside the schedule. state = distinct happens-before prefix expanded; transition = executed synchronisation step; distinct = scenarios explored"
}
func (c13) Env() []string { return []string{"GOMAXPROCS=1"} }
func (c13) Assumptions() []string {
	return []string{
		"schedules with more preemptions than the bound are not explored; weak-memory behaviours are not modelled (data-race freedom is checked per schedule)",
		"the syntactic instrumentation (engine/instrument) preserves the semantics of chan/select/go/sync/errgroup constructs",
		"visitor = {record enter; yield; record exit; return injected error}",
	}
}

// dag is a DAG on n nodes; dep[i] lists the nodes i depends on (i -> j with i < j).
type dag struct {
	n   int
	dep [][]int
	key string
}

var svcNames = []string{"a", "b", "c", "d", "e", "f"}

// allDAGs enumerates all DAGs on n nodes up to isomorphism.
func allDAGs(n int) []dag {
	var pairs [][2]int
	for i := 0; i < n; i++ {
		for j := i + 1; j < n; j++ {
			pairs = append(pairs, [2]int{i, j})
		}
	}
	seen := map[string]bool{}
	var out []dag
	perms := permutations(n)
	for mask := 0; mask < 1<<len(pairs); mask++ {
		adj := make([][]bool, n)
		for i := range adj {
			adj[i] = make([]bool, n)
		}
		for b, p := range pairs {
			if mask&(1<<b) != 0 {
				adj[p[0]][p[1]] = true
			}
		}
		// canonical form: minimal adjacency string over all relabellings
		best := ""
		for _, pm := range perms {
			var sb strings.Builder
			for i := 0; i < n; i++ {
				for j := 0; j < n; j++ {
					if adj[pm[i]][pm[j]] {
						sb.WriteByte('1')
					} else {
						sb.WriteByte('0')
					}
				}
			}
			if best == "" || sb.String() < best {
				best = sb.String()
			}
		}
		if seen[best] {
			continue
		}
		seen[best] = true
		d := dag{n: n, dep: make([][]int, n)}
		var ks []string
		for i := 0; i < n; i++ {
			for j := 0; j < n; j++ {
				if adj[i][j] {
					d.dep[i] = append(d.dep[i], j)
					ks = append(ks, svcNames[i]+">"+svcNames[j])
				}
			}
		}
		d.key = fmt.Sprintf("n%d[%s]", n, strings.Join(ks, ","))
		out = append(out, d)
	}
	return out
}

func permutations(n int) [][]int {
	var out [][]int
	idx := make([]int, n)
	for i := range idx {
		idx[i] = i
	}
	var rec func(k int)
	rec = func(k int) {
		if k == n {
			out = append(out, append([]int{}, idx...))
			return
		}
		for i := k; i < n; i++ {
			idx[k], idx[i] = idx[i], idx[k]
			rec(k + 1)
			idx[k], idx[i] = idx[i], idx[k]
		}
	}
	rec(0)
	return out
}

func (d dag) project() *types.Project { return d.projectWith(false) }

// projectWith: with optDeps every service also has an optional dependency on a profile-disabled service and on a
// service that does not exist (both legal: the walk ignores them, and must leave them where they are).
func (d dag) projectWith(optDeps bool) *types.Project {
	p := &types.Project{Name: "p", Services: types.Services{}}
	if optDeps {
		p.DisabledServices = types.Services{"zdis": {Name: "zdis", Image: "img", Profiles: []string{"off"}}}
	}
	for i := 0; i < d.n; i++ {
		s := types.ServiceConfig{Name: svcNames[i], Image: "img"}
		if len(d.dep[i]) > 0 || optDeps {
			s.DependsOn = types.DependsOnConfig{}
			for _, j := range d.dep[i] {
				s.DependsOn[svcNames[j]] = types.ServiceDependency{Condition: "service_started", Required: true}
			}
			if optDeps {
				s.DependsOn["zdis"] = types.ServiceDependency{Condition: "service_started", Required: false}
				s.DependsOn["zmiss"] = types.ServiceDependency{Condition: "service_started", Required: false}
			}
		}
		p.Services[svcNames[i]] = s
	}
	return p
}

type c13scn struct {
	d       dag
	reverse bool
	limit   int
	roots   []int
	errs    []int
	optDeps bool // services also carry optional dependencies on a disabled and on a missing service
	// errKind: what a failing visitor returns: 0 a plain error, 1 an error wrapping context.Canceled, 2 one wrapping
	// context.DeadlineExceeded, 3 context.Canceled itself (the walk's own context is never cancelled by the caller)
	errKind int
	// rot: every map iteration of the walk (building the graph from depends_on among them) starts at this position
	rot uintptr
}

func (s c13scn) id() string {
	dir := "fwd"
	if s.reverse {
		dir = "rev"
	}
	if s.optDeps {
		dir += "+optdeps"
	}
	if s.errKind > 0 {
		dir += fmt.Sprintf("+errkind%d", s.errKind)
	}
	if s.rot > 0 {
		dir += fmt.Sprintf("+rot%d", s.rot)
	}
	return fmt.Sprintf("%s/%s/lim%d/roots%v/errs%v", s.d.key, dir, s.limit, s.roots, s.errs)
}

// expected returns the set of services that must be visited when nothing fails.
func (s c13scn) expected() map[int]bool {
	exp := map[int]bool{}
	if len(s.roots) == 0 {
		for i := 0; i < s.d.n; i++ {
			exp[i] = true
		}
		return exp
	}
	// roots and every service that transitively depends on one
	dependsOnRoot := func(i int) bool {
		seen := map[int]bool{}
		var walk func(x int) bool
		walk = func(x int) bool {
			for _, r := range s.roots {
				if x == r {
					return true
				}
			}
			if seen[x] {
				return false
			}
			seen[x] = true
			for _, j := range s.d.dep[x] {
				if walk(j) {
					return true
				}
			}
			return false
		}
		return walk(i)
	}
	for i := 0; i < s.d.n; i++ {
		if dependsOnRoot(i) {
			exp[i] = true
		}
	}
	return exp
}

type c13run struct {
	log  *Log
	err  error
	ret  bool
	live int
}

// monitor checks one finished execution; returns (key, message) or "".
func (s c13scn) monitor(r *c13run) (string, string) {
	idx := map[string]int{}
	for i := 0; i < s.d.n; i++ {
		idx[svcNames[i]] = i
	}
	exp := s.expected()
	enterAt := map[int]int{}
	exitAt := map[int]int{}
	inside := 0
	maxInside := 0
	injected := map[string]bool{}
	for _, e := range s.errs {
		injected["inj-"+svcNames[e]] = true
	}
	erred := len(s.errs) > 0
	returnedErrs := map[string]bool{}
	retAt := -1
	sfx := ":no-error"
	if erred {
		sfx = ":after-visitor-error"
	}
	for i, e := range r.log.Ev {
		switch e.Kind {
		case "enter":
			n := idx[e.Name]
			if _, dup := enterAt[n]; dup {
				return "visited-twice" + sfx, fmt.Sprintf("service %s visited twice", e.Name)
			}
			if !exp[n] {
				return "unexpected-visit" + sfx, fmt.Sprintf("service %s visited although it neither is a root nor depends on one", e.Name)
			}
			enterAt[n] = i
			inside++
			if inside > maxInside {
				maxInside = inside
			}
			if s.limit > 0 && inside > s.limit {
				return "limit-exceeded" + sfx, fmt.Sprintf("%d visitors running at once with WithMaxConcurrency(%d)", inside, s.limit)
			}
			// ordering
			if !s.reverse {
				for _, j := range s.d.dep[n] {
					if exp[j] {
						if _, done := exitAt[j]; !done {
							return "order" + sfx, fmt.Sprintf("service %s started before the visit of its dependency %s returned", e.Name, svcNames[j])
						}
					}
				}
			} else {
				for k := 0; k < s.d.n; k++ {
					for _, j := range s.d.dep[k] {
						if j == n && exp[k] {
							if _, done := exitAt[k]; !done {
								return "order-reverse" + sfx, fmt.Sprintf("reverse walk: service %s started before the visit of its dependent %s returned", e.Name, svcNames[k])
							}
						}
					}
				}
			}
			if retAt >= 0 {
				return "visit-after-return" + sfx, fmt.Sprintf("service %s visited after the walk returned", e.Name)
			}
		case "exit":
			n := idx[e.Name]
			exitAt[n] = i
			inside--
			if e.Err != "" {
				returnedErrs[e.Err] = true
			}
			if retAt >= 0 {
				return "return-before-visit-end" + sfx, fmt.Sprintf("the walk returned while the visit of %s was still running", e.Name)
			}
		case "ret":
			retAt = i
			if inside != 0 {
				return "return-before-visit-end" + sfx, fmt.Sprintf("the walk returned while %d visits were still running", inside)
			}
		}
	}
	if !r.ret {
		return "no-return" + sfx, "the walk never returned"
	}
	if r.live != 0 {
		return "goroutine-leak" + sfx, fmt.Sprintf("%d goroutines of the walk were still alive when it returned", r.live)
	}
	if !erred {
		if r.err != nil {
			return "spurious-error", fmt.Sprintf("walk returned %v although no visitor failed", r.err)
		}
		for n := range exp {
			if _, ok := enterAt[n]; !ok {
				return "missed-visit", fmt.Sprintf("service %s was never visited", svcNames[n])
			}
		}
	} else {
		if len(returnedErrs) > 0 {
			if r.err == nil {
				return "error-swallowed", "a visitor returned an error but the walk returned nil"
			}
			if !returnedErrs[r.err.Error()] {
				return "wrong-error", fmt.Sprintf("walk returned %q which no executed visit returned (%v)", r.err.Error(), returnedErrs)
			}
		} else if r.err != nil {
			return "spurious-error", fmt.Sprintf("walk returned %v although no executed visitor failed", r.err)
		} else {
			// no visit failed (failing nodes were skipped by root selection): everything expected must be visited
			for n := range exp {
				if _, ok := enterAt[n]; !ok {
					return "missed-visit", fmt.Sprintf("service %s was never visited", svcNames[n])
				}
			}
		}
	}
	return "", ""
}

func (s c13scn) setup() (func(), func(*vsched.Sched) string, *c13run, *types.Project) {
	p := s.d.projectWith(s.optDeps)
	r := &c13run{log: &Log{Ev: make([]Ev, 0, 32)}}
	errFor := map[string]error{}
	for _, e := range s.errs {
		switch s.errKind {
		case 1:
			errFor[svcNames[e]] = fmt.Errorf("inj-%s: %w", svcNames[e], context.Canceled)
		case 2:
			errFor[svcNames[e]] = fmt.Errorf("inj-%s: %w", svcNames[e], context.DeadlineExceeded)
		case 3:
			errFor[svcNames[e]] = context.Canceled
		default:
			errFor[svcNames[e]] = errors.New("inj-" + svcNames[e])
		}
	}
	var opts []func(*graph.Options)
	if s.reverse {
		opts = append(opts, graph.InReverseOrder)
	}
	if s.limit > 0 {
		opts = append(opts, graph.WithMaxConcurrency(s.limit))
	}
	if len(s.roots) > 0 {
		var names []string
		for _, x := range s.roots {
			names = append(names, svcNames[x])
		}
		opts = append(opts, graph.WithRootNodesAndDown(names))
	}
	body := func() {
		mapctl.SetUniform(s.rot)
		defer mapctl.SetUniform(0)
		err := graph.InDependencyOrder(context.Background(), p, func(ctx context.Context, name string, _ types.ServiceConfig) error {
			r.log.Add("enter", name, "")
			vsched.Yield()
			e := errFor[name]
			if e != nil {
				r.log.Add("exit", name, e.Error())
			} else {
				r.log.Add("exit", name, "")
			}
			return e
		}, opts...)
		r.err = err
		r.log.Add("ret", "", "")
		r.ret = true
		r.live = vsched.Live()
	}
	return body, nil, r, p
}

func c13scenarios(quick bool) []c13scn {
	var out []c13scn
	maxN := 4
	for n := 1; n <= maxN; n++ {
		for _, d := range allDAGs(n) {
			limits := []int{0, 1, 2}
			if !quick {
				limits = []int{0, 1, 2, 3}
			}
			var singles [][]int
			var pairs [][]int
			for i := 0; i < n; i++ {
				singles = append(singles, []int{i})
				for j := i + 1; j < n; j++ {
					pairs = append(pairs, []int{i, j})
				}
			}
			sel := append([][]int{nil}, singles...)
			sel = append(sel, pairs...)
			for _, rev := range []bool{false, true} {
				for _, lim := range limits {
					for ri, roots := range sel {
						if rev && roots != nil {
							continue // root selection is documented for the forward walk
						}
						for ei, errs := range sel {
							if n == 4 {
								// quick: on 4 nodes, roots x errors restricted to (any, none) + (none, any) + (single, single)
								if ri > 0 && ei > 0 && !(len(roots) == 1 && len(errs) == 1) {
									continue
								}
							}
							out = append(out, c13scn{d: d, reverse: rev, limit: lim, roots: roots, errs: errs})
						}
					}
				}
				if n <= 3 {
					// what the failing visitor returns does not matter: errors that are, or wrap, the context errors
					for _, lim := range []int{0, 1} {
						for _, errs := range singles {
							for ek := 1; ek <= 3; ek++ {
								out = append(out, c13scn{d: d, reverse: rev, limit: lim, errs: errs, errKind: ek})
							}
						}
					}
				}
				if n <= 3 {
					// optional dependencies on a disabled and on a missing service: ignored by the walk, left in the project
					out = append(out, c13scn{d: d, reverse: rev, limit: 0, optDeps: true})
					// the same with the entries of every depends_on visited from another starting position
					for rot := uintptr(1); rot <= 3; rot++ {
						out = append(out, c13scn{d: d, reverse: rev, limit: 0, optDeps: true, rot: rot})
					}
					out = append(out, c13scn{d: d, reverse: rev, limit: 1, errs: []int{0}, optDeps: true})
				}
			}
		}
	}
	return out
}

// c13bound: the preemption bound explored for a scenario.
//
//	quick:    <= 3 services: 2; 4 services: 1
//	thorough: <= 2 services: 3; 3 services: 3 without root selection, else 2;
//	          4 services: 2 without root selection and with no failing visit (or one failing visit under limit 1), else 1
func c13bound(s c13scn, quick bool) int {
	if quick {
		if s.d.n >= 4 {
			return 1
		}
		return 2
	}
	switch {
	case s.d.n <= 2:
		return 3
	case s.d.n == 3:
		if len(s.roots) == 0 {
			return 3
		}
		return 2
	default:
		if len(s.roots) == 0 && (len(s.errs) == 0 || (len(s.errs) == 1 && s.limit == 1)) {
			return 2
		}
		return 1
	}
}

func (c13) Run(c *core.Ctx) {
	scns := c13scenarios(c.Quick())
	for _, s := range scns {
		s := s
		if c.Expired() {
			return
		}
		c.Do(s.id(), func() core.Outcome { return s.explore(c, c13bound(s, c.Quick()), "") })
	}
	c13cyclic(c)
}

// explore runs every schedule of the scenario within the preemption bound and evaluates the monitors.
func (s c13scn) explore(c *core.Ctx, b int, keyPrefix string) core.Outcome {
	var cur *c13run
	var proj *types.Project
	var before string
	outcomes := map[string]struct{}{}
	setup := func() (func(), func(*vsched.Sched) string) {
		body, _, r, p := s.setup()
		cur, proj = r, p
		before = jsonOf(p)
		return body, func(sc *vsched.Sched) string {
			if sc.Fail != nil {
				return ""
			}
			outcomes[cur.log.String()] = struct{}{}
			key, msg := s.monitor(cur)
			if key != "" {
				return key + "|" + msg + " | events: " + cur.log.String()
			}
			if after := jsonOf(proj); after != before {
				return "project-modified|the project was modified by the walk"
			}
			return ""
		}
	}
	res := ExploreScenario(b, true, c.Dead, c.Heartbeat, setup)
	res.Outcomes = len(outcomes)
	c.Count("states", res.States)
	c.Count("transitions", res.Transitions)
	c.Count("traces_validated_against_impl", res.Executions)
	c.Count("executions", res.Executions)
	sample := map[string]any{"scenario": s.id(), "executions": res.Executions, "states": res.States, "bound_completed": res.Bound, "distinct_outcomes": res.Outcomes}
	if res.FailMsg != "" {
		key, msg := "schedule-failure", res.FailMsg
		if i := strings.Index(res.FailMsg, "|"); i > 0 && !strings.HasPrefix(res.FailMsg, "deadlock") {
			key, msg = res.FailMsg[:i], res.FailMsg[i+1:]
		} else if strings.HasPrefix(res.FailMsg, "deadlock") {
			key = "deadlock"
			if len(s.errs) > 0 {
				key += ":after-visitor-error"
			}
		} else if strings.HasPrefix(res.FailMsg, "panic") {
			key = "panic"
		} else if strings.HasPrefix(res.FailMsg, "NONDETERMINISTIC") {
			return core.Outcome{Class: "nondeterministic", Trivial: true, Sample: sample}
		}
		return core.Outcome{Class: s.id(), Sample: sample, Viol: &core.Violation{Key: keyPrefix + key,
			Msg:    fmt.Sprintf("scenario %s, schedule %v (preemption bound %d): %s", s.id(), res.FailPrefix, res.Bound, msg),
			Detail: map[string]any{"scenario": s.id(), "schedule": res.FailPrefix, "trace": traceString(res.FailTrace)}}}
	}
	if reps := NewRaceReports(); len(reps) > 0 {
		return core.Outcome{Class: s.id(), Sample: sample, NoRecheck: true, Viol: &core.Violation{Key: keyPrefix + "data-race@" + RaceSite(reps[0]),
			Msg: fmt.Sprintf("scenario %s: ThreadSanitizer reports a data race inside an explored schedule", s.id()), Detail: reps[0]}}
	}
	if res.Capped {
		c.Note("deadline reached inside scenario " + s.id() + ": explored partially")
	}
	return core.Outcome{Class: s.id(), Sample: sample}
}

func traceString(tr []vsched.TraceEv) string {
	var sb strings.Builder
	for i, e := range tr {
		if i > 0 {
			sb.WriteByte(' ')
		}
		fmt.Fprintf(&sb, "T%d:%s", e.Thread, e.Op)
	}
	return sb.String()
}

// c13cyclic: every digraph with a cycle on <= 4 nodes is refused before any visit.
func c13cyclic(c *core.Ctx) {
	for n := 1; n <= 4; n++ {
		var pairs [][2]int
		for i := 0; i < n; i++ {
			for j := 0; j < n; j++ {
				pairs = append(pairs, [2]int{i, j})
			}
		}
		for mask := 0; mask < 1<<len(pairs); mask++ {
			if n == 4 && c.Quick() && mask%5 != 0 {
				// quick tier: every 5th labelled digraph on 4 nodes (all on <= 3)
				continue
			}
			mask := mask
			c.Do(fmt.Sprintf("cyc/n%d/%d", n, mask), func() core.Outcome {
				p := &types.Project{Name: "p", Services: types.Services{}}
				adj := make([][]int, n)
				for b, pr := range pairs {
					if mask&(1<<b) != 0 {
						adj[pr[0]] = append(adj[pr[0]], pr[1])
					}
				}
				if !hasCycle(n, adj) {
					return core.Outcome{Class: "acyclic", Trivial: true}
				}
				for i := 0; i < n; i++ {
					s := types.ServiceConfig{Name: svcNames[i], DependsOn: types.DependsOnConfig{}}
					for _, j := range adj[i] {
						s.DependsOn[svcNames[j]] = types.ServiceDependency{Required: true}
					}
					p.Services[svcNames[i]] = s
				}
				visits := 0
				var err error
				for _, rev := range []bool{false, true} {
					var opts []func(*graph.Options)
					if rev {
						opts = append(opts, graph.InReverseOrder)
					}
					err = graph.InDependencyOrder(context.Background(), p, func(context.Context, string, types.ServiceConfig) error {
						visits++
						return nil
					}, opts...)
					if err == nil || visits > 0 {
						return core.Outcome{Class: "cyc", Viol: &core.Violation{Key: "cycle-not-refused",
							Msg: fmt.Sprintf("cyclic graph %v (n=%d): err=%v visits=%d", adj, n, err, visits)}, Sample: fmt.Sprint(adj)}
					}
				}
				return core.Outcome{Class: fmt.Sprintf("cyc/%d/%d", n, mask), Sample: fmt.Sprint(adj)}
			})
		}
	}
}

func hasCycle(n int, adj [][]int) bool {
	state := make([]int, n)
	var dfs func(int) bool
	dfs = func(u int) bool {
		state[u] = 1
		for _, v := range adj[u] {
			if state[v] == 1 || (state[v] == 0 && dfs(v)) {
				return true
			}
		}
		state[u] = 2
		return false
	}
	for i := 0; i < n; i++ {
		if state[i] == 0 && dfs(i) {
			return true
		}
	}
	return false
}

var _ = sort.Strings
