//go:build sched

package sched

import (
	"errors"
	"fmt"
	"path/filepath"
	"sort"
	"strings"

	"vsched"
	"vsched/vsync"

	"github.com/compose-spec/compose-go/v2/types"

	"verifh/core"
	"verifh/props"
)

func init() { core.Register(c19{}) }

type c19 struct{}

func (c19) ID() string    { return "C19" }
func (c19) Level() string { return "model_checking" }
func (c19) Env() []string { return []string{"GOMAXPROCS=1"} }
func (c19) Rule() string {
	return "(a) every ordered pair (thorough: triple) of corpus inputs loaded by concurrent controlled threads whose hand-offs are hidden from ThreadSanitizer, so the loads are concurrent in its happens-before relation in every serial order; results compared with the same load run alone. (b) WithServicesTransform / WithImagesResolved on projects of 0..4 services x error injection at every subset of <=2 services x every schedule up to the preemption bound and every ready select branch of the collector, with deadlock detection, thread-termination and result monitors, ThreadSanitizer active. (c) the dependency-ordered traversal on every DAG of <=3 services x direction x limit {0,1,2} x {no, one} failing visit, all schedules within 2 preemptions (deadlock, leak, race; ordering is C13's). state = distinct happens-before prefix expanded; transition = executed synchronisation step"
}
func (c19) Assumptions() []string {
	return []string{
		"a happens-before race detector can be masked by real synchronisation inside uninstrumented third-party code (logrus, gojsonschema) that orders two loads",
		"loads contain no synchronisation operations of their own, so each load is one atomic block and the schedules are the serial orders",
		"schedules with more preemptions than the bound are not explored",
	}
}

type loadRes struct {
	class, canon, yaml, json string
}

func doLoad(s *props.Scn, root string) loadRes {
	p, err := s.LoadAt(root)
	r := loadRes{class: props.ErrClass(err)}
	if err == nil {
		y, j, rerr := props.Render(p)
		if rerr != nil {
			r.class = "render-" + props.ErrClass(rerr)
		}
		r.yaml, r.json, r.canon = y, j, props.Canon(p, "")
	}
	return r
}

func (c19) Run(c *core.Ctx) {
	c19loads(c)
	c19fanout(c)
	c19traversal(c)
}

// c19traversal: the library's other parallel operation. A subset of C13's scenarios (<= 3 services, no root
// selection, no or one failing visit, every concurrency limit) is explored here for deadlocks, leaked
// goroutines and data races; the ordering clauses are C13's.
func c19traversal(c *core.Ctx) {
	for _, s := range c13scenarios(c.Quick()) {
		if s.d.n > 3 || len(s.roots) > 0 || len(s.errs) > 1 {
			continue
		}
		s := s
		if c.Expired() {
			return
		}
		c.Do("traversal/"+s.id(), func() core.Outcome { return s.explore(c, 2, "traversal:") })
	}
}

func c19loads(c *core.Ctx) {
	inputs := props.CorpusScns()
	names := sortedNames(inputs)
	base := filepath.Join(props.Scratch(), "c19")
	alone := map[string]loadRes{}
	for _, n := range names {
		inputs[n].MaterialiseAt(filepath.Join(base, n))
	}
	group := func(ns []string) {
		id := "loads/" + strings.Join(ns, "+")
		c.Do(id, func() core.Outcome {
			for _, n := range ns {
				if _, ok := alone[n]; !ok {
					alone[n] = doLoad(inputs[n], filepath.Join(base, n))
				}
			}
			NewRaceReports() // drain reports of sequential warm-up (none expected)
			results := make([]loadRes, len(ns))
			var fail string
			// every serial order of the group is one schedule; thread creation order fixed, the explorer permutes
			// loads are preemptible at every access to a mutable package-level variable (instrumenter -globals)
			res := ExploreScenario(len(ns), false, c.Dead, c.Heartbeat, func() (func(), func(*vsched.Sched) string) {
				body := func() {
					var wg vsync.WaitGroup
					wg.Add(len(ns))
					for i, n := range ns {
						i, n := i, n
						vsched.Go(func() {
							results[i] = doLoad(inputs[n], filepath.Join(base, n))
							wg.Done()
						})
					}
					wg.Wait()
				}
				return body, func(*vsched.Sched) string {
					for i, n := range ns {
						a := alone[n]
						if results[i] != a {
							fail = fmt.Sprintf("load of %q concurrent with %v differs from the load alone (class %s vs %s)", n, ns, results[i].class, a.class)
							return "result-differs|" + fail
						}
					}
					return ""
				}
			})
			c.Count("states", res.States)
			c.Count("transitions", res.Transitions)
			c.Count("traces_validated_against_impl", res.Executions)
			sample := map[string]any{"concurrent_loads": ns, "schedules": res.Executions}
			if res.FailMsg != "" {
				key := "concurrent-load:" + strings.SplitN(res.FailMsg, "|", 2)[0]
				return core.Outcome{Class: id, Sample: sample, Viol: &core.Violation{Key: key, Msg: res.FailMsg}}
			}
			if reps := NewRaceReports(); len(reps) > 0 {
				return core.Outcome{Class: id, Sample: sample, NoRecheck: true, Viol: &core.Violation{Key: "data-race@" + RaceSite(reps[0]),
					Msg: fmt.Sprintf("concurrent loads of %v: ThreadSanitizer reports a data race", ns), Detail: reps[0]}}
			}
			return core.Outcome{Class: id, Sample: sample}
		})
	}
	for _, a := range names {
		for _, b := range names {
			if c.Expired() {
				return
			}
			group([]string{a, b})
		}
	}
	if !c.Quick() {
		for _, a := range names {
			for _, b := range names {
				for _, d := range names {
					if c.Expired() {
						return
					}
					group([]string{a, b, d})
				}
			}
		}
	}
}

func sortedNames(m map[string]*props.Scn) []string {
	var ks []string
	for k := range m {
		ks = append(ks, k)
	}
	sort.Strings(ks)
	return ks
}

// ---------------------------------------------------------------- fan-out

func c19fanout(c *core.Ctx) {
	maxN := 4
	if !c.Quick() {
		maxN = 5
	}
	for n := 0; n <= maxN; n++ {
		var sets [][]int
		sets = append(sets, nil)
		for i := 0; i < n; i++ {
			sets = append(sets, []int{i})
			for j := i + 1; j < n; j++ {
				sets = append(sets, []int{i, j})
			}
		}
		for _, op := range []string{"transform", "images"} {
			for _, errs := range sets {
				n, errs, op := n, errs, op
				id := fmt.Sprintf("fanout/%s/n%d/errs%v", op, n, errs)
				if c.Expired() {
					return
				}
				c.Do(id, func() core.Outcome {
					bound := 2
					if n >= 4 && c.Quick() {
						bound = 1
					}
					if n <= 3 && !c.Quick() {
						bound = 3
					}
					var np *types.Project
					var rerr error
					var returned bool
					var live int
					var base *types.Project
					var before string
					injected := map[string]bool{}
					for _, e := range errs {
						injected["inj-"+svcNames[e]] = true
					}
					outcomes := map[string]struct{}{}
					setup := func() (func(), func(*vsched.Sched) string) {
						base = &types.Project{Name: "p", Services: types.Services{}}
						for i := 0; i < n; i++ {
							base.Services[svcNames[i]] = types.ServiceConfig{Name: svcNames[i], Image: "img-" + svcNames[i]}
						}
						before = jsonOf(base)
						np, rerr, returned, live = nil, nil, false, 0
						fn := func(name string, s types.ServiceConfig) (types.ServiceConfig, error) {
							vsched.Yield()
							if injected["inj-"+name] {
								return s, errors.New("inj-" + name)
							}
							s.Image = "resolved-" + name
							return s, nil
						}
						body := func() {
							np, rerr = base.WithServicesTransform(fn)
							returned = true
							live = vsched.Live()
						}
						return body, func(sc *vsched.Sched) string {
							if sc.Fail != nil {
								return ""
							}
							if !returned {
								return "no-return|the call never returned"
							}
							if live != 0 {
								return fmt.Sprintf("goroutine-leak|%d goroutines still alive at return", live)
							}
							if jsonOf(base) != before {
								return "receiver-modified|the receiver project was modified"
							}
							o := fmt.Sprint(rerr)
							if len(errs) == 0 {
								if rerr != nil {
									return "spurious-error|" + rerr.Error()
								}
								if np == nil || len(np.Services) != n {
									return fmt.Sprintf("partial-result|result has %d services, expected %d", len(np.Services), n)
								}
								for i := 0; i < n; i++ {
									if np.Services[svcNames[i]].Image != "resolved-"+svcNames[i] {
										return "wrong-result|service " + svcNames[i] + " does not carry the function's result"
									}
								}
							} else {
								if rerr == nil {
									return "error-swallowed|a per-service function failed but the call returned nil"
								}
								if !injected[rerr.Error()] {
									return "wrong-error|returned " + rerr.Error()
								}
							}
							outcomes[o] = struct{}{}
							return ""
						}
					}
					_ = op
					res := ExploreScenario(bound, true, c.Dead, c.Heartbeat, setup)
					c.Count("states", res.States)
					c.Count("transitions", res.Transitions)
					c.Count("traces_validated_against_impl", res.Executions)
					sample := map[string]any{"scenario": id, "executions": res.Executions, "states": res.States, "bound_completed": res.Bound, "distinct_outcomes": len(outcomes)}
					if res.FailMsg != "" {
						key, msg := "schedule-failure", res.FailMsg
						switch {
						case strings.HasPrefix(res.FailMsg, "deadlock"):
							key = "deadlock"
							if len(errs) > 0 {
								key += ":after-error"
							}
						case strings.HasPrefix(res.FailMsg, "NONDETERMINISTIC"):
							return core.Outcome{Class: "nondeterministic", Trivial: true, Sample: sample}
						case strings.Contains(res.FailMsg, "|"):
							i := strings.Index(res.FailMsg, "|")
							key, msg = res.FailMsg[:i], res.FailMsg[i+1:]
						}
						return core.Outcome{Class: id, Sample: sample, Viol: &core.Violation{Key: "fanout:" + key,
							Msg:    fmt.Sprintf("%s, schedule %v (preemption bound %d): %s", id, res.FailPrefix, res.Bound, msg),
							Detail: map[string]any{"schedule": res.FailPrefix, "trace": traceString(res.FailTrace)}}}
					}
					if reps := NewRaceReports(); len(reps) > 0 {
						return core.Outcome{Class: id, Sample: sample, NoRecheck: true, Viol: &core.Violation{Key: "data-race@" + RaceSite(reps[0]),
							Msg: id + ": ThreadSanitizer reports a data race inside an explored schedule", Detail: reps[0]}}
					}
					return core.Outcome{Class: id, Sample: sample}
				})
			}
		}
	}
}
