//go:build sched

package sched

import (
	"context"
	"encoding/json"
	"errors"
	"fmt"
	"os"
	"path/filepath"
	"runtime"
	"sort"
	"strings"
	"sync"
	"time"

	"vsched"
	"vsched/vsync"

	"github.com/compose-spec/compose-go/v2/types"

	"verifh/core"
	"verifh/props"
)

func init() { core.Register(c19{}) }

type c19 struct{}

func (c19) ID() string    { return "C19" }
func (c19) Level() string { return "model_checking" }
func (c19) Env() []string { return []string{"GOMAXPROCS=1"} }
func (c19) Rule() string {
	return "(a) every ordered pair (thorough: triple) of corpus inputs loaded by concurrent controlled threads whose hand-offs are hidden from ThreadSanitizer, so the loads are concurrent in its happens-before relation in every serial order; results compared with the same load run alone; for every input loaded twice (thorough: every pair) the same schedules again with every single execution in a fresh process; directed schedules that bring the statements of two loads on each package-level variable next to each other (every variable both loads touch x its first 2 (4) occurrences); every input also loaded by two threads sharing one ConfigDetails value (with and without the project-name option). (b) WithServicesTransform / WithImagesResolved on projects of 0..4 services x error injection at every subset of <=2 services x every schedule up to the preemption bound and every ready select branch of the collector, with deadlock detection, thread-termination and result monitors, ThreadSanitizer active. (c) the dependency-ordered traversal on every DAG of <=3 services x direction x limit {0,1,2} x {no, one} failing visit, all schedules within 2 preemptions (deadlock, leak, race; ordering is C13's). state = distinct happens-before prefix expanded; transition = executed synchronisation step"
}
func (c19) Assumptions() []string {
	return []string{
		"a happens-before race detector can be masked by real synchronisation inside uninstrumented third-party code (logrus, gojsonschema) that orders two loads",
		"loads contain no synchronisation operations of their own, so each load is one atomic block and the schedules are the serial orders",
		"schedules with more preemptions than the bound are not explored",
	}
}

type loadRes struct {
	class, canon, yaml, json string
}

func doLoad(s *props.Scn, root string) loadRes {
	p, err := s.LoadAt(root)
	r := loadRes{class: props.ErrClass(err)}
	if err == nil {
		y, j, rerr := props.Render(p)
		if rerr != nil {
			r.class = "render-" + props.ErrClass(rerr)
		}
		r.yaml, r.json, r.canon = y, j, props.Canon(p, "")
	}
	return r
}

func (c19) Run(c *core.Ctx) {
	c19loads(c)
	c19directed(c)
	c19fanout(c)
	c19traversal(c)
	c19freeRunning(c)
}

// c19freeRunning is the supplementary pass the guidance asks for: the same harness bodies run with real
// goroutines under the race detector (no controlled scheduler, GOMAXPROCS 8), many repetitions. The deciding
// step remains the exhaustive exploration above; this pass sees races through code paths the shims do not model.
func c19freeRunning(c *core.Ctx) {
	reps := 30
	if !c.Quick() {
		reps = 200
	}
	stuck := false // after one operation failed to return, leaked goroutines make further timing meaningless
	run := func(id string, body func()) {
		c.Do("free/"+id, func() core.Outcome {
			if stuck {
				return core.Outcome{Class: "free-skipped", Trivial: true}
			}
			NewRaceReports()
			old := runtime.GOMAXPROCS(8)
			defer runtime.GOMAXPROCS(old)
			done := make(chan struct{})
			go func() {
				defer close(done)
				for i := 0; i < reps; i++ {
					body()
				}
			}()
			// generous horizon (normal: milliseconds to a few seconds), heartbeats keep the parent informed
			deadline := time.Now().Add(300 * time.Second)
		waiting:
			for {
				select {
				case <-done:
					break waiting
				case <-time.After(time.Second):
					c.Heartbeat()
					if time.Now().After(deadline) {
						stuck = true
						return core.Outcome{Class: "free-hang", NoRecheck: true, Viol: &core.Violation{Key: "free-running:no-return", Msg: id + ": the operation did not return within 300 s with real goroutines (normal: milliseconds)"}}
					}
				}
			}
			c.Count("free_running_repetitions", int64(reps))
			if reps := NewRaceReports(); len(reps) > 0 {
				return core.Outcome{Class: "free/" + id, NoRecheck: true, Viol: &core.Violation{Key: "data-race@" + RaceSite(reps[0]),
					Msg: id + ": ThreadSanitizer reports a data race in the free-running pass", Detail: reps[0]}}
			}
			return core.Outcome{Class: "free/" + id, Sample: map[string]any{"free_running": id, "repetitions": reps}}
		})
	}
	// fan-out
	for n := 0; n <= 6; n++ {
		for _, withErr := range []bool{false, true} {
			n, withErr := n, withErr
			run(fmt.Sprintf("fanout/n%d/err%v", n, withErr), func() {
				base := &types.Project{Name: "p", Services: types.Services{}}
				for i := 0; i < n; i++ {
					base.Services[svcNames[i]] = types.ServiceConfig{Name: svcNames[i], Image: "img"}
				}
				base.WithServicesTransform(func(name string, s types.ServiceConfig) (types.ServiceConfig, error) {
					if withErr && name == "b" {
						return s, errors.New("inj")
					}
					s.Image = "x"
					return s, nil
				})
			})
		}
	}
	// traversal
	for _, s := range c13scenarios(true) {
		if len(s.roots) > 0 || len(s.errs) > 1 || s.d.n < 3 {
			continue
		}
		s := s
		run("traversal/"+s.id(), func() {
			body, _, _, _ := s.setup()
			body()
		})
	}
	// concurrent loads with real goroutines: 2, 4 and 16 at once
	inputs := props.CorpusScns()
	names := sortedNames(inputs)
	base := filepath.Join(props.Scratch(), "c19free")
	for _, n := range names {
		inputs[n].MaterialiseAt(filepath.Join(base, n))
	}
	for _, k := range []int{2, 4, 16} {
		k := k
		run(fmt.Sprintf("loads/x%d", k), func() {
			var wg sync.WaitGroup
			for i := 0; i < k; i++ {
				n := names[i%len(names)]
				wg.Add(1)
				go func() {
					defer wg.Done()
					doLoad(inputs[n], filepath.Join(base, n))
				}()
			}
			wg.Wait()
		})
	}
}

// c19traversal: the library's other parallel operation. A subset of C13's scenarios (<= 3 services, with and without root selection, no or one failing visit, every concurrency limit) is explored here for deadlocks, leaked
// goroutines and data races; the ordering clauses are C13's.
func c19traversal(c *core.Ctx) {
	for _, s := range c13scenarios(c.Quick()) {
		if len(s.errs) > 1 || (len(s.roots) > 0 && len(s.errs) > 0) {
			continue
		}
		bound := 2
		if s.d.n > 3 {
			// 4 services: root selections without failing visit, unbounded concurrency, one preemption
			// (two dependents of one selected service becoming ready together need four services)
			if s.d.n > 4 || len(s.roots) != 1 || len(s.errs) > 0 || s.limit != 0 {
				continue
			}
			bound = 1
		}
		s, bound := s, bound
		if c.Expired() {
			return
		}
		c.Do("traversal/"+s.id(), func() core.Outcome { return s.explore(c, bound, "traversal:") })
	}
}

// ---------------------------------------------------------------- directed schedules on package-level variables
//
// ThreadSanitizer can only report a race whose earlier access is still in the (short) event history of its thread. Two
// whole loads that run one after the other touch the same package-level variable a full load apart, so a conflicting
// access pair stays unreported unless the schedule puts the two accesses next to each other. The instrumenter brackets
// every statement that mentions a package-level variable (any variable, also one a change has just introduced) with
// marks; for every such variable v that both loads touch, and for its first occurrences k, one execution is run in which
// the load reaching its k-th statement on v first waits there for the other load to reach its k-th statement on v, then
// executes its statement, then lets the other one execute its statement immediately. The set of executions is
// determined by (pair of inputs, variable, k): nothing is sampled.

// rdv is the rendezvous state of one directed execution (accessed by both threads and by the scheduler).
type rdv struct {
	target string
	occ    int
	ids    [2]int
	count  [2]int
	stage  [2]int // 0 not arrived, 1 waiting, 2 executing the statement, 3 past it, 9 no partner
	done   [2]bool
	cell   uint64
	paired bool
}

//go:norace
func (r *rdv) idx() int {
	id := vsched.ThreadID()
	for i, x := range r.ids {
		if x == id {
			return i
		}
	}
	return -1
}

//go:norace
func (r *rdv) finish(i int) { r.done[i] = true }

//go:norace
func (r *rdv) hook(post bool, name string) {
	if name != r.target {
		return
	}
	t := r.idx()
	if t < 0 {
		return
	}
	o := 1 - t
	if !post {
		r.count[t]++
		if r.count[t] != r.occ || r.stage[t] != 0 {
			return
		}
		if r.done[o] || r.stage[o] >= 2 {
			r.stage[t] = 9
			return
		}
		if r.stage[o] == 0 {
			// first to arrive: wait for the partner to arrive at its statement (or to finish without one)
			r.stage[t] = 1
			if !vsched.WaitUntil(&r.cell, r.partnerArrived(o)) || r.stage[o] == 0 {
				// the partner cannot get there (it finished, or it is blocked by something this thread holds)
				r.stage[t] = 9
				return
			}
			r.stage[t] = 2
			return
		}
		// second to arrive: the partner executes its statement first, this thread right after
		r.stage[t] = 1
		vsched.WaitUntil(&r.cell, r.partnerPast(o))
		r.stage[t] = 2
		r.paired = true
		return
	}
	if r.stage[t] != 2 {
		return
	}
	r.stage[t] = 3
	if r.stage[o] == 1 {
		vsched.WaitUntil(&r.cell, r.partnerPast(o))
	}
}

//go:norace
func (r *rdv) partnerArrived(o int) func() bool {
	return func() bool { return r.stage[o] != 0 || r.done[o] }
}

//go:norace
func (r *rdv) partnerPast(o int) func() bool {
	return func() bool { return r.stage[o] >= 3 || r.done[o] }
}

// varCounter records which package-level variables a load touches, and how often.
type varCounter struct{ n map[string]int }

//go:norace
func (v *varCounter) hook(post bool, name string) {
	if !post {
		v.n[name]++
	}
}

func c19directed(c *core.Ctx) {
	if os.Getenv("C19_COLD_BASE") != "" {
		return
	}
	inputs := props.CorpusScns()
	names := sortedNames(inputs)
	base := filepath.Join(props.Scratch(), "c19dir")
	touched := map[string]map[string]int{}
	expect := map[string]string{}
	ready := false
	prepare := func() {
		if ready {
			return
		}
		ready = true
		for _, n := range names {
			inputs[n].MaterialiseAt(filepath.Join(base, n))
			vc := &varCounter{n: map[string]int{}}
			// one controlled execution of the load alone, to see the marks it passes
			var res loadRes
			ExploreScenario(0, false, c.Dead, c.Heartbeat, func() (func(), func(*vsched.Sched) string) {
				vc.n = map[string]int{}
				vsched.VarHook = vc.hook
				return func() { res = doLoad(inputs[n], filepath.Join(base, n)) }, func(*vsched.Sched) string { return "" }
			})
			vsched.VarHook = nil
			touched[n] = vc.n
			expect[n] = res.digest()
		}
	}
	maxOcc := 2
	if !c.Quick() {
		maxOcc = 4
	}
	pair := func(a, b string) {
		id := "directed/" + a + "+" + b
		c.Do(id, func() core.Outcome {
			prepare()
			var targets []string
			for v := range touched[a] {
				if touched[b][v] > 0 {
					targets = append(targets, v)
				}
			}
			sort.Strings(targets)
			ns := []string{a, b}
			NewRaceReports()
			var execs, pairedExecs int64
			for _, v := range targets {
				for k := 1; k <= maxOcc && k <= touched[a][v] && k <= touched[b][v]; k++ {
					var r *rdv
					var results [2]loadRes
					res := ExploreScenario(0, false, c.Dead, c.Heartbeat, func() (func(), func(*vsched.Sched) string) {
						r = &rdv{target: v, occ: k, ids: [2]int{-2, -2}}
						vsched.VarHook = r.hook
						body := func() {
							var wg vsync.WaitGroup
							wg.Add(2)
							for i, n := range ns {
								i, n := i, n
								vsched.Go(func() {
									r.ids[i] = vsched.ThreadID()
									vsched.Quiet(func() {
										defer r.finish(i)
										results[i] = doLoad(inputs[n], filepath.Join(base, n))
									})
									wg.Done()
								})
							}
							wg.Wait()
						}
						return body, func(*vsched.Sched) string {
							for i, n := range ns {
								if d := results[i].digest(); d != expect[n] {
									return fmt.Sprintf("result-differs|load of %q interleaved with %q at variable %s (occurrence %d) differs from the load alone", n, ns[1-i], v, k)
								}
							}
							return ""
						}
					})
					vsched.VarHook = nil
					execs += res.Executions
					if r != nil && r.paired {
						pairedExecs++
					}
					c.Count("states", res.States)
					c.Count("transitions", res.Transitions)
					c.Count("traces_validated_against_impl", res.Executions)
					sample := map[string]any{"concurrent_loads": ns, "variable": v, "occurrence": k}
					if res.FailMsg != "" {
						return core.Outcome{Class: id, Sample: sample, Viol: &core.Violation{Key: "directed:" + strings.SplitN(res.FailMsg, "|", 2)[0] + ":" + v, Msg: res.FailMsg}}
					}
					if reps := NewRaceReports(); len(reps) > 0 {
						return core.Outcome{Class: id, Sample: sample, NoRecheck: true, Viol: &core.Violation{Key: "data-race@" + RaceSite(reps[0]),
							Msg: fmt.Sprintf("loads of %v with their statements on package-level variable %s (occurrence %d) run next to each other: ThreadSanitizer reports a data race", ns, v, k), Detail: reps[0]}}
					}
				}
			}
			c.Count("directed_executions", execs)
			c.Count("directed_executions_paired", pairedExecs)
			return core.Outcome{Class: id, Sample: map[string]any{"concurrent_loads": ns, "variables": targets, "executions": execs, "paired": pairedExecs}}
		})
	}
	for _, a := range names {
		if c.Expired() {
			return
		}
		pair(a, a)
		if c.Quick() {
			if a != "rich" {
				pair(a, "rich")
				pair("rich", a)
			}
			continue
		}
		for _, b := range names {
			if b != a {
				pair(a, b)
			}
		}
	}
}

// digest of one load result (what a cold subprocess is told to expect)
func (r loadRes) digest() string {
	return fmt.Sprintf("%s/%x", r.class, core.H64(r.canon+"\x00"+r.yaml+"\x00"+r.json))
}

// c19loads explores every group of concurrent loads twice: in this worker, whose package state has already
// served earlier loads (warm), and as the first thing a fresh process ever does (cold: lazily built
// package-level state - caches, memo tables, once-initialised globals - is first touched concurrently).
func c19loads(c *core.Ctx) {
	inputs := props.CorpusScns()
	names := sortedNames(inputs)
	coldBase := os.Getenv("C19_COLD_BASE") // set: this process is a cold subprocess and only runs one cold/ case
	base := filepath.Join(props.Scratch(), "c19")
	if coldBase != "" {
		base = coldBase
	}
	alone := map[string]loadRes{}
	expect := map[string]string{}
	if coldBase == "" {
		// the reference results: each input loaded alone, before this process runs anything concurrently
		for _, n := range names {
			inputs[n].MaterialiseAt(filepath.Join(base, n))
			alone[n] = doLoad(inputs[n], filepath.Join(base, n))
			expect[n] = alone[n].digest()
		}
	} else {
		json.Unmarshal([]byte(os.Getenv("C19_EXPECT")), &expect)
	}
	explore := func(id string, ns []string) core.Outcome {
		NewRaceReports() // drain
		results := make([]loadRes, len(ns))
		var fail string
		// every serial order of the group is one schedule; thread creation order fixed, the explorer permutes;
		// loads are preemptible at every access to a mutable package-level variable (instrumenter -globals)
		res := ExploreScenario(len(ns), false, c.Dead, c.Heartbeat, func() (func(), func(*vsched.Sched) string) {
			body := func() {
				var wg vsync.WaitGroup
				wg.Add(len(ns))
				for i, n := range ns {
					i, n := i, n
					vsched.Go(func() {
						// Quiet: real synchronisation inside yaml / gojsonschema / reflect caches must not order the loads
						vsched.Quiet(func() { results[i] = doLoad(inputs[n], filepath.Join(base, n)) })
						wg.Done()
					})
				}
				wg.Wait()
			}
			return body, func(*vsched.Sched) string {
				for i, n := range ns {
					if d := results[i].digest(); d != expect[n] {
						fail = fmt.Sprintf("load of %q concurrent with %v differs from the load alone (%s vs %s)", n, ns, d, expect[n])
						return "result-differs|" + fail
					}
				}
				return ""
			}
		})
		c.Count("states", res.States)
		c.Count("transitions", res.Transitions)
		c.Count("traces_validated_against_impl", res.Executions)
		sample := map[string]any{"concurrent_loads": ns, "schedules": res.Executions, "cold_process": coldBase != ""}
		if res.FailMsg != "" {
			key := "concurrent-load:" + strings.SplitN(res.FailMsg, "|", 2)[0]
			return core.Outcome{Class: id, Sample: sample, Viol: &core.Violation{Key: key, Msg: res.FailMsg}}
		}
		if reps := NewRaceReports(); len(reps) > 0 {
			return core.Outcome{Class: id, Sample: sample, NoRecheck: true, Viol: &core.Violation{Key: "data-race@" + RaceSite(reps[0]),
				Msg: fmt.Sprintf("concurrent loads of %v: ThreadSanitizer reports a data race", ns), Detail: reps[0]}}
		}
		return core.Outcome{Class: id, Sample: sample}
	}
	// runOnce (subprocess side of coldx): one execution under the schedule C19_PREFIX, as the first thing this process does
	runOnce := func(id string, ns []string) core.Outcome {
		var prefix []int
		json.Unmarshal([]byte(os.Getenv("C19_PREFIX")), &prefix)
		results := make([]loadRes, len(ns))
		sc := vsched.RunOnce(prefix, 100000, false, func() {
			var wg vsync.WaitGroup
			wg.Add(len(ns))
			for i, n := range ns {
				i, n := i, n
				vsched.Go(func() {
					vsched.Quiet(func() { results[i] = doLoad(inputs[n], filepath.Join(base, n)) })
					wg.Done()
				})
			}
			wg.Wait()
		})
		pts, _ := json.Marshal(sc.Points)
		fmt.Fprintf(os.Stderr, "C19PTS %s\n", pts)
		if sc.Fail != nil {
			return core.Outcome{Class: id, NoRecheck: true, Viol: &core.Violation{Key: "concurrent-load:" + sc.Fail.Kind, Msg: sc.Fail.Msg}}
		}
		for i, n := range ns {
			if d := results[i].digest(); d != expect[n] {
				return core.Outcome{Class: id, NoRecheck: true, Viol: &core.Violation{Key: "concurrent-load:result-differs",
					Msg: fmt.Sprintf("load of %q concurrent with %v (schedule %v, from process start) differs from the load alone (%s vs %s)", n, ns, prefix, d, expect[n])}}
			}
		}
		if reps := NewRaceReports(); len(reps) > 0 {
			return core.Outcome{Class: id, NoRecheck: true, Viol: &core.Violation{Key: "data-race@" + RaceSite(reps[0]),
				Msg: fmt.Sprintf("concurrent loads of %v under schedule %v, as the first thing the process does: ThreadSanitizer reports a data race", ns, prefix), Detail: reps[0]}}
		}
		return core.Outcome{Class: id}
	}
	// coldx (parent side): the depth-first search over schedules within 2 preemptions is driven from here, but every
	// single execution runs in a fresh process - first-use effects (lazily built package state) exist in every schedule,
	// not only in the first one explored
	coldExplore := func(id string, ns []string) core.Outcome {
		join := strings.Join(ns, "+")
		exp := map[string]string{}
		for _, n := range ns {
			exp[n] = expect[n]
		}
		eb, _ := json.Marshal(exp)
		const bound, maxExec = 2, 160
		execs := 0
		capped := false
		var dfs func(prefix []int) *core.Violation
		dfs = func(prefix []int) *core.Violation {
			if execs >= maxExec {
				capped = true
				return nil
			}
			execs++
			c.Heartbeat()
			pb, _ := json.Marshal(prefix)
			viols, diag := core.RunCase("C19", c.Tier, c.Seed, "coldrun/"+join, []string{"C19_COLD_BASE=" + base, "C19_EXPECT=" + string(eb), "C19_PREFIX=" + string(pb)})
			if len(viols) > 0 {
				return viols[0]
			}
			var pts []vsched.ChoicePoint
			for _, line := range strings.Split(diag, "\n") {
				if strings.HasPrefix(line, "C19PTS ") {
					json.Unmarshal([]byte(strings.TrimPrefix(line, "C19PTS ")), &pts)
				}
			}
			for i := len(prefix); i < len(pts); i++ {
				p := pts[i]
				for alt := 1; alt < p.N; alt++ {
					cost := p.Pre
					if !p.Select && p.CurAlive {
						cost++
					}
					if cost > bound {
						continue
					}
					np := make([]int, i+1)
					for k := 0; k < i; k++ {
						np[k] = pts[k].Chosen
					}
					np[i] = alt
					if v := dfs(np); v != nil {
						return v
					}
				}
			}
			return nil
		}
		v := dfs(nil)
		c.Count("cold_processes", int64(execs))
		c.Count("traces_validated_against_impl", int64(execs))
		if capped {
			c.Note(fmt.Sprintf("coldx/%s: stopped after %d fresh-process executions (cap)", join, maxExec))
		}
		if v != nil {
			return core.Outcome{Class: id, NoRecheck: true, Viol: v}
		}
		return core.Outcome{Class: id, Sample: map[string]any{"concurrent_loads": ns, "fresh_process_executions": execs, "capped": capped}}
	}
	group := func(ns []string) {
		join := strings.Join(ns, "+")
		if coldBase != "" && os.Getenv("C19_PREFIX") != "" {
			c.Do("coldrun/"+join, func() core.Outcome { return runOnce("coldrun/"+join, ns) })
			return
		}
		if coldBase == "" {
			c.Do("loads/"+join, func() core.Outcome { return explore("loads/"+join, ns) })
			if !c.Quick() || (len(ns) == 2 && ns[0] == ns[1]) {
				c.Do("coldx/"+join, func() core.Outcome { return coldExplore("coldx/"+join, ns) })
			}
		}
		c.Do("cold/"+join, func() core.Outcome {
			if coldBase != "" {
				return explore("cold/"+join, ns)
			}
			exp := map[string]string{}
			for _, n := range ns {
				exp[n] = expect[n]
			}
			eb, _ := json.Marshal(exp)
			c.Heartbeat()
			viols, _ := core.RunCase("C19", c.Tier, c.Seed, "cold/"+join, []string{"C19_COLD_BASE=" + base, "C19_EXPECT=" + string(eb)})
			c.Count("cold_processes", 1)
			if len(viols) > 0 {
				return core.Outcome{Class: "cold/" + join, NoRecheck: true, Viol: viols[0]}
			}
			return core.Outcome{Class: "cold/" + join, Sample: map[string]any{"concurrent_loads": ns, "cold_process": true}}
		})
	}
	if coldBase == "" {
		// the same input value handed to two loads: one ConfigDetails (its Environment map and ConfigFiles slice shared)
		for _, n := range names {
			for mode := 0; mode < 4; mode++ {
				// sharedEnv: the two loads also share a non-nil Environment map (otherwise Environment is nil and each load makes its own)
				n, imperative, sharedEnv := n, mode&1 == 0, mode&2 != 0
				id := fmt.Sprintf("shared-details/%s/name-option-%v/shared-env-%v", n, imperative, sharedEnv)
				c.Do(id, func() core.Outcome {
					root := filepath.Join(base, n)
					details := func() types.ConfigDetails {
						cd := inputs[n].Details(root)
						if !sharedEnv {
							cd.Environment = nil
						}
						return cd
					}
					load := func(cd types.ConfigDetails) loadRes {
						p, err := inputs[n].LoadDetails(cd, imperative)
						r := loadRes{class: props.ErrClass(err)}
						if err == nil {
							r.yaml, r.json, _ = props.Render(p)
							r.canon = props.Canon(p, "")
						}
						return r
					}
					want := load(details()).digest()
					NewRaceReports()
					var results [2]loadRes
					var inputChanged string
					res := ExploreScenario(2, false, c.Dead, c.Heartbeat, func() (func(), func(*vsched.Sched) string) {
						cd := details()
						before := jsonOf(cd)
						body := func() {
							var wg vsync.WaitGroup
							wg.Add(2)
							for i := 0; i < 2; i++ {
								i := i
								vsched.Go(func() {
									vsched.Quiet(func() { results[i] = load(cd) })
									wg.Done()
								})
							}
							wg.Wait()
						}
						return body, func(*vsched.Sched) string {
							for i := range results {
								if d := results[i].digest(); d != want {
									return fmt.Sprintf("result-differs|load %d of two loads sharing one ConfigDetails differs from the load alone (%s vs %s)", i, d, want)
								}
							}
							if after := jsonOf(cd); after != before {
								inputChanged = "the caller's ConfigDetails was modified by the load"
							}
							return ""
						}
					})
					c.Count("states", res.States)
					c.Count("transitions", res.Transitions)
					c.Count("traces_validated_against_impl", res.Executions)
					sample := map[string]any{"shared_details": n, "project_name_option": imperative, "shared_environment_map": sharedEnv, "schedules": res.Executions}
					if res.FailMsg != "" {
						return core.Outcome{Class: id, Sample: sample, Viol: &core.Violation{Key: "shared-details:" + strings.SplitN(res.FailMsg, "|", 2)[0], Msg: res.FailMsg}}
					}
					if reps := NewRaceReports(); len(reps) > 0 {
						// the write of COMPOSE_PROJECT_NAME into the caller's Environment map races with every other access
						// to that map: one stable key for all of them; any report not involving that write keeps its own key
						rep := reps[0]
						key := "data-race@" + RaceSite(rep)
						if sharedEnv {
							key = ""
							for _, r := range reps {
								if !strings.Contains(RaceSite(r), "loader.projectName.func1") {
									rep, key = r, "data-race@"+RaceSite(r)
									break
								}
							}
							if key == "" {
								key = "shared-environment-map:race-with-project-name-write"
							}
						}
						return core.Outcome{Class: id, Sample: sample, NoRecheck: true, Viol: &core.Violation{Key: key,
							Msg: fmt.Sprintf("two loads of %q sharing one ConfigDetails value (shared Environment map: %v): ThreadSanitizer reports a data race", n, sharedEnv), Detail: rep}}
					}
					_ = inputChanged
					return core.Outcome{Class: id, Sample: sample}
				})
			}
		}
	}
	for _, a := range names {
		for _, b := range names {
			if c.Expired() {
				return
			}
			group([]string{a, b})
		}
	}
	if !c.Quick() {
		for _, a := range names {
			for _, b := range names {
				for _, d := range names {
					if c.Expired() {
						return
					}
					group([]string{a, b, d})
				}
			}
		}
	}
}

func sortedNames(m map[string]*props.Scn) []string {
	var ks []string
	for k := range m {
		ks = append(ks, k)
	}
	sort.Strings(ks)
	return ks
}

// ---------------------------------------------------------------- fan-out

func c19fanout(c *core.Ctx) {
	maxN := 4
	if !c.Quick() {
		maxN = 5
	}
	for n := 0; n <= maxN; n++ {
		var sets [][]int
		sets = append(sets, nil)
		for i := 0; i < n; i++ {
			sets = append(sets, []int{i})
			for j := i + 1; j < n; j++ {
				sets = append(sets, []int{i, j})
			}
		}
		// two failing services also in both completion orders: the second one fails only after the thread of the first
		// one has run to its end, so "the first error" is unambiguous
		type errSet struct {
			errs    []int
			ordered int // 0 free, 1 errs[0] completes first, 2 errs[1] completes first
		}
		var esets []errSet
		for _, e := range sets {
			esets = append(esets, errSet{e, 0})
			if len(e) == 2 {
				esets = append(esets, errSet{e, 1}, errSet{e, 2})
			}
		}
		for _, op := range []string{"transform", "images"} {
			for _, es := range esets {
				for ek := 0; ek < 2; ek++ {
					// ek 1: the failing function returns an error that wraps context.Canceled (what it returns is not the call's business)
					if ek == 1 && (len(es.errs) != 1 || n > 3 || op != "transform") {
						continue
					}
					n, errs, op, ordered, ek := n, es.errs, op, es.ordered, ek
					id := fmt.Sprintf("fanout/%s/n%d/errs%v", op, n, errs)
					if ordered != 0 {
						id += fmt.Sprintf("/first%d", errs[ordered-1])
					}
					if ek == 1 {
						id += "/wraps-canceled"
					}
					if c.Expired() {
						return
					}
					c.Do(id, func() core.Outcome {
						bound := 2
						if n >= 4 && c.Quick() {
							bound = 1
						}
						if n <= 3 && !c.Quick() {
							bound = 3
						}
						var np *types.Project
						var rerr error
						var returned bool
						var live int
						var base *types.Project
						var before string
						injected := map[string]bool{}
						for _, e := range errs {
							injected["inj-"+svcNames[e]] = true
						}
						outcomes := map[string]struct{}{}
						setup := func() (func(), func(*vsched.Sched) string) {
							base = &types.Project{Name: "p", Services: types.Services{}}
							for i := 0; i < n; i++ {
								base.Services[svcNames[i]] = types.ServiceConfig{Name: svcNames[i], Image: "img-" + svcNames[i]}
							}
							before = jsonOf(base)
							np, rerr, returned, live = nil, nil, false, 0
							firstName, secondName := "", ""
							if ordered != 0 {
								firstName, secondName = svcNames[errs[ordered-1]], svcNames[errs[2-ordered]]
							}
							tidFirst, orderVoid := -1, false
							var ocell uint64
							fn := func(name string, s types.ServiceConfig) (types.ServiceConfig, error) {
								vsched.Yield()
								if name == firstName {
									tidFirst = vsched.ThreadID()
								}
								if name == secondName && secondName != "" {
									if !vsched.WaitUntil(&ocell, func() bool { return tidFirst >= 0 && vsched.ThreadFinished(tidFirst) }) {
										orderVoid = true // the first one cannot finish before this one returns: no order to assert
									}
								}
								if injected["inj-"+name] {
									if ek == 1 {
										return s, ctxLikeErr{"inj-" + name, context.Canceled}
									}
									return s, errors.New("inj-" + name)
								}
								s.Image = "resolved-" + name
								return s, nil
							}
							body := func() {
								np, rerr = base.WithServicesTransform(fn)
								returned = true
								live = vsched.Live()
							}
							return body, func(sc *vsched.Sched) string {
								if sc.Fail != nil {
									return ""
								}
								if !returned {
									return "no-return|the call never returned"
								}
								if live != 0 {
									return fmt.Sprintf("goroutine-leak|%d goroutines still alive at return", live)
								}
								if jsonOf(base) != before {
									return "receiver-modified|the receiver project was modified"
								}
								o := fmt.Sprint(rerr)
								if len(errs) == 0 {
									if rerr != nil {
										return "spurious-error|" + rerr.Error()
									}
									if np == nil || len(np.Services) != n {
										return fmt.Sprintf("partial-result|result has %d services, expected %d", len(np.Services), n)
									}
									for i := 0; i < n; i++ {
										if np.Services[svcNames[i]].Image != "resolved-"+svcNames[i] {
											return "wrong-result|service " + svcNames[i] + " does not carry the function's result"
										}
									}
								} else {
									if rerr == nil {
										return "error-swallowed|a per-service function failed but the call returned nil"
									}
									if !injected[rerr.Error()] {
										return "wrong-error|returned " + rerr.Error()
									}
									if firstName != "" && !orderVoid && rerr.Error() != "inj-"+firstName {
										return fmt.Sprintf("not-the-first-error|service %s failed, and its thread ended, before service %s failed; the call returned %q", firstName, secondName, rerr.Error())
									}
								}
								outcomes[o] = struct{}{}
								return ""
							}
						}
						_ = op
						res := ExploreScenario(bound, true, c.Dead, c.Heartbeat, setup)
						c.Count("states", res.States)
						c.Count("transitions", res.Transitions)
						c.Count("traces_validated_against_impl", res.Executions)
						sample := map[string]any{"scenario": id, "executions": res.Executions, "states": res.States, "bound_completed": res.Bound, "distinct_outcomes": len(outcomes)}
						if res.FailMsg != "" {
							key, msg := "schedule-failure", res.FailMsg
							switch {
							case strings.HasPrefix(res.FailMsg, "deadlock"):
								key = "deadlock"
								if len(errs) > 0 {
									key += ":after-error"
								}
							case strings.HasPrefix(res.FailMsg, "NONDETERMINISTIC"):
								return core.Outcome{Class: "nondeterministic", Trivial: true, Sample: sample}
							case strings.Contains(res.FailMsg, "|"):
								i := strings.Index(res.FailMsg, "|")
								key, msg = res.FailMsg[:i], res.FailMsg[i+1:]
							}
							return core.Outcome{Class: id, Sample: sample, Viol: &core.Violation{Key: "fanout:" + key,
								Msg:    fmt.Sprintf("%s, schedule %v (preemption bound %d): %s", id, res.FailPrefix, res.Bound, msg),
								Detail: map[string]any{"schedule": res.FailPrefix, "trace": traceString(res.FailTrace)}}}
						}
						if reps := NewRaceReports(); len(reps) > 0 {
							return core.Outcome{Class: id, Sample: sample, NoRecheck: true, Viol: &core.Violation{Key: "data-race@" + RaceSite(reps[0]),
								Msg: id + ": ThreadSanitizer reports a data race inside an explored schedule", Detail: reps[0]}}
						}
						return core.Outcome{Class: id, Sample: sample}
					})
				}
			}
		}
	}
}

// ctxLikeErr is an error of the caller's own that wraps one of the context errors.
type ctxLikeErr struct {
	msg    string
	target error
}

func (e ctxLikeErr) Error() string { return e.msg }
func (e ctxLikeErr) Unwrap() error { return e.target }
