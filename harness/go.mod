module verifh

go 1.21

require (
	github.com/compose-spec/compose-go/v2 v2.0.0
	github.com/sirupsen/logrus v1.9.0
)

require golang.org/x/sys v0.1.0 // indirect

replace github.com/compose-spec/compose-go/v2 => /repo

replace vsched => ../engine/vsched
