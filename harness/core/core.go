// Package core is the crash-containing worker/orchestrator framework (engine E5)
// shared by every property driver.
//
// One binary plays two roles. The parent ("run") spawns N copies of itself in
// worker mode, each of which enumerates the complete case space of a property
// and executes the slice of it whose running index is congruent to its shard
// number. Workers talk to the parent over stdout with one JSON object per line.
// A worker that dies (stack overflow, fatal runtime error, out of memory) or
// goes silent identifies the culprit case by the last START it announced.
package core

import (
	"bufio"
	"encoding/json"
	"fmt"
	"hash/fnv"
	"os"
	"runtime/debug"
	"sort"
	"strings"
	"time"
)

// Violation is one failing case. Key is the stable identity used by
// known_findings.txt; it must name the specific failing thing, not the case.
type Violation struct {
	Key    string `json:"key"`
	Msg    string `json:"msg"`
	Detail any    `json:"detail,omitempty"`
}

// Outcome is what a case reports.
type Outcome struct {
	// Class is the observable outcome signature of the case; the number of
	// distinct classes is what evidence reports as distinct_nontrivial.
	Class string
	// Trivial cases are counted as evaluations but not as non-trivial.
	Trivial bool
	Viol    *Violation
	// NoRecheck: the violation cannot be re-observed by re-executing the case in the same
	// process (e.g. a data-race report, which the detector prints once per process).
	NoRecheck bool
	// Sample, when non-nil, may be shown in the evidence file.
	Sample any
}

// Prop is a property driver.
type Prop interface {
	ID() string
	Level() string // evidence level
	Rule() string  // how cases are enumerated / what is non-trivial
	Assumptions() []string
	// Run enumerates every case of the tier, calling c.Do for each.
	Run(c *Ctx)
}

// msg is the wire format worker -> parent.
type msg struct {
	T      string           `json:"t"` // start | done | viol | sum | log
	ID     string           `json:"id,omitempty"`
	Viol   *Violation       `json:"viol,omitempty"`
	Sample any              `json:"sample,omitempty"`
	N      int64            `json:"n,omitempty"`
	Hashes []uint64         `json:"h,omitempty"`
	Cnt    map[string]int64 `json:"cnt,omitempty"`
	Capped bool             `json:"capped,omitempty"`
	Text   string           `json:"text,omitempty"`
	Notes  []string         `json:"notes,omitempty"`
}

// Ctx is handed to Prop.Run in a worker.
type Ctx struct {
	Tier    string
	Seed    int64
	Shard   int
	NShards int
	Only    string // run only this case id (replay)
	Resume  string // skip every case up to and including this id
	Dead    time.Time

	out        *bufio.Writer
	idx        int64
	evals      int64
	classes    map[uint64]struct{}
	counters   map[string]int64
	samples    int
	capped     bool
	notes      []string
	announce   bool
	violKeys   map[string]int
	lastHB     time.Time
	nextSample int64
}

const maxClassHashes = 400000
const samplesPerWorker = 4
const maxViolPerKey = 2

func h64(s string) uint64 {
	h := fnv.New64a()
	h.Write([]byte(s))
	return h.Sum64()
}

// H64 is the case-class hash (FNV-1a), exported for drivers that pass digests between processes.
func H64(s string) uint64 { return h64(s) }

func (c *Ctx) send(m msg) {
	b, _ := json.Marshal(m)
	c.out.Write(b)
	c.out.WriteByte('\n')
}

// Quick reports whether this is the quick tier.
func (c *Ctx) Quick() bool { return c.Tier != "thorough" }

// Expired reports whether the internal deadline has passed; a driver that
// observes it stops enumerating and the run is reported as not exhaustive.
func (c *Ctx) Expired() bool {
	if time.Now().After(c.Dead) {
		c.capped = true
		return true
	}
	return false
}

// Heartbeat tells the parent the worker is alive (long-running cases call it periodically).
func (c *Ctx) Heartbeat() {
	if time.Since(c.lastHB) > 3*time.Second {
		c.lastHB = time.Now()
		c.send(msg{T: "hb"})
		c.out.Flush()
	}
}

// Count adds to a named counter (states, transitions, ...), summed by the parent.
func (c *Ctx) Count(name string, n int64) { c.counters[name] += n }

// Note records a free-text remark carried into the evidence file.
func (c *Ctx) Note(s string) { c.notes = append(c.notes, s) }

// Mine tells whether the next case index belongs to this shard, and advances
// the index. Drivers whose case construction is expensive can call it before
// building the case and then use DoMine.
func (c *Ctx) Mine(id string) bool {
	i := c.idx
	c.idx++
	if c.Only != "" {
		return id == c.Only
	}
	if c.Resume != "" {
		if id == c.Resume {
			c.Resume = ""
		}
		return false
	}
	return int(i%int64(c.NShards)) == c.Shard
}

// Do runs one case if it belongs to this shard.
func (c *Ctx) Do(id string, f func() Outcome) {
	if !c.Mine(id) {
		return
	}
	c.DoMine(id, f)
}

// PanicError is a recovered panic turned into an error value.
type PanicError struct {
	Val   any
	Site  string
	Stack string
}

func (p *PanicError) Error() string { return fmt.Sprintf("panic: %v at %s", p.Val, p.Site) }

// PanicSite extracts the first compose-go frame of a stack.
func PanicSite(stack string) string {
	lines := strings.Split(stack, "\n")
	seenPanic := false
	for i := 0; i < len(lines); i++ {
		l := lines[i]
		if strings.HasPrefix(l, "panic(") {
			seenPanic = true
			continue
		}
		if !seenPanic {
			continue
		}
		if strings.HasPrefix(l, "github.com/compose-spec/compose-go/v2/") {
			fn := strings.TrimPrefix(l, "github.com/compose-spec/compose-go/v2/")
			if j := strings.LastIndex(fn, "("); j > 0 {
				fn = fn[:j]
			}
			return fn
		}
	}
	// no panic( frame (e.g. runtime error raised directly): first compose-go frame
	for _, l := range lines {
		if strings.HasPrefix(l, "github.com/compose-spec/compose-go/v2/") {
			fn := strings.TrimPrefix(l, "github.com/compose-spec/compose-go/v2/")
			if j := strings.LastIndex(fn, "("); j > 0 {
				fn = fn[:j]
			}
			return fn
		}
	}
	return "unknown"
}

// Try runs f, converting a panic into a *PanicError.
func Try(f func() error) (err error) {
	defer func() {
		if r := recover(); r != nil {
			st := string(debug.Stack())
			err = &PanicError{Val: r, Site: PanicSite(st), Stack: st}
		}
	}()
	return f()
}

// DoMine runs one case unconditionally (after Mine returned true).
func (c *Ctx) DoMine(id string, f func() Outcome) {
	if c.announce {
		c.send(msg{T: "start", ID: id})
		c.out.Flush()
	} else if c.evals&3 == 0 && time.Since(c.lastHB) > 3*time.Second {
		c.lastHB = time.Now()
		c.send(msg{T: "hb"})
		c.out.Flush()
	}
	var o Outcome
	func() {
		defer func() {
			if r := recover(); r != nil {
				st := string(debug.Stack())
				site := PanicSite(st)
				o = Outcome{Class: "harness-panic", Viol: &Violation{
					Key: "panic-site=" + site,
					Msg: fmt.Sprintf("panic: %v", r), Detail: st}}
			}
		}()
		o = f()
	}()
	c.evals++
	if !o.Trivial {
		if len(c.classes) < maxClassHashes {
			c.classes[h64(o.Class)] = struct{}{}
		}
	}
	if o.Viol != nil {
		// a failing case must fail every time: re-execute before reporting
		stable := true
		for i := 0; i < 4 && stable && !o.NoRecheck; i++ {
			var o2 Outcome
			func() {
				defer func() {
					if r := recover(); r != nil {
						o2 = Outcome{Viol: &Violation{Key: o.Viol.Key}}
					}
				}()
				o2 = f()
			}()
			if o2.Viol == nil || o2.Viol.Key != o.Viol.Key {
				stable = false
			}
		}
		if !stable {
			c.send(msg{T: "flaky", ID: id, Viol: o.Viol})
		} else {
			c.violKeys[o.Viol.Key]++
			if c.violKeys[o.Viol.Key] <= maxViolPerKey {
				c.send(msg{T: "viol", ID: id, Viol: o.Viol, Sample: o.Sample})
			} else {
				c.counters["violations_suppressed_same_key"]++
			}
			c.counters["violating_cases"]++
		}
		c.out.Flush()
	}
	if o.Sample != nil && !o.Trivial && c.samples < samplesPerWorker && o.Viol == nil && c.evals >= c.nextSample {
		c.nextSample = c.evals*8 + 5
		c.samples++
		c.send(msg{T: "sample", ID: id, Sample: o.Sample})
	}
	if c.announce {
		c.send(msg{T: "done", ID: id})
	}
}

// WorkerMain runs a property in worker mode.
func WorkerMain(p Prop, tier string, seed int64, shard, nshards int, only, resume string, deadline time.Duration, announce bool) {
	c := &Ctx{Tier: tier, Seed: seed, Shard: shard, NShards: nshards, Only: only, Resume: resume, lastHB: time.Now(),
		Dead: time.Now().Add(deadline), out: bufio.NewWriterSize(os.Stdout, 1<<16),
		classes: map[uint64]struct{}{}, counters: map[string]int64{}, announce: announce,
		violKeys: map[string]int{}}
	p.Run(c)
	for _, f := range atExit {
		f()
	}
	hs := make([]uint64, 0, len(c.classes))
	for h := range c.classes {
		hs = append(hs, h)
	}
	sort.Slice(hs, func(i, j int) bool { return hs[i] < hs[j] })
	c.send(msg{T: "sum", N: c.evals, Hashes: hs, Cnt: c.counters, Capped: c.capped, Notes: c.notes})
	c.out.Flush()
}

var registry = map[string]Prop{}

// Register adds a property driver to the binary.
func Register(p Prop) { registry[p.ID()] = p }

// Lookup finds a registered driver.
func Lookup(id string) Prop { return registry[id] }

var atExit []func()

// AtExit registers a function run by the worker after Prop.Run.
func AtExit(f func()) { atExit = append(atExit, f) }
