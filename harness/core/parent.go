package core

import (
	"bufio"
	"bytes"
	"encoding/json"
	"fmt"
	"io"
	"os"
	"os/exec"
	"path/filepath"
	"regexp"
	"runtime"
	"sort"
	"strconv"
	"strings"
	"sync"
	"time"
)

const VerifDir = "/verif"

// Finding is one line of known_findings.txt.
type Finding struct {
	Kind string // known | fixed
	Prop string
	Key  string
	Text string
}

var findingRe = regexp.MustCompile(`^(known|fixed):\s+property=(\S+)\s+key=(\S+)\s*(.*)$`)

func LoadFindings() []Finding {
	b, err := os.ReadFile(filepath.Join(VerifDir, "known_findings.txt"))
	if err != nil {
		return nil
	}
	var out []Finding
	for _, l := range strings.Split(string(b), "\n") {
		l = strings.TrimSpace(l)
		if m := findingRe.FindStringSubmatch(l); m != nil {
			out = append(out, Finding{m[1], m[2], m[3], m[4]})
		}
	}
	return out
}

type workerResult struct {
	evals    int64
	hashes   []uint64
	cnt      map[string]int64
	capped   bool
	viols    []violRec
	flaky    []violRec
	samples  []any
	notes    []string
	died     bool
	hung     bool
	oom      bool
	lastID   string
	stderr   string
	finished bool
}

type violRec struct {
	ID     string     `json:"case"`
	Viol   *Violation `json:"violation"`
	Sample any        `json:"input,omitempty"`
}

// MaxWorkerRSSMiB: a worker growing beyond this is killed (the sandbox has no memory limit of its own).
var MaxWorkerRSSMiB = 3500

func rssMiB(pid int) int {
	b, err := os.ReadFile(fmt.Sprintf("/proc/%d/statm", pid))
	if err != nil {
		return 0
	}
	f := strings.Fields(string(b))
	if len(f) < 2 {
		return 0
	}
	pages, _ := strconv.Atoi(f[1])
	return pages * (os.Getpagesize() / 1024) / 1024
}

// HangSilence is how long a worker may stay silent before it is declared hung.
var HangSilence = 120 * time.Second

func runWorker(self string, prop, tier string, seed int64, shard, n int, announce bool, resumeAfter string, deadline time.Duration, extraEnv []string) *workerResult {
	args := []string{"worker", prop, tier,
		"--shard", fmt.Sprintf("%d/%d", shard, n),
		"--seed", strconv.FormatInt(seed, 10),
		"--deadline", deadline.String()}
	if announce {
		args = append(args, "--announce")
	}
	if resumeAfter != "" {
		args = append(args, "--resume-after", resumeAfter)
	}
	cmd := exec.Command(self, args...)
	cmd.Env = append(os.Environ(), extraEnv...)
	stdout, _ := cmd.StdoutPipe()
	var errb bytes.Buffer
	cmd.Stderr = &limitedWriter{w: &errb, n: 1 << 20}
	res := &workerResult{cnt: map[string]int64{}}
	if err := cmd.Start(); err != nil {
		res.died = true
		res.stderr = err.Error()
		return res
	}
	last := time.Now()
	seenLast, silentTicks := last, 0
	var mu sync.Mutex
	doneCh := make(chan struct{})
	go func() {
		t := time.NewTicker(2 * time.Second)
		defer t.Stop()
		for {
			select {
			case <-doneCh:
				return
			case <-t.C:
				// silence is counted in ticks actually observed, not in clock time: when the whole machine is paused
				// (snapshots of the sandbox) the clock jumps, and a jump is not a hang
				mu.Lock()
				if last.Equal(seenLast) {
					silentTicks++
				} else {
					seenLast, silentTicks = last, 0
				}
				silent := time.Duration(silentTicks) * 2 * time.Second
				mu.Unlock()
				if silent > HangSilence {
					res.hung = true
					cmd.Process.Kill()
					return
				}
				if rss := rssMiB(cmd.Process.Pid); rss > MaxWorkerRSSMiB {
					res.oom = true
					cmd.Process.Kill()
					return
				}
			}
		}
	}()
	rd := bufio.NewReaderSize(stdout, 1<<20)
	for {
		line, err := rd.ReadBytes('\n')
		if len(line) > 0 {
			mu.Lock()
			last = time.Now()
			mu.Unlock()
			var m msg
			if json.Unmarshal(line, &m) == nil {
				switch m.T {
				case "start":
					res.lastID = m.ID
				case "done":
					res.lastID = ""
				case "viol":
					res.viols = append(res.viols, violRec{m.ID, m.Viol, m.Sample})
				case "flaky":
					res.flaky = append(res.flaky, violRec{m.ID, m.Viol, nil})
				case "sample":
					res.samples = append(res.samples, map[string]any{"case": m.ID, "input": m.Sample})
				case "sum":
					res.evals = m.N
					res.hashes = m.Hashes
					for k, v := range m.Cnt {
						res.cnt[k] += v
					}
					res.capped = m.Capped
					res.notes = m.Notes
					res.finished = true
				}
			}
		}
		if err != nil {
			break
		}
	}
	err := cmd.Wait()
	close(doneCh)
	res.stderr = errb.String()
	if (err != nil || !res.finished) && !res.hung {
		res.died = true
	}
	return res
}

type limitedWriter struct {
	w io.Writer
	n int
}

func (l *limitedWriter) Write(p []byte) (int, error) {
	if l.n <= 0 {
		return len(p), nil
	}
	q := p
	if len(q) > l.n {
		q = q[:l.n]
	}
	l.n -= len(q)
	l.w.Write(q)
	return len(p), nil
}

func fatalSignature(stderr string) (string, string) {
	first := ""
	for _, l := range strings.Split(stderr, "\n") {
		if strings.HasPrefix(l, "fatal error:") || strings.HasPrefix(l, "panic:") || strings.HasPrefix(l, "runtime:") {
			first = l
			break
		}
	}
	if len(first) > 120 {
		first = first[:120]
	}
	site := "unknown"
	for _, l := range strings.Split(stderr, "\n") {
		if strings.HasPrefix(l, "github.com/compose-spec/compose-go/v2/") {
			fn := strings.TrimPrefix(l, "github.com/compose-spec/compose-go/v2/")
			if j := strings.LastIndex(fn, "("); j > 0 {
				fn = fn[:j]
			}
			site = fn
			break
		}
	}
	return first, site
}

// ParentOpts tunes a parent run.
type ParentOpts struct {
	Workers  int
	Deadline time.Duration
	ExtraEnv []string
}

// ParentMain orchestrates a full check and returns the process exit code.
func ParentMain(p Prop, tier string, seed int64, po ParentOpts) int {
	t0 := time.Now()
	self, _ := os.Executable()
	n := po.Workers
	if n <= 0 {
		n = runtime.NumCPU()
	}
	id := p.ID()
	scratch, _ := os.MkdirTemp("", "verif-"+id+"-")
	defer os.RemoveAll(scratch)
	po.ExtraEnv = append(po.ExtraEnv, "VERIF_SCRATCH="+scratch, "GORACE=log_path="+scratch+"/race halt_on_error=0 exitcode=0")
	if ep, ok := p.(interface{ Env() []string }); ok {
		po.ExtraEnv = append(po.ExtraEnv, ep.Env()...)
	}
	results := make([]*workerResult, n)
	var infra []string
	var deaths []violRec
	var wg sync.WaitGroup
	var mu sync.Mutex
	for i := 0; i < n; i++ {
		wg.Add(1)
		go func(i int) {
			defer wg.Done()
			agg := &workerResult{cnt: map[string]int64{}}
			resume := ""
			// after a first culprit the shard continues in announcing mode (one silence period less per further
			// culprit); at most 5 culprits per shard are examined, the rest of the shard is then reported as not covered
			for attempt := 0; attempt < 5; attempt++ {
				r := runWorker(self, id, tier, seed, i, n, attempt > 0, resume, po.Deadline, po.ExtraEnv)
				if r.oom {
					mu.Lock()
					infra = append(infra, fmt.Sprintf("shard %d: worker exceeded %d MiB of memory and was stopped; the shard is incomplete", i, MaxWorkerRSSMiB))
					mu.Unlock()
					break
				}
				if !r.died && !r.hung {
					mergeInto(agg, r)
					agg.finished = true
					break
				}
				// identify the culprit with an announcing re-run of this shard
				r2 := r
				if attempt == 0 {
					r2 = runWorker(self, id, tier, seed, i, n, true, resume, po.Deadline, po.ExtraEnv)
				}
				if !r2.died && !r2.hung {
					// did not reproduce: infrastructure problem, not a violation
					mu.Lock()
					infra = append(infra, fmt.Sprintf("shard %d: worker died/hung once but not on re-run; stderr: %.400s", i, r.stderr))
					mu.Unlock()
					mergeInto(agg, r2)
					agg.finished = true
					break
				}
				if r2.lastID == "" {
					mu.Lock()
					infra = append(infra, fmt.Sprintf("shard %d: worker died outside any case; stderr: %.800s", i, r2.stderr))
					mu.Unlock()
					break
				}
				// confirm alone: twice for the first culprit of the run, once for the following ones
				mu.Lock()
				need := 2
				if len(deaths) > 0 {
					need = 1
				}
				mu.Unlock()
				confirmed := 0
				var lastErr string
				for k := 0; k < need; k++ {
					r3 := runOnly(self, id, tier, seed, r2.lastID, po.ExtraEnv)
					if r3.died || r3.hung {
						confirmed++
						lastErr = r3.stderr
					}
				}
				if confirmed == need {
					first, site := fatalSignature(lastErr)
					kind := "process-death"
					if r2.hung {
						kind = "hang"
						first = "no progress for " + HangSilence.String()
					}
					mu.Lock()
					deaths = append(deaths, violRec{ID: r2.lastID, Viol: &Violation{
						Key: kind + "-site=" + site, Msg: kind + ": " + first,
						Detail: truncate(lastErr, 4000)}})
					mu.Unlock()
				} else {
					mu.Lock()
					infra = append(infra, fmt.Sprintf("shard %d: case %s killed the worker in-shard but not alone", i, r2.lastID))
					mu.Unlock()
				}
				// partial results of the announcing run up to the culprit are kept
				mergePartial(agg, r2)
				resume = r2.lastID
			}
			results[i] = agg
		}(i)
	}
	wg.Wait()

	// merge
	var evals int64
	classes := map[uint64]struct{}{}
	cnt := map[string]int64{}
	capped := false
	var viols, flaky []violRec
	var samples []any
	notes := map[string]struct{}{}
	for _, r := range results {
		if r == nil {
			continue
		}
		evals += r.evals
		for _, h := range r.hashes {
			classes[h] = struct{}{}
		}
		for k, v := range r.cnt {
			cnt[k] += v
		}
		capped = capped || r.capped || !r.finished
		viols = append(viols, r.viols...)
		flaky = append(flaky, r.flaky...)
		for _, s := range r.samples {
			if len(samples) < 6 {
				samples = append(samples, s)
			}
		}
		for _, s := range r.notes {
			notes[s] = struct{}{}
		}
	}
	viols = append(viols, deaths...)
	sort.SliceStable(viols, func(i, j int) bool { return viols[i].Viol.Key < viols[j].Viol.Key })

	// classify against known findings
	known := map[string]Finding{}
	for _, f := range LoadFindings() {
		if f.Prop == id && f.Kind == "known" {
			known[f.Key] = f
		}
	}
	exit := 0
	printedKnown := map[string]bool{}
	newKeys := map[string]bool{}
	var out bytes.Buffer
	for _, v := range viols {
		if f, ok := known[v.Viol.Key]; ok {
			if !printedKnown[v.Viol.Key] {
				printedKnown[v.Viol.Key] = true
				fmt.Fprintf(&out, "KNOWN-FINDING: property=%s key=%s %s\n", id, f.Key, f.Text)
			}
			continue
		}
		exit = 1
		if newKeys[v.Viol.Key] {
			continue
		}
		newKeys[v.Viol.Key] = true
		path := writeReplay(id, tier, seed, v)
		fmt.Fprintf(&out, "VIOLATION property=%s replay=%s\n", id, path)
		fmt.Fprintf(&out, "  key=%s case=%s\n  %s\n", v.Viol.Key, v.ID, truncate(v.Viol.Msg, 600))
	}
	for _, f := range flaky {
		infra = append(infra, fmt.Sprintf("case %s failed once but not on re-execution (key %s): not reported", f.ID, f.Viol.Key))
	}
	if len(samples) == 0 {
		samples = append(samples, "no sample emitted by driver")
	}
	cov := map[string]any{
		"evaluations":         evals,
		"distinct_nontrivial": len(classes),
		"rule":                p.Rule(),
		"samples":             samples,
		"exhaustive":          !capped && len(infra) == 0,
		"workers":             n,
	}
	for k, v := range cnt {
		cov[k] = v
	}
	if p.Level() == "model_checking" {
		if _, ok := cov["states"]; !ok {
			cov["states"] = int64(len(classes))
		}
		if _, ok := cov["transitions"]; !ok {
			cov["transitions"] = evals
		}
		if _, ok := cov["traces_validated_against_impl"]; !ok {
			cov["traces_validated_against_impl"] = evals
		}
	}
	var ns []string
	for s := range notes {
		ns = append(ns, s)
	}
	sort.Strings(ns)
	if len(ns) > 0 {
		cov["notes"] = ns
	}
	if len(infra) > 0 {
		cov["infrastructure_remarks"] = infra
	}
	if len(printedKnown) > 0 {
		var ks []string
		for k := range printedKnown {
			ks = append(ks, k)
		}
		sort.Strings(ks)
		cov["known_findings_observed"] = ks
	}
	if capped {
		cov["cap"] = "internal deadline " + po.Deadline.String() + " reached or a shard did not finish; counts are what completed below the cap"
	}
	ev := map[string]any{
		"property_id": id,
		"tier":        tier,
		"seed":        seed,
		"level":       p.Level(),
		"coverage":    cov,
		"assumptions": p.Assumptions(),
		"wall_s":      float64(int(time.Since(t0).Seconds()*100)) / 100,
		"violations":  len(newKeys),
	}
	WriteEvidence(id, ev)
	os.Stdout.Write(out.Bytes())
	fmt.Printf("%s %s: evaluations=%d distinct=%d violations=%d known=%d exhaustive=%v wall=%.1fs\n",
		id, tier, evals, len(classes), len(newKeys), len(printedKnown), !capped && len(infra) == 0, time.Since(t0).Seconds())
	for _, s := range infra {
		fmt.Println("INFRA:", s)
	}
	return exit
}

func truncate(s string, n int) string {
	if len(s) > n {
		return s[:n] + "…"
	}
	return s
}

func mergeInto(a, r *workerResult) {
	a.evals += r.evals
	a.hashes = append(a.hashes, r.hashes...)
	for k, v := range r.cnt {
		a.cnt[k] += v
	}
	a.capped = a.capped || r.capped
	a.viols = append(a.viols, r.viols...)
	a.flaky = append(a.flaky, r.flaky...)
	a.samples = append(a.samples, r.samples...)
	a.notes = append(a.notes, r.notes...)
}

func mergePartial(a, r *workerResult) {
	a.viols = append(a.viols, r.viols...)
	a.samples = append(a.samples, r.samples...)
}

func runOnly(self, prop, tier string, seed int64, caseID string, extraEnv []string) *workerResult {
	args := []string{"worker", prop, tier, "--shard", "0/1", "--seed", strconv.FormatInt(seed, 10),
		"--only", caseID, "--announce", "--deadline", "10m"}
	cmd := exec.Command(self, args...)
	cmd.Env = append(os.Environ(), extraEnv...)
	var outb, errb bytes.Buffer
	cmd.Stdout = &outb
	cmd.Stderr = &limitedWriter{w: &errb, n: 1 << 20}
	res := &workerResult{cnt: map[string]int64{}}
	if err := cmd.Start(); err != nil {
		res.died = true
		return res
	}
	done := make(chan error, 1)
	go func() { done <- cmd.Wait() }()
	// (ticks observed, not clock time: see runWorker)
	tk := time.NewTicker(2 * time.Second)
	defer tk.Stop()
wait:
	for ticks := 0; ; {
		select {
		case err := <-done:
			if err != nil {
				res.died = true
			}
			break wait
		case <-tk.C:
			ticks++
			if time.Duration(ticks)*2*time.Second > HangSilence {
				cmd.Process.Kill()
				<-done
				res.hung = true
				break wait
			}
		}
	}
	res.stderr = errb.String()
	for _, line := range bytes.Split(outb.Bytes(), []byte("\n")) {
		var m msg
		if json.Unmarshal(line, &m) == nil {
			switch m.T {
			case "viol":
				res.viols = append(res.viols, violRec{m.ID, m.Viol, m.Sample})
			case "sum":
				res.evals = m.N
				res.finished = true
			}
		}
	}
	return res
}

// ReplayMain re-runs the case recorded in a replay file; exit 1 if it still fails.
func ReplayMain(p Prop, path string) int {
	b, err := os.ReadFile(path)
	if err != nil {
		fmt.Println("cannot read replay:", err)
		return 2
	}
	var rep struct {
		Tier string `json:"tier"`
		Seed int64  `json:"seed"`
		Case string `json:"case"`
	}
	if err := json.Unmarshal(b, &rep); err != nil {
		fmt.Println("bad replay file:", err)
		return 2
	}
	self, _ := os.Executable()
	r := runOnly(self, p.ID(), rep.Tier, rep.Seed, rep.Case, nil)
	if r.died || r.hung {
		fmt.Printf("VIOLATION property=%s replay=%s\n  worker died or hung replaying case %s\n%s\n", p.ID(), path, rep.Case, truncate(r.stderr, 3000))
		return 1
	}
	if len(r.viols) > 0 {
		for _, v := range r.viols {
			fmt.Printf("VIOLATION property=%s replay=%s\n  key=%s\n  %s\n", p.ID(), path, v.Viol.Key, v.Viol.Msg)
		}
		return 1
	}
	if r.evals == 0 {
		fmt.Printf("replay: case %s not found in the enumeration\n", rep.Case)
		return 2
	}
	fmt.Printf("replay: case %s passes\n", rep.Case)
	return 0
}

func outDir(kind string) string {
	if d := os.Getenv("VERIF_OUT"); d != "" {
		return filepath.Join(d, kind)
	}
	return filepath.Join(VerifDir, kind)
}

func writeReplay(id, tier string, seed int64, v violRec) string {
	dir := filepath.Join(outDir("replays"), id)
	os.MkdirAll(dir, 0o755)
	name := fmt.Sprintf("%016x.json", h64(v.Viol.Key+"|"+v.ID))
	path := filepath.Join(dir, name)
	b, _ := json.MarshalIndent(map[string]any{
		"property": id, "tier": tier, "seed": seed, "case": v.ID,
		"key": v.Viol.Key, "message": v.Viol.Msg, "detail": v.Viol.Detail, "input": v.Sample,
		"replay_cmd": fmt.Sprintf("./check.sh %s --replay %s", id, path),
	}, "", " ")
	os.WriteFile(path, b, 0o644)
	return path
}

// WriteEvidence writes /verif/evidence/<id>.json.
func WriteEvidence(id string, ev map[string]any) {
	dir := outDir("evidence")
	os.MkdirAll(dir, 0o755)
	b, _ := json.MarshalIndent(ev, "", " ")
	os.WriteFile(filepath.Join(dir, id+".json"), append(b, '\n'), 0o644)
}

// RunCase executes one case of a property in a fresh copy of this binary (a cold process: no lazily
// initialised package state has been touched yet) and returns the violations it reported. A worker
// that died or hung is reported as a violation as well: the culprit is the case.
func RunCase(prop, tier string, seed int64, caseID string, extraEnv []string) (viols []*Violation, diag string) {
	self, _ := os.Executable()
	r := runOnly(self, prop, tier, seed, caseID, extraEnv)
	for _, v := range r.viols {
		viols = append(viols, v.Viol)
	}
	if r.died || r.hung || !r.finished {
		what := "died"
		if r.hung {
			what = "went silent"
		}
		st := r.stderr
		site := "unknown"
		if strings.Contains(st, "fatal error:") {
			i := strings.Index(st, "fatal error:")
			j := strings.IndexByte(st[i:], '\n')
			if j < 0 {
				j = len(st) - i
			}
			site = strings.TrimSpace(st[i : i+j])
		}
		viols = append(viols, &Violation{Key: "cold-process-" + strings.ReplaceAll(what, " ", "-") + ":" + site,
			Msg: "fresh process running case " + caseID + " " + what, Detail: truncate(st, 3000)})
	}
	return viols, r.stderr
}
