// Package schemagen reads /repo/schema/compose-spec.json at run time and answers questions
// about concrete attribute paths: which JSON types the schema admits there, and the list of
// all attribute paths of the schema (so enumerations follow schema edits).
package schemagen

import (
	"encoding/json"
	"os"
	"regexp"
	"sort"
	"strings"
)

type Schema struct {
	root map[string]any
}

func Load(path string) (*Schema, error) {
	b, err := os.ReadFile(path)
	if err != nil {
		return nil, err
	}
	var m map[string]any
	if err := json.Unmarshal(b, &m); err != nil {
		return nil, err
	}
	return &Schema{root: m}, nil
}

func (s *Schema) deref(n map[string]any) map[string]any {
	for i := 0; i < 10; i++ {
		r, ok := n["$ref"].(string)
		if !ok {
			return n
		}
		parts := strings.Split(strings.TrimPrefix(r, "#/"), "/")
		cur := any(s.root)
		for _, p := range parts {
			m, ok := cur.(map[string]any)
			if !ok {
				return n
			}
			cur = m[p]
		}
		m, ok := cur.(map[string]any)
		if !ok {
			return n
		}
		n = m
	}
	return n
}

// alternatives expands oneOf/anyOf/allOf into the list of concrete alternative nodes.
func (s *Schema) alternatives(n map[string]any) []map[string]any {
	n = s.deref(n)
	var out []map[string]any
	expanded := false
	for _, k := range []string{"oneOf", "anyOf"} {
		if l, ok := n[k].([]any); ok {
			expanded = true
			for _, e := range l {
				if m, ok := e.(map[string]any); ok {
					out = append(out, s.alternatives(m)...)
				}
			}
		}
	}
	if !expanded {
		out = append(out, n)
	}
	return out
}

// Child returns the schema nodes for key (a mapping key or "[]" for a list item) below the given nodes.
func (s *Schema) children(nodes []map[string]any, key string) []map[string]any {
	var out []map[string]any
	for _, n := range nodes {
		for _, alt := range s.alternatives(n) {
			if key == "[]" {
				if it, ok := alt["items"].(map[string]any); ok {
					out = append(out, it)
				}
				continue
			}
			if props, ok := alt["properties"].(map[string]any); ok {
				if c, ok := props[key].(map[string]any); ok {
					out = append(out, c)
					continue
				}
			}
			matched := false
			if pp, ok := alt["patternProperties"].(map[string]any); ok {
				for pat, c := range pp {
					if re, err := regexp.Compile(pat); err == nil && re.MatchString(key) {
						if cm, ok := c.(map[string]any); ok {
							out = append(out, cm)
							matched = true
						}
					}
				}
			}
			if !matched {
				if ap, ok := alt["additionalProperties"].(map[string]any); ok {
					out = append(out, ap)
				}
			}
		}
	}
	return out
}

// Types returns the JSON types the schema admits at the concrete path (keys, "[]" for list items).
func (s *Schema) Types(path []string) map[string]bool {
	nodes := []map[string]any{s.root}
	for _, k := range path {
		nodes = s.children(nodes, k)
		if len(nodes) == 0 {
			return map[string]bool{}
		}
	}
	out := map[string]bool{}
	for _, n := range nodes {
		for _, alt := range s.alternatives(n) {
			switch t := alt["type"].(type) {
			case string:
				out[t] = true
			case []any:
				for _, x := range t {
					if xs, ok := x.(string); ok {
						out[xs] = true
					}
				}
			}
		}
	}
	return out
}

// Paths lists every attribute path of the schema below the given prefix (pattern keys appear as
// the provided placeholder name), up to a depth.
func (s *Schema) Paths(prefix []string, placeholder string, maxDepth int) [][]string {
	var out [][]string
	seen := map[string]bool{}
	var walk func(nodes []map[string]any, path []string, depth int)
	walk = func(nodes []map[string]any, path []string, depth int) {
		if depth > maxDepth {
			return
		}
		keys := map[string]bool{}
		hasItems := false
		for _, n := range nodes {
			for _, alt := range s.alternatives(n) {
				if props, ok := alt["properties"].(map[string]any); ok {
					for k := range props {
						keys[k] = true
					}
				}
				if pp, ok := alt["patternProperties"].(map[string]any); ok {
					for pat := range pp {
						if !strings.HasPrefix(pat, "^x-") {
							keys[placeholder] = true
						}
					}
				}
				if _, ok := alt["additionalProperties"].(map[string]any); ok {
					keys[placeholder] = true
				}
				if _, ok := alt["items"].(map[string]any); ok {
					hasItems = true
				}
			}
		}
		var ks []string
		for k := range keys {
			ks = append(ks, k)
		}
		sort.Strings(ks)
		for _, k := range ks {
			np := append(append([]string{}, path...), k)
			id := strings.Join(np, ".")
			if seen[id] {
				continue
			}
			seen[id] = true
			out = append(out, np)
			walk(s.children(nodes, k), np, depth+1)
		}
		if hasItems {
			np := append(append([]string{}, path...), "[]")
			id := strings.Join(np, ".")
			if !seen[id] {
				seen[id] = true
				out = append(out, np)
				walk(s.children(nodes, "[]"), np, depth+1)
			}
		}
	}
	nodes := []map[string]any{s.root}
	for _, k := range prefix {
		nodes = s.children(nodes, k)
	}
	walk(nodes, prefix, len(prefix))
	return out
}
