// mapprobe: self-test of engine E2 (runtime overlay). Prints iteration orders under control.
package main

import (
	"fmt"
	"os"

	"verifh/mapctl"
)

func order(m map[string]int) string {
	s := ""
	for k := range m {
		s += k
	}
	return s
}

func main() {
	if !mapctl.Present() {
		fmt.Println("overlay missing")
		os.Exit(2)
	}
	m := map[string]int{"a": 1, "b": 2, "c": 3, "d": 4, "e": 5}
	big := map[string]int{}
	for i := 0; i < 27; i++ {
		big[fmt.Sprintf("k%02d", i)] = i
	}
	for k := uintptr(0); k < 8; k++ {
		mapctl.SetUniform(k)
		fmt.Println("uniform", k, order(m), order(big)[:12])
	}
	mapctl.SetUniform(0)
	mapctl.Begin(0, 0, 0)
	_ = order(m)
	_ = order(big)
	_ = order(m)
	n := mapctl.End()
	fmt.Println("points", n, mapctl.Log(0), mapctl.Log(1))
	for i := 0; i < n; i++ {
		p := mapctl.Log(i)
		mapctl.Begin(1, uintptr(i), mapctl.RFor(p.B, 1, 3))
		a, b, c := order(m), order(big)[:12], order(m)
		mapctl.End()
		fmt.Println("dev", i, a, b, c)
	}
}
