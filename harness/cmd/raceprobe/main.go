//go:build sched

// raceprobe: developer experiment — which library calls order two controlled threads for TSan?
package main

import (
	"encoding/json"
	"fmt"
	"os"

	"vsched"
	"vsched/vsync"

	"verifh/props"
)

var X int

func main() {
	which := os.Args[1]
	if len(which) > 4 && (which[:4] == "sort" || which[:5] == "subst" || which[:4] == "load" && which != "loadonly" && which != "load" || which[:4] == "then") {
		sortProbe(which)
		fmt.Println("done", which)
		return
	}
	inputs := props.CorpusScns()
	s := inputs["version"]
	root := props.Scratch() + "/v"
	s.MaterialiseAt(root)
	s.LoadAt(root)
	after := func() {
		switch which {
		case "loadonly":
			s.LoadAt(root)
			return
		case "none":
		case "load":
			s.LoadAt(root)
		case "sprintf":
			_ = fmt.Sprintf("%d", 1)
		case "json":
			json.Marshal(map[string]int{"a": 1})
		case "stat":
			os.Stat(root)
		case "readfile":
			os.ReadFile(root + "/compose.yaml")
		}
	}
	e := &vsched.Explorer{Bound: 0, Setup: func() (func(), func(*vsched.Sched) string) {
		return func() {
			var wg vsync.WaitGroup
			wg.Add(2)
			if which == "loadonly" {
				vsched.Go(func() { after(); wg.Done() })
				vsched.Go(func() { after(); wg.Done() })
			} else {
				vsched.Go(func() { X = 1; after(); wg.Done() })
				vsched.Go(func() { after(); _ = X; wg.Done() })
			}
			wg.Wait()
		}, func(*vsched.Sched) string { return "" }
	}}
	e.Explore()
	fmt.Println("done", which)
	props.CleanScratch()
}
