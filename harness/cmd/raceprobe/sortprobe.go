//go:build sched

package main

import (
	"encoding/json"
	"fmt"
	"os"
	"regexp"
	"runtime"
	"sort"
	"strings"

	"github.com/compose-spec/compose-go/v2/schema"
	"github.com/sirupsen/logrus"
	"gopkg.in/yaml.v3"

	"vsched"
	"vsched/vsync"

	"github.com/compose-spec/compose-go/v2/template"

	"verifh/props"
)

type op struct {
	string
	f func()
}

var table []op

func init() {
	table = []op{{":?", nil}, {"?", nil}, {":-", nil}, {"-", nil}, {":+", nil}, {"+", nil}}
}

func pick(t string) string {
	sort.Slice(table, func(i, j int) bool {
		return strings.Index(t, table[i].string) > strings.Index(t, table[j].string)
	})
	return table[0].string
}

var probeScn *props.Scn
var probeRoot string

func sortProbe(mode string) {
	probeScn = props.CorpusScns()["operators"]
	probeRoot = props.Scratch() + "/ops"
	probeScn.MaterialiseAt(probeRoot)
	e := &vsched.Explorer{Bound: 0, Setup: func() (func(), func(*vsched.Sched) string) {
		return func() {
			var wg vsync.WaitGroup
			wg.Add(2)
			body := func(t string) func() {
				return func() {
					switch mode {
					case "sort-quiet":
						vsched.Quiet(func() { pick(t) })
					case "sort":
						pick(t)
					case "subst-then-busy1m", "subst-then-busy30m", "subst-then-busy300m":
						n := map[string]int{"subst-then-busy1m": 1000000, "subst-then-busy30m": 30000000, "subst-then-busy300m": 300000000}[mode]
						vsched.Quiet(func() {
							template.Substitute(t, func(string) (string, bool) { return "v", true })
							buf := make([]int, 1024)
							for i := 0; i < n; i++ {
								buf[i&1023] += i
							}
						})
					case "then-jsonvalid", "then-flatjson", "then-deepjson", "then-strbuild", "then-mapinsert", "then-gc", "then-alloc", "then-bigjson", "then-readfile", "then-yaml", "then-schema", "then-sprintf", "then-logrus", "then-json", "then-stat", "then-getwd", "then-regexp", "then-sortslice":
						vsched.Quiet(func() {
							template.Substitute(t, func(string) (string, bool) { return "v", true })
							switch mode {
							case "then-jsonvalid":
								json.Valid([]byte(schema.Schema))
							case "then-flatjson":
								var v any
								json.Unmarshal([]byte("["+strings.Repeat("1,", 20000)+"1]"), &v)
							case "then-deepjson":
								var v any
								json.Unmarshal([]byte(strings.Repeat("[", 2000)+strings.Repeat("]", 2000)), &v)
							case "then-strbuild":
								var sb strings.Builder
								for i := 0; i < 200000; i++ {
									sb.WriteString("x")
								}
							case "then-mapinsert":
								m := map[string]any{}
								for i := 0; i < 50000; i++ {
									m[fmt.Sprint(i)] = map[string]any{"a": i}
								}
							case "then-gc":
								runtime.GC()
							case "then-alloc":
								var keep [][]byte
								for i := 0; i < 2000; i++ {
									keep = append(keep, make([]byte, 100000))
									if len(keep) > 10 {
										keep = keep[1:]
									}
								}
							case "then-bigjson":
								var v any
								json.Unmarshal([]byte(schema.Schema), &v)
							case "then-readfile":
								os.ReadFile(probeRoot + "/compose.yaml")
							case "then-stat":
								os.Stat(probeRoot)
							case "then-getwd":
								os.Getwd()
							case "then-yaml":
								var m map[string]any
								yaml.Unmarshal([]byte("a: {b: [1, 2]}\n"), &m)
							case "then-schema":
								schema.Validate(map[string]any{"services": map[string]any{"s": map[string]any{"image": "i"}}})
							case "then-sprintf":
								_ = fmt.Sprintf("%v %d", map[string]int{"a": 1}, 3)
							case "then-logrus":
								logrus.Warn("x")
							case "then-json":
								json.Marshal(map[string]any{"a": []int{1}})
							case "then-regexp":
								regexp.MustCompile("a+b").MatchString("aab")
							case "then-sortslice":
								x := []string{"b", "a"}
								sort.Strings(x)
							}
						})
					case "loadq":
						vsched.Quiet(func() { probeScn.LoadAt(probeRoot) })
					case "subst-then-load":
						vsched.Quiet(func() {
							template.Substitute(t, func(string) (string, bool) { return "v", true })
							probeScn.LoadAt(probeRoot)
						})
					case "subst-quiet":
						vsched.Quiet(func() { template.Substitute(t, func(string) (string, bool) { return "v", true }) })
					}
					wg.Done()
				}
			}
			vsched.Go(body("${A:-x}"))
			vsched.Go(body("${A:+x}"))
			wg.Wait()
		}, func(*vsched.Sched) string { return "" }
	}}
	e.Explore()
}
