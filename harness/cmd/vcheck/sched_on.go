//go:build sched

package main

import _ "verifh/sched"
