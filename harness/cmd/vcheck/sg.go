package main

import (
	"fmt"
	"strings"

	"verifh/schemagen"
)

func sgMain() {
	s, err := schemagen.Load("/repo/schema/compose-spec.json")
	if err != nil {
		panic(err)
	}
	fmt.Println(s.Types([]string{"services", "s", "privileged"}), s.Types([]string{"services", "s", "ports", "[]"}), s.Types([]string{"services", "s", "cpus"}), s.Types([]string{"services", "s", "healthcheck", "retries"}), s.Types([]string{"networks", "n", "external"}))
	ps := s.Paths([]string{"services", "s"}, "KEY", 7)
	fmt.Println(len(ps))
	for i, p := range ps {
		if i%25 == 0 {
			fmt.Println(strings.Join(p, "."), s.Types(p))
		}
	}
}
