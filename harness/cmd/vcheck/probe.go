package main

import (
	"fmt"
	"os"
	"sort"

	"verifh/props"
)

// probe: developer aid — load every corpus scenario and print the outcome.
func probeMain() {
	sc := props.CorpusScns()
	var names []string
	for n := range sc {
		names = append(names, n)
	}
	sort.Strings(names)
	for _, n := range names {
		p, err, root := sc[n].Load()
		if err != nil {
			fmt.Printf("%-14s ERROR %v\n", n, err)
			continue
		}
		y, j, rerr := props.Render(p)
		fmt.Printf("%-14s ok services=%d yaml=%d json=%d rerr=%v\n", n, len(p.Services), len(y), len(j), rerr)
		if len(os.Args) > 2 && os.Args[2] == n {
			fmt.Println(y)
		}
		_ = root
	}
	props.CleanScratch()
}
