// vcheck: one binary, parent and worker (see core).
//
//	vcheck run <ID> <tier>            orchestrate a check, write evidence, exit 0/1/2
//	vcheck worker <ID> <tier> flags   (internal)
//	vcheck replay <ID> <path>         re-run the case of a replay file
package main

import (
	"fmt"
	"os"
	"strconv"
	"strings"
	"time"

	"verifh/core"
	"verifh/props"
)

func main() {
	if len(os.Args) >= 2 && os.Args[1] == "c02stats" {
		props.C02Stats()
		props.CleanScratch()
		return
	}
	if len(os.Args) >= 2 && os.Args[1] == "sg" {
		sgMain()
		return
	}
	if len(os.Args) >= 2 && os.Args[1] == "probe" {
		probeMain()
		return
	}
	if len(os.Args) >= 3 && os.Args[1] == "hist" {
		props.HistMain(os.Args[2], os.Args[3:])
		props.CleanScratch()
		return
	}
	if len(os.Args) < 3 {
		fmt.Println("usage: vcheck run|worker|replay <ID> ...")
		os.Exit(2)
	}
	mode, id := os.Args[1], os.Args[2]
	p := core.Lookup(id)
	if p == nil {
		fmt.Println("unknown property (not in this build flavour):", id)
		os.Exit(2)
	}
	seed := int64(0)
	if s := os.Getenv("VERIF_SEED"); s != "" {
		seed, _ = strconv.ParseInt(s, 10, 64)
	}
	switch mode {
	case "run":
		tier := "quick"
		if len(os.Args) > 3 {
			tier = os.Args[3]
		}
		dl := 6 * time.Minute
		if tier == "thorough" {
			dl = 45 * time.Minute
		}
		if s := os.Getenv("VERIF_DEADLINE"); s != "" {
			if d, err := time.ParseDuration(s); err == nil {
				dl = d
			}
		}
		w := 0
		if s := os.Getenv("VERIF_WORKERS"); s != "" {
			w, _ = strconv.Atoi(s)
		}
		os.Exit(core.ParentMain(p, tier, seed, core.ParentOpts{Workers: w, Deadline: dl}))
	case "replay":
		os.Exit(core.ReplayMain(p, os.Args[3]))
	case "worker":
		tier := os.Args[3]
		shard, n := 0, 1
		only, resume := "", ""
		announce := false
		dl := 10 * time.Minute
		for i := 4; i < len(os.Args); i++ {
			switch os.Args[i] {
			case "--shard":
				i++
				parts := strings.Split(os.Args[i], "/")
				shard, _ = strconv.Atoi(parts[0])
				n, _ = strconv.Atoi(parts[1])
			case "--seed":
				i++
				seed, _ = strconv.ParseInt(os.Args[i], 10, 64)
			case "--only":
				i++
				only = os.Args[i]
			case "--resume-after":
				i++
				resume = os.Args[i]
			case "--announce":
				announce = true
			case "--deadline":
				i++
				dl, _ = time.ParseDuration(os.Args[i])
			}
		}
		core.WorkerMain(p, tier, seed, shard, n, only, resume, dl, announce)
	}
}
