#!/bin/bash
# tools/seedkeep.sh <name> <outdir> <property> "<detected by / result>"
set -eu
N=$1; OUT=$2; PID=$3; RES=$4
D=/verif/seeded/$N
mkdir -p $D
cp $OUT/patch.diff $D/
cp $OUT/*_test.go $D/ 2>/dev/null || true
python3 - "$OUT/meta.json" "$D/meta.json" "$PID" "$RES" <<'PY'
import json,sys
m=json.load(open(sys.argv[1]))
m['property']=sys.argv[3]
m['confirmed_by_me']=["tools/seedverify.sh: applies to /repo HEAD in a scratch worktree, go build ok, existing suite passes, demo fails with the change and passes without it"]
m['check_result']=sys.argv[4]
json.dump(m,open(sys.argv[2],'w'),indent=1)
PY
echo kept $D
