#!/bin/bash
# tools/selftest.sh [name ...]  : run the registered quick check of each kept seeded change against a scratch
# copy of /repo HEAD with the change applied; every one must be reported (exit 1 + VIOLATION line).
# /repo itself is never modified; evidence/replays of these runs go to a scratch directory.
set -u
cd /verif
. ./env.sh
names=("$@")
[ ${#names[@]} -eq 0 ] && names=($(ls seeded | grep -v RESULTS))
base=/tmp/verif-selftest
mkdir -p $base
results=/verif/seeded/RESULTS.md
tmpres=$(mktemp)
for n in "${names[@]}"; do
  d=seeded/$n
  [ -f $d/patch.diff ] || continue
  prop=$(python3 -c "import json;print(json.load(open('$d/meta.json'))['property'])")
  # check_with: other properties whose check is also tried when the property's own check does not report the change
  also=$(python3 -c "import json;print(' '.join(json.load(open('$d/meta.json')).get('check_with',[])))")
  oos=$(python3 -c "import json;print(json.load(open('$d/meta.json')).get('out_of_scope',''))")
  if [ -n "$oos" ]; then
    echo "| $n | $prop | OUT OF SCOPE of the statement (see meta.json) | \`\` | - |" >> $tmpres
    echo "$n $prop OUT-OF-SCOPE"
    continue
  fi
  wt=$base/$n
  git -C /repo worktree remove --force $wt 2>/dev/null
  git -C /repo worktree add -q --detach $wt HEAD || { echo "| $n | $prop | worktree failed |" >> $tmpres; continue; }
  if ! git -C $wt apply /verif/$d/patch.diff 2>/dev/null; then
    echo "| $n | $prop | PATCH DOES NOT APPLY to current HEAD |" >> $tmpres
    git -C /repo worktree remove --force $wt; continue
  fi
  t0=$(date +%s)
  out=$(VERIF_REPO=$wt VERIF_OUT=$base/out-$n ./check.sh $prop quick 2>&1); rc=$?
  t1=$(date +%s)
  key=$(echo "$out" | grep -m1 "^  key=" | sed 's/^  key=//; s/ case=.*//' | cut -c1-110)
  if [ $rc -eq 1 ] && echo "$out" | grep -q "^VIOLATION property=$prop"; then verdict="DETECTED"; else verdict="MISSED (exit $rc)"; fi
  if [ "$verdict" != "DETECTED" ]; then
    for ap in $also; do
      out=$(VERIF_REPO=$wt VERIF_OUT=$base/out-$n ./check.sh $ap quick 2>&1); rc2=$?
      if [ $rc2 -eq 1 ] && echo "$out" | grep -q "^VIOLATION property=$ap"; then
        key=$(echo "$out" | grep -m1 "^  key=" | sed 's/^  key=//; s/ case=.*//' | cut -c1-110)
        verdict="DETECTED by $ap (not by $prop)"; break
      fi
    done
    t1=$(date +%s)
  fi
  echo "| $n | $prop | $verdict | \`$key\` | $((t1-t0)) s |" >> $tmpres
  echo "$n $prop $verdict $key"
  git -C /repo worktree remove --force $wt
  rm -rf /verif/.build/alt-$(echo "$wt" | md5sum | cut -c1-8) $base/out-$n
done
# merge with the rows of earlier runs (a row is replaced when its seeded change was run again)
if [ -f $results ]; then
  grep '^| ' $results | grep -v '^| seeded change' | grep -v '^|---' | while IFS= read -r row; do
    n=$(echo "$row" | cut -d'|' -f2 | tr -d ' ')
    grep -q "^| $n |" $tmpres || echo "$row" >> $tmpres
  done
fi
{
  echo "# Seeded changes vs. checks (tools/selftest.sh, quick tier, scratch copies of /repo HEAD; last run at $(git -C /repo rev-parse --short HEAD))"
  echo
  echo "| seeded change | property | result | first violation key | time |"
  echo "|---|---|---|---|---|"
  sort $tmpres
} > $results.new && mv $results.new $results
rm -f $tmpres
rmdir $base 2>/dev/null
cat $results
