#!/bin/bash
# tools/seedverify.sh <ID> <outdir> : confirm a seeded change in a scratch worktree of /repo HEAD
# (compiles, existing tests pass, demo fails with it and passes without it)
set -u
. /verif/env.sh
ID=$1; OUT=$2
WT=/tmp/seedverify-$ID
git -C /repo worktree remove --force $WT 2>/dev/null
git -C /repo worktree add -q --detach $WT HEAD || exit 2
cd $WT
demo=$(python3 -c "import json;print(json.load(open('$OUT/meta.json'))['demo'])")
pkg=$(dirname $demo)
res=ok
git apply $OUT/patch.diff || { echo "PATCH DOES NOT APPLY"; res=bad; }
go build ./... || { echo "BUILD FAILS"; res=bad; }
if go test -vet=off -count=1 ./... >/tmp/seedverify-$ID.log 2>&1; then echo "suite passes with change"; else echo "SUITE FAILS with change"; grep -E "^(FAIL|---)" /tmp/seedverify-$ID.log | head; res=bad; fi
cp $OUT/$(basename $demo) $WT/$demo
if go test -vet=off -count=1 -run 'Seed' ./$pkg/ >/tmp/seedverify-$ID.demo1.log 2>&1; then echo "DEMO PASSES with change (bad)"; res=bad; else echo "demo fails with change"; fi
git apply -R $OUT/patch.diff
if go test -vet=off -count=1 -run 'Seed' ./$pkg/ >/tmp/seedverify-$ID.demo2.log 2>&1; then echo "demo passes without change"; else echo "DEMO FAILS without change (bad)"; tail -5 /tmp/seedverify-$ID.demo2.log; res=bad; fi
cd /; git -C /repo worktree remove --force $WT
rm -f /tmp/seedverify-$ID*.log
echo "seedverify $ID: $res"
[ $res = ok ]
