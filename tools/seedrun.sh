#!/bin/bash
# tools/seedrun.sh <patch> <ID> [tier] : apply a seeded change to /repo, run the check, undo it
set -u
P=$1; ID=$2; T=${3:-quick}
cd /repo && git diff --quiet || { echo "/repo has uncommitted changes"; exit 2; }
git -C /repo apply "$P" || { echo "patch does not apply"; exit 2; }
cd /verif && ./check.sh $ID $T; rc=$?
git -C /repo checkout -- . 
echo "seedrun exit=$rc"
exit $rc
