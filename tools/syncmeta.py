#!/usr/bin/env python3
"""Copies the verdict of seeded/RESULTS.md into each seeded/<name>/meta.json (field selftest)."""
import json, os, re
rows = {}
for l in open('/verif/seeded/RESULTS.md'):
    m = re.match(r'\| (\S+) \| (\S+) \| ([^|]+) \| `?([^|`]*)`? \|', l)
    if m:
        rows[m.group(1)] = (m.group(3).strip(), m.group(4).strip())
for n in sorted(os.listdir('/verif/seeded')):
    mp = f'/verif/seeded/{n}/meta.json'
    if not os.path.exists(mp) or n not in rows:
        continue
    m = json.load(open(mp))
    m['selftest'] = {'result': rows[n][0], 'first_violation_key': rows[n][1]}
    if m.get('check_result') == 'pending':
        m['check_result'] = f"tools/selftest.sh: {rows[n][0]} ({rows[n][1]})"
    if isinstance(m.get('property'), str) and m['property'].endswith('b'):
        m['property'] = m['property'][:-1]
    json.dump(m, open(mp, 'w'), indent=1)
print(len(rows), 'rows')
