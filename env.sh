# sourced by setup.sh / check.sh
export GOFLAGS=-mod=mod GOPROXY=off GOSUMDB=off GOTOOLCHAIN=local
export GOCACHE=/verif/.cache/go-build
export CGO_ENABLED=1
mkdir -p /verif/.cache/go-build /verif/.build
