#!/bin/bash
# run once after a fresh restore, offline: warm the build cache and build the harness
set -eu
cd /verif
. ./env.sh
v=$(go version)
case "$v" in *go1.23.5*) ;; *) echo "setup: expected go1.23.5, got $v"; exit 2;; esac
python3 /verif/engine/mapctl/gen.py /verif/.build/mapctl
./build.sh plain /verif/.build/vcheck-plain
./build.sh sched /verif/.build/vcheck-sched
echo setup ok
