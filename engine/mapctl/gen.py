#!/usr/bin/env python3
"""mapctl gen <outdir>: build a `go build -overlay` that puts Go's map randomness
(hash seeds, boot-time hash keys, iteration start) under the harness's control.

Tied to go1.23.5: every anchor line below must be present, else exit 2."""
import json, os, subprocess, sys

def main():
    out = sys.argv[1]
    os.makedirs(out, exist_ok=True)
    goroot = subprocess.check_output(['go', 'env', 'GOROOT'], text=True).strip()
    rt = os.path.join(goroot, 'src', 'runtime')
    repl = {}

    def patch(name, edits):
        p = os.path.join(rt, name)
        s = open(p).read()
        for old, new, cnt in edits:
            if s.count(old) != cnt:
                print(f"mapctl: anchor {old!r} found {s.count(old)} times in {name}, expected {cnt}: wrong toolchain", file=sys.stderr)
                sys.exit(2)
            s = s.replace(old, new)
        q = os.path.join(out, name)
        open(q, 'w').write(s)
        repl[p] = q

    patch('map.go', [
        ('h.hash0 = uint32(rand())', 'h.hash0 = verifHash0()', 4),
        ('\tr := uintptr(rand())\n\tit.startBucket', '\tr := verifIterStart(getcallerpc(), h.count, h.B)\n\tit.startBucket', 1),
    ])
    for n in ('map_fast32.go', 'map_fast64.go', 'map_faststr.go'):
        patch(n, [('h.hash0 = uint32(rand())', 'h.hash0 = verifHash0()', 1)])
    patch('rand.go', [
        ('func rand32() uint32 {\n\treturn uint32(rand())\n}', 'func rand32() uint32 {\n\treturn verifHash0()\n}', 1),
    ])
    patch('alg.go', [
        ('hashkey[i] = uintptr(bootstrapRand())', 'hashkey[i] = uintptr(verifBoot(i))', 1),
        ('key[i] = bootstrapRand()', 'key[i] = verifBoot(i)', 1),
    ])
    # sync.Pool: under the race detector every Put drops its item, so pooled objects never carry a
    # happens-before edge from one controlled thread to another (fmt's pp pool would otherwise order
    # all threads under GOMAXPROCS=1 and blind the detector). No effect on non-race builds.
    sp = os.path.join(goroot, 'src', 'sync', 'pool.go')
    ps = open(sp).read()
    anchor = 'if runtime_randn(4) == 0 {'
    if ps.count(anchor) != 1:
        print("mapctl: sync/pool.go anchor missing: wrong toolchain", file=sys.stderr)
        sys.exit(2)
    ps = ps.replace(anchor, 'if true || runtime_randn(4) == 0 {')
    q = os.path.join(out, 'sync_pool.go')
    open(q, 'w').write(ps)
    repl[sp] = q
    hook = os.path.join(out, 'verifhook.go')
    open(hook, 'w').write(HOOK)
    repl[os.path.join(rt, 'verifhook.go')] = hook
    json.dump({'Replace': repl}, open(os.path.join(out, 'overlay.json'), 'w'), indent=1)
    print('mapctl overlay written to', out)

HOOK = r'''// Code added by /verif/engine/mapctl (verification harness): owns map randomness.
package runtime

import _ "unsafe"

const verifLogCap = 1 << 17

type verifIterRec struct {
	pc    uintptr
	count int32
	b     uint8
}

var verifState struct {
	seedInit uint32
	seed     uint32
	// iteration control
	mode    uint32  // 0: every iteration starts at bucket 0 / offset uniformOff; 1: like 0 but the devAt-th recorded point uses devR; 2: like 0 but every point whose caller pc == devPC uses devR
	uniform uintptr // r used for non-deviating points
	devAt   uint64
	devPC   uintptr
	devR    uintptr
	rec     uint32 // 1: count/record points with count >= 2
	n       uint64 // points seen while rec == 1
	log     [verifLogCap]verifIterRec
}

func verifParseSeed() uint32 {
	s := gogetenv("VERIF_MAPSEED")
	var v uint32
	for i := 0; i < len(s); i++ {
		c := s[i]
		if c < '0' || c > '9' {
			break
		}
		v = v*10 + uint32(c-'0')
	}
	return v*2654435761 + 0x5bd1e995
}

//go:nosplit
func verifHash0() uint32 {
	if verifState.seedInit == 0 {
		if envs == nil {
			return 0x5bd1e995
		}
		verifState.seed = verifParseSeed()
		verifState.seedInit = 1
	}
	return verifState.seed
}

func verifBoot(i int) uint64 {
	// fixed boot-time hash keys (alginit runs before the environment is available)
	x := uint64(i+1) * 0x9e3779b97f4a7c15
	x ^= x >> 29
	x *= 0xbf58476d1ce4e5b9
	x ^= x >> 32
	return x
}

func verifIterStart(pc uintptr, count int, b uint8) uintptr {
	st := &verifState
	r := st.uniform
	if count < 2 {
		return r
	}
	if st.rec != 0 {
		i := st.n
		st.n++
		if i < verifLogCap {
			st.log[i] = verifIterRec{pc, int32(count), b}
		}
		if st.mode == 1 && i == st.devAt {
			return st.devR
		}
	}
	if st.mode == 2 && pc == st.devPC {
		return st.devR
	}
	return r
}

// verifMapCtl is the harness's entry point (linkname).
//
//	op 0: set uniform r (a)            op 1: begin recording, mode a (0/1/2), devAt/devPC b, devR c
//	op 2: stop recording, returns n     op 3: read log[a] -> pc    op 4: read log[a] -> count<<8|B
//
//go:linkname verifMapCtl
func verifMapCtl(op int, a, b, c uintptr) uintptr {
	st := &verifState
	switch op {
	case 0:
		st.uniform = a
	case 1:
		st.mode = uint32(a)
		st.devAt = uint64(b)
		st.devPC = b
		st.devR = c
		st.n = 0
		st.rec = 1
	case 2:
		st.rec = 0
		st.mode = 0
		return uintptr(st.n)
	case 3:
		if a < verifLogCap {
			return st.log[a].pc
		}
	case 4:
		if a < verifLogCap {
			return uintptr(st.log[a].count)<<8 | uintptr(st.log[a].b)
		}
	case 5:
		return 1 // presence probe
	}
	return 0
}
'''

main()
