// Package vsync mirrors the part of package sync that instrumented code uses.
// Inside a controlled execution every operation is a scheduling point of vsched;
// outside one, the real primitive is used.
package vsync

import (
	"sync"
	"unsafe"

	"vsched"
)

type (
	Locker = sync.Locker
	Map    = sync.Map
	Pool   = sync.Pool
)

// Mutex replaces sync.Mutex.
type Mutex struct {
	real   sync.Mutex
	id     uint64
	locked bool
	anchor byte
}

//go:norace
func (m *Mutex) Lock() {
	if !vsched.Controlled() {
		m.real.Lock()
		return
	}
	if vsched.Aborting() {
		return
	}
	vsched.Point(vsched.OpLock, &m.id, func() bool { return !m.locked })
	m.locked = true
	vsched.Acquire(unsafe.Pointer(&m.anchor))
}

//go:norace
func (m *Mutex) TryLock() bool {
	if !vsched.Controlled() {
		return m.real.TryLock()
	}
	if vsched.Aborting() {
		return false
	}
	vsched.Point(vsched.OpLock, &m.id, nil)
	if m.locked {
		return false
	}
	m.locked = true
	vsched.Acquire(unsafe.Pointer(&m.anchor))
	return true
}

//go:norace
func (m *Mutex) Unlock() {
	if !vsched.Controlled() {
		m.real.Unlock()
		return
	}
	if vsched.Aborting() {
		return
	}
	vsched.Touch(vsched.OpUnlock, &m.id) // a release is a left mover: no scheduling point needed
	if !m.locked {
		panic("sync: unlock of unlocked mutex")
	}
	vsched.Release(unsafe.Pointer(&m.anchor))
	m.locked = false
}

// RWMutex replaces sync.RWMutex.
type RWMutex struct {
	real    sync.RWMutex
	id      uint64
	writer  bool
	readers int
	anchor  byte
	ranchor byte
}

//go:norace
func (m *RWMutex) Lock() {
	if !vsched.Controlled() {
		m.real.Lock()
		return
	}
	if vsched.Aborting() {
		return
	}
	vsched.Point(vsched.OpLock, &m.id, func() bool { return !m.writer && m.readers == 0 })
	m.writer = true
	vsched.Acquire(unsafe.Pointer(&m.anchor))
	vsched.Acquire(unsafe.Pointer(&m.ranchor))
}

//go:norace
func (m *RWMutex) Unlock() {
	if !vsched.Controlled() {
		m.real.Unlock()
		return
	}
	if vsched.Aborting() {
		return
	}
	vsched.Touch(vsched.OpUnlock, &m.id) // a release is a left mover: no scheduling point needed
	if !m.writer {
		panic("sync: Unlock of unlocked RWMutex")
	}
	vsched.Release(unsafe.Pointer(&m.anchor))
	m.writer = false
}

//go:norace
func (m *RWMutex) RLock() {
	if !vsched.Controlled() {
		m.real.RLock()
		return
	}
	if vsched.Aborting() {
		return
	}
	vsched.Point(vsched.OpRLock, &m.id, func() bool { return !m.writer })
	m.readers++
	vsched.Acquire(unsafe.Pointer(&m.anchor))
}

//go:norace
func (m *RWMutex) RUnlock() {
	if !vsched.Controlled() {
		m.real.RUnlock()
		return
	}
	if vsched.Aborting() {
		return
	}
	vsched.Touch(vsched.OpRUnlock, &m.id)
	if m.readers <= 0 {
		panic("sync: RUnlock of unlocked RWMutex")
	}
	vsched.ReleaseMerge(unsafe.Pointer(&m.ranchor))
	m.readers--
}

//go:norace
func (m *RWMutex) RLocker() Locker { return (*rlocker)(m) }

type rlocker RWMutex

//go:norace
func (r *rlocker) Lock() { (*RWMutex)(r).RLock() }

//go:norace
func (r *rlocker) Unlock() { (*RWMutex)(r).RUnlock() }

// WaitGroup replaces sync.WaitGroup.
type WaitGroup struct {
	real   sync.WaitGroup
	id     uint64
	n      int
	anchor byte
}

//go:norace
func (w *WaitGroup) Add(d int) {
	if !vsched.Controlled() {
		w.real.Add(d)
		return
	}
	if vsched.Aborting() {
		return
	}
	if d < 0 {
		vsched.Touch(vsched.OpWgAdd, &w.id)
	} else {
		vsched.Point(vsched.OpWgAdd, &w.id, nil)
	}
	if d < 0 {
		vsched.ReleaseMerge(unsafe.Pointer(&w.anchor))
	}
	w.n += d
	if w.n < 0 {
		panic("sync: negative WaitGroup counter")
	}
}

//go:norace
func (w *WaitGroup) Done() { w.Add(-1) }

//go:norace
func (w *WaitGroup) Wait() {
	if !vsched.Controlled() {
		w.real.Wait()
		return
	}
	if vsched.Aborting() {
		return
	}
	vsched.Point(vsched.OpWgWait, &w.id, func() bool { return w.n == 0 })
	vsched.Acquire(unsafe.Pointer(&w.anchor))
}

// Once replaces sync.Once.
type Once struct {
	real    sync.Once
	id      uint64
	done    bool
	running bool
	anchor  byte
}

//go:norace
func (o *Once) Do(f func()) {
	if !vsched.Controlled() {
		o.real.Do(f)
		return
	}
	if vsched.Aborting() {
		return
	}
	vsched.Point(vsched.OpOnce, &o.id, func() bool { return !o.running })
	if o.done {
		vsched.Acquire(unsafe.Pointer(&o.anchor))
		return
	}
	o.running = true
	defer o.finish()
	f()
}

//go:norace
func (o *Once) finish() {
	o.done = true
	o.running = false
	vsched.ReleaseMerge(unsafe.Pointer(&o.anchor))
}

// Cond replaces sync.Cond (Wait releases L, parks until signalled, re-acquires L).
type Cond struct {
	L       Locker
	id      uint64
	waiters []*int
	anchor  byte
}

//go:norace
func NewCond(l Locker) *Cond { return &Cond{L: l} }

//go:norace
func (c *Cond) Wait() {
	if !vsched.Controlled() {
		panic("vsync.Cond outside a controlled execution is not supported")
	}
	if vsched.Aborting() {
		return
	}
	flag := new(int)
	c.waiters = append(c.waiters, flag)
	c.L.Unlock()
	vsched.Point(vsched.OpCondWait, &c.id, func() bool { return *flag != 0 })
	vsched.Acquire(unsafe.Pointer(&c.anchor))
	c.L.Lock()
}

//go:norace
func (c *Cond) Signal() {
	if vsched.Aborting() || !vsched.Controlled() {
		return
	}
	vsched.Point(vsched.OpCondSignal, &c.id, nil)
	vsched.ReleaseMerge(unsafe.Pointer(&c.anchor))
	if len(c.waiters) > 0 {
		*c.waiters[0] = 1
		c.waiters = c.waiters[1:]
	}
}

//go:norace
func (c *Cond) Broadcast() {
	if vsched.Aborting() || !vsched.Controlled() {
		return
	}
	vsched.Point(vsched.OpCondSignal, &c.id, nil)
	vsched.ReleaseMerge(unsafe.Pointer(&c.anchor))
	for _, w := range c.waiters {
		*w = 1
	}
	c.waiters = nil
}

// OnceFunc etc. pass through to package sync.
var (
	OnceFunc = sync.OnceFunc
)
