// Package vatomic mirrors the part of sync/atomic that instrumented code may use:
// every operation is preceded by a scheduling point, then performed with the real atomic
// (so the race detector sees the real synchronisation).
package vatomic

import (
	"sync/atomic"
	"unsafe"

	"vsched"
)

// allAtomics: every atomic operation conflicts with every other one in the happens-before hash (sound, coarse).
var allAtomics uint64

//go:norace
func pt(p unsafe.Pointer) {
	if vsched.Controlled() && !vsched.Aborting() {
		vsched.Point(vsched.OpAtomic, &allAtomics, nil)
	}
}

type Int32 struct{ v atomic.Int32 }

func (x *Int32) Load() int32        { pt(unsafe.Pointer(x)); return x.v.Load() }
func (x *Int32) Store(n int32)      { pt(unsafe.Pointer(x)); x.v.Store(n) }
func (x *Int32) Add(n int32) int32  { pt(unsafe.Pointer(x)); return x.v.Add(n) }
func (x *Int32) Swap(n int32) int32 { pt(unsafe.Pointer(x)); return x.v.Swap(n) }
func (x *Int32) CompareAndSwap(o, n int32) bool {
	pt(unsafe.Pointer(x))
	return x.v.CompareAndSwap(o, n)
}

type Int64 struct{ v atomic.Int64 }

func (x *Int64) Load() int64        { pt(unsafe.Pointer(x)); return x.v.Load() }
func (x *Int64) Store(n int64)      { pt(unsafe.Pointer(x)); x.v.Store(n) }
func (x *Int64) Add(n int64) int64  { pt(unsafe.Pointer(x)); return x.v.Add(n) }
func (x *Int64) Swap(n int64) int64 { pt(unsafe.Pointer(x)); return x.v.Swap(n) }
func (x *Int64) CompareAndSwap(o, n int64) bool {
	pt(unsafe.Pointer(x))
	return x.v.CompareAndSwap(o, n)
}

type Uint32 struct{ v atomic.Uint32 }

func (x *Uint32) Load() uint32        { pt(unsafe.Pointer(x)); return x.v.Load() }
func (x *Uint32) Store(n uint32)      { pt(unsafe.Pointer(x)); x.v.Store(n) }
func (x *Uint32) Add(n uint32) uint32 { pt(unsafe.Pointer(x)); return x.v.Add(n) }
func (x *Uint32) CompareAndSwap(o, n uint32) bool {
	pt(unsafe.Pointer(x))
	return x.v.CompareAndSwap(o, n)
}

type Uint64 struct{ v atomic.Uint64 }

func (x *Uint64) Load() uint64        { pt(unsafe.Pointer(x)); return x.v.Load() }
func (x *Uint64) Store(n uint64)      { pt(unsafe.Pointer(x)); x.v.Store(n) }
func (x *Uint64) Add(n uint64) uint64 { pt(unsafe.Pointer(x)); return x.v.Add(n) }
func (x *Uint64) CompareAndSwap(o, n uint64) bool {
	pt(unsafe.Pointer(x))
	return x.v.CompareAndSwap(o, n)
}

type Bool struct{ v atomic.Bool }

func (x *Bool) Load() bool                    { pt(unsafe.Pointer(x)); return x.v.Load() }
func (x *Bool) Store(n bool)                  { pt(unsafe.Pointer(x)); x.v.Store(n) }
func (x *Bool) Swap(n bool) bool              { pt(unsafe.Pointer(x)); return x.v.Swap(n) }
func (x *Bool) CompareAndSwap(o, n bool) bool { pt(unsafe.Pointer(x)); return x.v.CompareAndSwap(o, n) }

type Value struct{ v atomic.Value }

func (x *Value) Load() any   { pt(unsafe.Pointer(x)); return x.v.Load() }
func (x *Value) Store(n any) { pt(unsafe.Pointer(x)); x.v.Store(n) }

type Pointer[T any] struct{ v atomic.Pointer[T] }

func (x *Pointer[T]) Load() *T   { pt(unsafe.Pointer(x)); return x.v.Load() }
func (x *Pointer[T]) Store(n *T) { pt(unsafe.Pointer(x)); x.v.Store(n) }
func (x *Pointer[T]) CompareAndSwap(o, n *T) bool {
	pt(unsafe.Pointer(x))
	return x.v.CompareAndSwap(o, n)
}

func AddInt32(p *int32, d int32) int32     { pt(unsafe.Pointer(p)); return atomic.AddInt32(p, d) }
func AddInt64(p *int64, d int64) int64     { pt(unsafe.Pointer(p)); return atomic.AddInt64(p, d) }
func AddUint32(p *uint32, d uint32) uint32 { pt(unsafe.Pointer(p)); return atomic.AddUint32(p, d) }
func AddUint64(p *uint64, d uint64) uint64 { pt(unsafe.Pointer(p)); return atomic.AddUint64(p, d) }
func LoadInt32(p *int32) int32             { pt(unsafe.Pointer(p)); return atomic.LoadInt32(p) }
func LoadInt64(p *int64) int64             { pt(unsafe.Pointer(p)); return atomic.LoadInt64(p) }
func LoadUint32(p *uint32) uint32          { pt(unsafe.Pointer(p)); return atomic.LoadUint32(p) }
func LoadUint64(p *uint64) uint64          { pt(unsafe.Pointer(p)); return atomic.LoadUint64(p) }
func StoreInt32(p *int32, v int32)         { pt(unsafe.Pointer(p)); atomic.StoreInt32(p, v) }
func StoreInt64(p *int64, v int64)         { pt(unsafe.Pointer(p)); atomic.StoreInt64(p, v) }
func StoreUint32(p *uint32, v uint32)      { pt(unsafe.Pointer(p)); atomic.StoreUint32(p, v) }
func StoreUint64(p *uint64, v uint64)      { pt(unsafe.Pointer(p)); atomic.StoreUint64(p, v) }
func CompareAndSwapInt32(p *int32, o, n int32) bool {
	pt(unsafe.Pointer(p))
	return atomic.CompareAndSwapInt32(p, o, n)
}
func CompareAndSwapInt64(p *int64, o, n int64) bool {
	pt(unsafe.Pointer(p))
	return atomic.CompareAndSwapInt64(p, o, n)
}
func CompareAndSwapUint32(p *uint32, o, n uint32) bool {
	pt(unsafe.Pointer(p))
	return atomic.CompareAndSwapUint32(p, o, n)
}
