package vsched

import "runtime"

//go:norace
func yieldReal() { runtime.Gosched() }

// CtxDone replaces a bare `<-ctx.Done()` receive statement.
//
//go:norace
func CtxDone(done <-chan struct{}) {
	s := inSched()
	if s == nil {
		<-done
		return
	}
	if s.aborting {
		panic(abortPanic{})
	}
	s.point(OpSelect, nil, func() bool { return doneClosed(done) })
	<-done
}
