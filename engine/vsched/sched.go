// Package vsched is engine E1: a cooperative, fully controlled scheduler for
// the synchronisation operations of instrumented Go code, plus a stateless
// DFS explorer with iterative preemption bounding (explore.go).
//
// Exactly one controlled thread runs at any time. Before every synchronisation
// operation the running thread publishes the operation (with its enabledness
// predicate) and the scheduler decides who runs next. Every function in this
// package is //go:norace: the package's own state is protected by the baton,
// which the race detector deliberately does not see (see DESIGN.md §3 E1).
package vsched

import (
	"fmt"
	"unsafe"
)

// OpKind names a synchronisation operation (used in traces and HB hashing).
type OpKind uint8

const (
	OpStart OpKind = iota
	OpLock
	OpUnlock
	OpRLock
	OpRUnlock
	OpSend
	OpRecv
	OpClose
	OpSelect
	OpWgAdd
	OpWgWait
	OpOnce
	OpYield
	OpAtomic
	OpCondWait
	OpCondSignal
	OpLen
)

var opNames = [...]string{"start", "lock", "unlock", "rlock", "runlock", "send", "recv", "close", "select", "wg.add", "wg.wait", "once", "yield", "atomic", "cond.wait", "cond.signal", "len"}

func (k OpKind) String() string { return opNames[k] }

type thread struct {
	id       int
	baton    chan struct{}
	kind     OpKind
	enabled  func() bool
	finished bool
	parked   bool
	hb       uint64
	// direct hand-off for unbuffered channels / selects completed by a peer
	completed  bool
	selIndex   int
	val        any
	ok         bool
	waitOn     []*chanCore // channels this thread is parked on (recv side / send side)
	waitSend   []sendWait
	selRecvIdx []int
	quiet      int
	// soft wait (harness rendezvous): released with giveUp when nothing else could run any more
	soft   bool
	giveUp bool
}

type sendWait struct {
	ch  *chanCore
	val any
	idx int // select case index, -1 for plain send
}

// Failure describes why an execution was aborted.
type Failure struct {
	Kind string // deadlock | horizon | panic | divergence
	Msg  string
}

// ChoicePoint is one recorded decision.
type ChoicePoint struct {
	N        int  // number of alternatives
	Chosen   int  // index taken
	Select   bool // select-branch choice (costs no preemption)
	CurAlive bool // alternative 0 is "keep running the current thread" (so any other costs a preemption)
	Key      uint64
	Pre      int // preemptions used before this point
}

// Sched is the scheduler of one execution.
type Sched struct {
	threads   []*thread
	cur       *thread
	prefix    []int
	Points    []ChoicePoint
	Steps     int
	Horizon   int
	Fail      *Failure
	aborting  bool
	endCh     chan struct{}
	endSync   byte
	objSeq    uint64
	objHash   map[uint64]uint64
	preempt   int
	Trace     []TraceEv
	KeepTrace bool
	nextObj   uint64
	hbKey     uint64
}

// TraceEv is one executed scheduling step (for replay artefacts).
type TraceEv struct {
	Thread int
	Op     string
}

type abortPanic struct{}

var active *Sched

// Active reports whether a controlled execution is in progress.
//
//go:norace
func Active() bool { return active != nil && !active.aborting }

// inSched reports whether shims must go through the scheduler.
//
//go:norace
func inSched() *Sched { return active }

//go:norace
func mix(a, b uint64) uint64 {
	x := a ^ (b + 0x9e3779b97f4a7c15 + (a << 6) + (a >> 2))
	x ^= x >> 31
	x *= 0xbf58476d1ce4e5b9
	x ^= x >> 29
	return x
}

// NewObj returns a deterministic identity for a synchronisation object created
// during a controlled execution (creation order is deterministic per schedule).
//
//go:norace
func NewObj() uint64 {
	s := active
	if s == nil {
		return 0
	}
	s.nextObj++
	id := mix(uint64(s.cur.id)+1, s.nextObj)
	// identity depends on the creating thread's history so that it is stable across equivalent schedules
	return mix(s.cur.hb, id) | 1
}

//go:norace
func (s *Sched) handoff(to *thread) {
	raceDisable()
	to.baton <- struct{}{}
	raceEnable()
}

//go:norace
func (s *Sched) wait(t *thread) {
	raceDisable()
	<-t.baton
	raceEnable()
}

// enabledThreads returns the pickable threads in canonical order: the running
// thread first (if it is still enabled), then ascending ids.
//
//go:norace
func (s *Sched) enabledThreads(cur *thread) ([]*thread, bool) {
	var out []*thread
	curAlive := false
	if cur != nil && !cur.finished && cur.isEnabled() {
		out = append(out, cur)
		curAlive = true
	}
	for _, t := range s.threads {
		if t == cur || t.finished {
			continue
		}
		if t.isEnabled() {
			out = append(out, t)
		}
	}
	if len(out) == 0 {
		// nothing can run: a thread parked in a soft wait gives up waiting rather than completing a deadlock
		for _, t := range s.threads {
			if !t.finished && t.soft && !t.giveUp {
				t.giveUp = true
				out = append(out, t)
				if t == cur {
					curAlive = true
				}
				break
			}
		}
	}
	return out, curAlive
}

//go:norace
func (t *thread) isEnabled() bool {
	if t.completed {
		return true
	}
	if t.enabled == nil {
		return true
	}
	return t.enabled()
}

// choose consumes one decision among n alternatives.
//
//go:norace
func (s *Sched) choose(n int, sel bool, curAlive bool) int {
	i := len(s.Points)
	c := 0
	if i < len(s.prefix) {
		c = s.prefix[i]
		if c >= n {
			s.Fail = &Failure{Kind: "divergence", Msg: fmt.Sprintf("replayed choice %d at point %d out of range (%d alternatives)", c, i, n)}
			c = 0
		}
	}
	s.Points = append(s.Points, ChoicePoint{N: n, Chosen: c, Select: sel, CurAlive: curAlive, Key: s.stateKey(), Pre: s.preempt})
	if !sel && curAlive && c != 0 {
		s.preempt++
	}
	return c
}

// stateKey hashes the happens-before state: per-thread history hashes plus the running thread.
//
//go:norace
func (s *Sched) stateKey() uint64 {
	var k uint64 = 0x1234567
	for _, t := range s.threads {
		h := t.hb
		if t.finished {
			h = mix(h, 0xf1)
		}
		k = mix(k, h)
	}
	cur := 0
	if s.cur != nil {
		cur = s.cur.id + 1
	}
	return mix(k, uint64(cur))
}

// point is called by the running thread before a synchronisation operation.
//
//go:norace
func (s *Sched) point(kind OpKind, cell *uint64, enabled func() bool) {
	if s.aborting {
		panic(abortPanic{})
	}
	t := s.cur
	t.kind, t.enabled = kind, enabled
	s.reschedule(t)
	// t runs again and its operation is enabled
	t.enabled = nil
	s.Steps++
	if s.Horizon > 0 && s.Steps > s.Horizon {
		s.fail("horizon", fmt.Sprintf("execution exceeded %d steps", s.Horizon))
	}
	if s.KeepTrace {
		s.Trace = append(s.Trace, TraceEv{t.id, kind.String()})
	}
	// happens-before hashing: the op depends on the thread's past and the object's past
	t.hb = mix(t.hb, uint64(kind)+1)
	if cell != nil {
		if *cell == 0 {
			*cell = NewObj()
		}
		t.hb = mix(t.hb, *cell)
		*cell = mix(*cell, t.hb)
	}
}

// reschedule picks the next thread to run; t is the caller (parked if not chosen).
//
//go:norace
func (s *Sched) reschedule(t *thread) {
	en, curAlive := s.enabledThreads(t)
	if len(en) == 0 {
		s.deadlock()
		return
	}
	c := 0
	if len(en) > 1 {
		c = s.choose(len(en), false, curAlive)
	}
	next := en[c]
	if next == t {
		return
	}
	s.cur = next
	t.parked = true
	s.handoff(next)
	s.wait(t)
	t.parked = false
	if s.aborting {
		panic(abortPanic{})
	}
}

//go:norace
func (s *Sched) deadlock() {
	msg := "no enabled thread:"
	for _, t := range s.threads {
		if !t.finished {
			msg += fmt.Sprintf(" T%d waits at %s;", t.id, t.kind)
		}
	}
	s.fail("deadlock", msg)
}

// fail aborts the execution: every parked thread is woken in turn and unwinds with a panic.
//
//go:norace
func (s *Sched) fail(kind, msg string) {
	if s.Fail == nil {
		s.Fail = &Failure{Kind: kind, Msg: msg}
	}
	s.aborting = true
	panic(abortPanic{})
}

// threadExit is run by a thread's goroutine when its function returns (or unwinds).
//
//go:norace
func (s *Sched) threadExit(t *thread) {
	t.finished = true
	ReleaseMerge(unsafe.Pointer(&s.endSync))
	if s.aborting {
		// wake the next unfinished parked thread so that it unwinds too
		for _, o := range s.threads {
			if !o.finished && o != t {
				s.cur = o
				s.handoff(o)
				return
			}
		}
		close(s.endCh)
		return
	}
	en, _ := s.enabledThreads(nil)
	if len(en) == 0 {
		all := true
		for _, o := range s.threads {
			if !o.finished {
				all = false
			}
		}
		if all {
			close(s.endCh)
			return
		}
		// deadlock among the remaining threads: abort them
		msg := "no enabled thread:"
		for _, o := range s.threads {
			if !o.finished {
				msg += fmt.Sprintf(" T%d waits at %s;", o.id, o.kind)
			}
		}
		if s.Fail == nil {
			s.Fail = &Failure{Kind: "deadlock", Msg: msg}
		}
		s.aborting = true
		for _, o := range s.threads {
			if !o.finished {
				s.cur = o
				s.handoff(o)
				return
			}
		}
		close(s.endCh)
		return
	}
	c := 0
	if len(en) > 1 {
		s.cur = nil
		c = s.choose(len(en), false, false)
	}
	s.cur = en[c]
	s.handoff(en[c])
}

// spawn creates a controlled thread running f. The new thread is parked until scheduled.
//
//go:norace
func (s *Sched) spawn(f func()) *thread {
	t := &thread{id: len(s.threads), baton: make(chan struct{}, 1), kind: OpStart}
	if s.cur != nil {
		t.hb = mix(s.cur.hb, uint64(t.id)+0x77)
		s.cur.hb = mix(s.cur.hb, 0x60)
	}
	s.threads = append(s.threads, t)
	go s.threadMain(t, f)
	return t
}

//go:norace
func (s *Sched) threadMain(t *thread, f func()) {
	s.wait(t)
	defer func() {
		r := recover()
		if r != nil {
			if _, ok := r.(abortPanic); !ok && s.Fail == nil {
				s.Fail = &Failure{Kind: "panic", Msg: fmt.Sprintf("T%d panicked: %v", t.id, r)}
				s.aborting = true
			}
		}
		s.threadExit(t)
	}()
	if s.aborting {
		return
	}
	f()
}

// Go starts f as a controlled thread (the rewrite target of the `go` statement).
//
//go:norace
func Go(f func()) {
	s := active
	if s == nil || s.aborting {
		if s != nil {
			return
		}
		go f()
		return
	}
	s.spawn(f)
}

// Yield is an explicit scheduling point (harness callbacks, time.Sleep, runtime.Gosched).
//
//go:norace
func Yield() {
	s := active
	if s == nil {
		return
	}
	if s.aborting {
		panic(abortPanic{})
	}
	s.point(OpYield, nil, nil)
}

// ThreadID returns the running controlled thread's id (-1 outside an execution).
//
//go:norace
func ThreadID() int {
	if active == nil || active.cur == nil {
		return -1
	}
	return active.cur.id
}

// Live returns the number of unfinished controlled threads other than the caller.
//
//go:norace
func Live() int {
	s := active
	if s == nil {
		return 0
	}
	n := 0
	for _, t := range s.threads {
		if !t.finished && t != s.cur {
			n++
		}
	}
	return n
}

// RunOnce executes body as thread 0 under the given choice prefix and returns the scheduler.
//
//go:norace
func RunOnce(prefix []int, horizon int, keepTrace bool, body func()) *Sched {
	s := &Sched{threads: make([]*thread, 0, 64), Points: make([]ChoicePoint, 0, 1024), prefix: prefix, Horizon: horizon, endCh: make(chan struct{}), KeepTrace: keepTrace}
	active = s
	t0 := s.spawn(body)
	s.cur = t0
	s.handoff(t0)
	<-s.endCh
	RaceAcquire(unsafe.Pointer(&s.endSync))
	active = nil
	return s
}
