//go:build race

package vsched

import (
	"runtime"
	"unsafe"
)

const RaceEnabled = true

//go:norace
func raceDisable() { runtime.RaceDisable() }

//go:norace
func raceEnable() { runtime.RaceEnable() }

// RaceAcquire / RaceRelease announce the happens-before edges of a modelled primitive.
//
//go:norace
func RaceAcquire(p unsafe.Pointer) { runtime.RaceAcquire(p) }

//go:norace
func RaceRelease(p unsafe.Pointer) { runtime.RaceRelease(p) }

//go:norace
func RaceReleaseMerge(p unsafe.Pointer) { runtime.RaceReleaseMerge(p) }
