package vsched

import "unsafe"

// The functions below are the scheduler-facing API used by the vsync / vatomic shims.

// Point publishes an operation of the running thread and returns when it may execute.
// It returns false when no controlled execution is active (the shim must fall back to
// the real primitive).
//
//go:norace
func Point(kind OpKind, cell *uint64, enabled func() bool) bool {
	s := inSched()
	if s == nil {
		return false
	}
	if s.aborting {
		panic(abortPanic{})
	}
	s.point(kind, cell, enabled)
	return true
}

// Aborting reports that the execution is being torn down (shims become no-ops).
//
//go:norace
func Aborting() bool {
	s := inSched()
	return s != nil && s.aborting
}

// Controlled reports whether shims must model their primitive.
//
//go:norace
func Controlled() bool { return inSched() != nil }

// Quiet runs f with every REAL synchronisation event of the calling controlled thread hidden from the race
// detector (memory accesses are still tracked). Only the happens-before edges that the shims announce
// (compose-go's own mutexes, channels, WaitGroups, Once …) remain visible. Two threads that each run a whole
// library call inside Quiet are therefore concurrent for the detector unless compose-go itself orders them:
// locks inside uninstrumented third-party code (yaml, gojsonschema, reflect caches) no longer mask a race
// between them. Reports whose racing accesses are not both in compose-go code must be discarded by the caller.
//
//go:norace
func Quiet(f func()) {
	s := inSched()
	if s == nil || s.cur == nil {
		f()
		return
	}
	t := s.cur
	t.quiet++
	raceDisable()
	defer func() {
		raceEnable()
		t.quiet--
	}()
	f()
}

//go:norace
func quiet() bool {
	s := inSched()
	return s != nil && s.cur != nil && s.cur.quiet > 0
}

//go:norace
func Acquire(p unsafe.Pointer) {
	if quiet() {
		raceEnable()
		RaceAcquire(p)
		raceDisable()
		return
	}
	RaceAcquire(p)
}

//go:norace
func Release(p unsafe.Pointer) {
	if quiet() {
		raceEnable()
		RaceRelease(p)
		raceDisable()
		return
	}
	RaceRelease(p)
}

//go:norace
func ReleaseMerge(p unsafe.Pointer) {
	if quiet() {
		raceEnable()
		RaceReleaseMerge(p)
		raceDisable()
		return
	}
	RaceReleaseMerge(p)
}

// Touch records an operation on an object in the happens-before state without a scheduling
// point. Used for pure releases (unlock, WaitGroup.Done): a release is a left mover, so an
// execution preempted just before it is equivalent to one preempted just after it.
//
//go:norace
func Touch(kind OpKind, cell *uint64) {
	s := inSched()
	if s == nil || s.aborting || s.cur == nil {
		return
	}
	t := s.cur
	s.Steps++
	if s.KeepTrace {
		s.Trace = append(s.Trace, TraceEv{t.id, kind.String()})
	}
	t.hb = mix(t.hb, uint64(kind)+1)
	if cell != nil {
		if *cell == 0 {
			*cell = NewObj()
		}
		t.hb = mix(t.hb, *cell)
		*cell = mix(*cell, t.hb)
	}
}

// VarHook, when set by a harness, is called at the marks the instrumenter puts around every statement that mentions a
// package-level variable (VarPre before it, VarPost after it; name is "package.variable"). Nothing happens without a
// hook, or outside a controlled execution.
var VarHook func(post bool, name string)

//go:norace
func VarPre(name string) {
	if h := VarHook; h != nil {
		if s := inSched(); s != nil && s.cur != nil && !s.aborting {
			h(false, name)
		}
	}
}

//go:norace
func VarPost(name string) {
	if h := VarHook; h != nil {
		if s := inSched(); s != nil && s.cur != nil && !s.aborting {
			h(true, name)
		}
	}
}

// WaitUntil parks the running controlled thread until cond holds. The hand-off is invisible to the race detector and
// announces no happens-before edge: it is a device of the harness (directed schedules), not a synchronisation of the
// code under test. cond is evaluated by the scheduler whenever it picks the next thread. The wait is soft: when no
// thread at all could run any more, the waiter is released and WaitUntil returns false.
//
//go:norace
func WaitUntil(cell *uint64, cond func() bool) bool {
	s := inSched()
	if s == nil || s.cur == nil {
		return true
	}
	if s.aborting {
		panic(abortPanic{})
	}
	t := s.cur
	t.soft, t.giveUp = true, false
	s.point(OpYield, cell, softCond(t, cond))
	ok := !t.giveUp
	t.soft, t.giveUp = false, false
	return ok
}

//go:norace
func softCond(t *thread, cond func() bool) func() bool {
	return func() bool { return t.giveUp || cond() }
}

// ThreadFinished reports whether the controlled thread with that identity has run to its end.
//
//go:norace
func ThreadFinished(id int) bool {
	s := inSched()
	if s == nil || id < 0 || id >= len(s.threads) {
		return false
	}
	return s.threads[id].finished
}
