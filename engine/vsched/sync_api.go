package vsched

import "unsafe"

// The functions below are the scheduler-facing API used by the vsync / vatomic shims.

// Point publishes an operation of the running thread and returns when it may execute.
// It returns false when no controlled execution is active (the shim must fall back to
// the real primitive).
//
//go:norace
func Point(kind OpKind, cell *uint64, enabled func() bool) bool {
	s := inSched()
	if s == nil {
		return false
	}
	if s.aborting {
		panic(abortPanic{})
	}
	s.point(kind, cell, enabled)
	return true
}

// Aborting reports that the execution is being torn down (shims become no-ops).
//
//go:norace
func Aborting() bool {
	s := inSched()
	return s != nil && s.aborting
}

// Controlled reports whether shims must model their primitive.
//
//go:norace
func Controlled() bool { return inSched() != nil }

//go:norace
func Acquire(p unsafe.Pointer) { RaceAcquire(p) }

//go:norace
func Release(p unsafe.Pointer) { RaceRelease(p) }

//go:norace
func ReleaseMerge(p unsafe.Pointer) { RaceReleaseMerge(p) }
