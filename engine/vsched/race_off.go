//go:build !race

package vsched

import "unsafe"

const RaceEnabled = false

func raceDisable()                      {}
func raceEnable()                       {}
func RaceAcquire(p unsafe.Pointer)      {}
func RaceRelease(p unsafe.Pointer)      {}
func RaceReleaseMerge(p unsafe.Pointer) {}
