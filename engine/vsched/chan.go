package vsched

import (
	"unsafe"
)

// chanCore is the untyped model of a channel.
type chanCore struct {
	id     uint64
	cap    int
	buf    []any
	closed bool
	// race annotation anchors
	sync      byte
	closeSync byte
	slots     []byte
	sendx     int
	recvx     int
	// parked peers (unbuffered rendezvous and blocked operations)
	recvq []*thread
	sendq []*thread
}

// Chan is the instrumented replacement of `chan T`.
type Chan[T any] struct {
	core *chanCore
	real chan T // pass-through mode (created outside a controlled execution)
}

// MakeChan replaces make(chan T, n).
//
//go:norace
func MakeChan[T any](n int) *Chan[T] {
	if inSched() == nil {
		return &Chan[T]{real: make(chan T, n)}
	}
	c := &chanCore{cap: n}
	if n > 0 {
		c.slots = make([]byte, n)
	}
	return &Chan[T]{core: c}
}

//go:norace
func (c *chanCore) canRecv(self *thread) bool {
	if len(c.buf) > 0 || c.closed {
		return true
	}
	if c.cap == 0 {
		for _, w := range c.sendq {
			if w != self && !w.completed {
				return true
			}
		}
	}
	return false
}

//go:norace
func (c *chanCore) canSend(self *thread) bool {
	if c.closed {
		return true // will panic, as in Go
	}
	if c.cap > 0 {
		return len(c.buf) < c.cap
	}
	for _, w := range c.recvq {
		if w != self && !w.completed {
			return true
		}
	}
	return false
}

//go:norace
func remove(q []*thread, t *thread) []*thread {
	for i, x := range q {
		if x == t {
			for j := i; j+1 < len(q); j++ {
				q[j] = q[j+1]
			}
			q[len(q)-1] = nil
			return q[:len(q)-1]
		}
	}
	return q
}

// unpark removes t from every wait queue it registered on.
//
//go:norace
func (t *thread) unregister() {
	for _, c := range t.waitOn {
		c.recvq = remove(c.recvq, t)
	}
	for _, w := range t.waitSend {
		w.ch.sendq = remove(w.ch.sendq, t)
	}
	t.waitOn = nil
	t.waitSend = nil
}

// doSend performs an enabled send by the running thread t.
//
//go:norace
func (s *Sched) doSend(t *thread, c *chanCore, v any) {
	if c.closed {
		panic("send on closed channel")
	}
	if c.cap > 0 {
		slot := unsafe.Pointer(&c.slots[c.sendx])
		Acquire(slot)
		Release(slot)
		c.sendx = (c.sendx + 1) % c.cap
		c.buf = append(c.buf, v)
		return
	}
	// rendezvous: hand the value to the first waiting receiver
	ReleaseMerge(unsafe.Pointer(&c.sync))
	for _, r := range c.recvq {
		if r != t && !r.completed {
			idx := -1
			for i, wc := range r.waitOn {
				if wc == c {
					idx = r.selIdxFor(i)
					break
				}
			}
			r.completed, r.val, r.ok, r.selIndex = true, v, true, idx
			r.hb = mix(r.hb, t.hb)
			r.unregister()
			return
		}
	}
	panic("vsched: send enabled without receiver")
}

// selIdxFor maps the i-th registered receive wait to its select case index.
//
//go:norace
func (t *thread) selIdxFor(i int) int {
	if t.selRecvIdx == nil {
		return -1
	}
	return t.selRecvIdx[i]
}

// doRecv performs an enabled receive by the running thread t.
//
//go:norace
func (s *Sched) doRecv(t *thread, c *chanCore) (any, bool) {
	if len(c.buf) > 0 {
		slot := unsafe.Pointer(&c.slots[c.recvx])
		Acquire(slot)
		Release(slot)
		c.recvx = (c.recvx + 1) % c.cap
		v := c.buf[0]
		c.buf = c.buf[1:]
		return v, true
	}
	if c.cap == 0 {
		for _, w := range c.sendq {
			if w != t && !w.completed {
				var v any
				idx := -1
				for _, sw := range w.waitSend {
					if sw.ch == c {
						v, idx = sw.val, sw.idx
						break
					}
				}
				w.completed, w.selIndex = true, idx
				w.hb = mix(w.hb, t.hb)
				w.unregister()
				Acquire(unsafe.Pointer(&c.sync))
				ReleaseMerge(unsafe.Pointer(&c.sync))
				return v, true
			}
		}
	}
	if c.closed {
		Acquire(unsafe.Pointer(&c.closeSync))
		return nil, false
	}
	panic("vsched: recv enabled without sender")
}

// Send replaces `ch <- v`.
//
//go:norace
func (ch *Chan[T]) Send(v T) {
	s := inSched()
	if ch.core == nil {
		ch.real <- v
		return
	}
	if s == nil {
		panic("vsched: modelled channel used outside a controlled execution")
	}
	c := ch.core
	t := s.cur
	if c.cap == 0 {
		ReleaseMerge(unsafe.Pointer(&c.sync))
		c.sendq = append(c.sendq, t)
		t.waitSend = []sendWait{{c, v, -1}}
	}
	s.point(OpSend, &c.id, func() bool { return c.canSend(t) })
	if t.completed {
		// a receiver took the value while we were parked
		t.completed = false
		Acquire(unsafe.Pointer(&c.sync))
		return
	}
	t.unregister()
	s.doSend(t, c, v)
}

// Recv replaces `<-ch`.
//
//go:norace
func (ch *Chan[T]) Recv() T {
	v, _ := ch.Recv2()
	return v
}

// Recv2 replaces `v, ok := <-ch`.
//
//go:norace
func (ch *Chan[T]) Recv2() (T, bool) {
	s := inSched()
	if ch.core == nil {
		v, ok := <-ch.real
		return v, ok
	}
	if s == nil {
		panic("vsched: modelled channel used outside a controlled execution")
	}
	c := ch.core
	t := s.cur
	if c.cap == 0 {
		c.recvq = append(c.recvq, t)
		t.waitOn = []*chanCore{c}
		t.selRecvIdx = nil
	}
	s.point(OpRecv, &c.id, func() bool { return c.canRecv(t) })
	var v any
	var ok bool
	if t.completed {
		t.completed = false
		v, ok = t.val, t.ok
		t.val = nil
		Acquire(unsafe.Pointer(&c.sync))
	} else {
		t.unregister()
		v, ok = s.doRecv(t, c)
	}
	if v == nil {
		var zero T
		return zero, ok
	}
	return v.(T), ok
}

// Close replaces close(ch).
//
//go:norace
func (ch *Chan[T]) Close() {
	s := inSched()
	if ch.core == nil {
		close(ch.real)
		return
	}
	if s == nil || s.aborting {
		return
	}
	c := ch.core
	s.point(OpClose, &c.id, nil)
	if c.closed {
		panic("close of closed channel")
	}
	Release(unsafe.Pointer(&c.closeSync))
	c.closed = true
}

// Len replaces len(ch); Cap replaces cap(ch).
//
//go:norace
func (ch *Chan[T]) Len() int {
	if ch == nil {
		return 0
	}
	if ch.core == nil {
		return len(ch.real)
	}
	if s := inSched(); s != nil && !s.aborting {
		s.point(OpLen, &ch.core.id, nil)
	}
	return len(ch.core.buf)
}

//go:norace
func (ch *Chan[T]) Cap() int {
	if ch == nil {
		return 0
	}
	if ch.core == nil {
		return cap(ch.real)
	}
	return ch.core.cap
}

// ---------------------------------------------------------------- select

type selKind uint8

const (
	selRecv selKind = iota
	selSend
	selDone
	selDefault
)

// SelCase is one case of an instrumented select.
type SelCase struct {
	kind selKind
	core *chanCore
	val  any
	done <-chan struct{}
	// pass-through support
	realRecv func() (any, bool, bool) // non-blocking try: value, ok, ready
	realSend func() bool
}

// Sel is the outcome of Select.
type Sel struct {
	Index int
	val   any
	ok    bool
}

// RecvCase builds `case v := <-ch`.
//
//go:norace
func RecvCase[T any](ch *Chan[T]) SelCase {
	if ch == nil {
		return SelCase{kind: selRecv}
	}
	if ch.core == nil {
		return SelCase{kind: selRecv, realRecv: func() (any, bool, bool) {
			select {
			case v, ok := <-ch.real:
				return v, ok, true
			default:
				return nil, false, false
			}
		}}
	}
	return SelCase{kind: selRecv, core: ch.core}
}

// SendCase builds `case ch <- v`.
//
//go:norace
func SendCase[T any](ch *Chan[T], v T) SelCase {
	if ch == nil {
		return SelCase{kind: selSend}
	}
	if ch.core == nil {
		return SelCase{kind: selSend, realSend: func() bool {
			select {
			case ch.real <- v:
				return true
			default:
				return false
			}
		}}
	}
	return SelCase{kind: selSend, core: ch.core, val: v}
}

// DoneCase builds `case <-ctx.Done()` (a real channel that is only ever closed).
//
//go:norace
func DoneCase(done <-chan struct{}) SelCase { return SelCase{kind: selDone, done: done} }

// DefaultCase builds `default:`.
//
//go:norace
func DefaultCase() SelCase { return SelCase{kind: selDefault} }

//go:norace
func doneClosed(d <-chan struct{}) bool {
	if d == nil {
		return false
	}
	// a poll made on behalf of the scheduler must not create a happens-before edge
	raceDisable()
	defer raceEnable()
	select {
	case <-d:
		return true
	default:
		return false
	}
}

// SelVal extracts the value received by the chosen case.
//
//go:norace
func (ch *Chan[T]) SelVal(s Sel) T {
	if s.val == nil {
		var zero T
		return zero
	}
	return s.val.(T)
}

//go:norace
func (ch *Chan[T]) SelVal2(s Sel) (T, bool) { return ch.SelVal(s), s.ok }

// Select replaces a select statement.
//
//go:norace
func Select(cases ...SelCase) Sel {
	s := inSched()
	if s == nil {
		return selectReal(cases)
	}
	if s.aborting {
		panic(abortPanic{})
	}
	t := s.cur
	// private copy: the argument slice was written by instrumented code
	cp := make([]SelCase, len(cases))
	for i := range cases {
		cp[i] = cases[i]
	}
	cases = cp
	hasDefault := false
	var cells []*uint64
	t.waitOn, t.waitSend, t.selRecvIdx = nil, nil, nil
	for i, c := range cases {
		switch c.kind {
		case selDefault:
			hasDefault = true
		case selRecv:
			if c.core != nil {
				cells = append(cells, &c.core.id)
				if c.core.cap == 0 {
					c.core.recvq = append(c.core.recvq, t)
					t.waitOn = append(t.waitOn, c.core)
					t.selRecvIdx = append(t.selRecvIdx, i)
				}
			}
		case selSend:
			if c.core != nil {
				cells = append(cells, &c.core.id)
				if c.core.cap == 0 {
					ReleaseMerge(unsafe.Pointer(&c.core.sync))
					c.core.sendq = append(c.core.sendq, t)
					t.waitSend = append(t.waitSend, sendWait{c.core, c.val, i})
				}
			}
		}
	}
	ready := func() []int {
		var r []int
		for i, c := range cases {
			switch c.kind {
			case selRecv:
				if c.core != nil && c.core.canRecv(t) {
					r = append(r, i)
				}
			case selSend:
				if c.core != nil && c.core.canSend(t) {
					r = append(r, i)
				}
			case selDone:
				if doneClosed(c.done) {
					r = append(r, i)
				}
			}
		}
		return r
	}
	s.point(OpSelect, nil, func() bool { return hasDefault || len(ready()) > 0 })
	for _, cell := range cells {
		if *cell == 0 {
			*cell = NewObj()
		}
		t.hb = mix(t.hb, *cell)
		*cell = mix(*cell, t.hb)
	}
	if t.completed {
		t.completed = false
		res := Sel{Index: t.selIndex, val: t.val, ok: t.ok}
		t.val = nil
		c := cases[res.Index]
		Acquire(unsafe.Pointer(&c.core.sync))
		t.hb = mix(t.hb, uint64(res.Index)+0x5e1)
		return res
	}
	t.unregister()
	r := ready()
	if len(r) == 0 {
		for i, c := range cases {
			if c.kind == selDefault {
				t.hb = mix(t.hb, uint64(i)+0x5e1)
				return Sel{Index: i}
			}
		}
		panic("vsched: select enabled without ready case")
	}
	k := 0
	if len(r) > 1 {
		k = s.choose(len(r), true, false)
	}
	i := r[k]
	t.hb = mix(t.hb, uint64(i)+0x5e1)
	c := cases[i]
	switch c.kind {
	case selRecv:
		v, ok := s.doRecv(t, c.core)
		return Sel{Index: i, val: v, ok: ok}
	case selSend:
		s.doSend(t, c.core, c.val)
		return Sel{Index: i}
	default: // done: the real receive provides the real happens-before edge
		<-c.done
		return Sel{Index: i}
	}
}

// selectReal is the pass-through implementation (no controlled execution): polls fairly.
//
//go:norace
func selectReal(cases []SelCase) Sel {
	for {
		for i, c := range cases {
			switch c.kind {
			case selRecv:
				if c.realRecv != nil {
					if v, ok, rdy := c.realRecv(); rdy {
						return Sel{Index: i, val: v, ok: ok}
					}
				}
			case selSend:
				if c.realSend != nil && c.realSend() {
					return Sel{Index: i}
				}
			case selDone:
				if doneClosed(c.done) {
					return Sel{Index: i}
				}
			}
		}
		for i, c := range cases {
			if c.kind == selDefault {
				return Sel{Index: i}
			}
		}
		yieldReal()
	}
}
