package vsched

import "time"

// Event mixes a harness-level observation on a shared object into the happens-before
// state without being a scheduling point: two executions that order such events
// differently are different states (needed by monitors that depend on the global order).
//
//go:norace
func Event(cell *uint64, what uint64) {
	s := inSched()
	if s == nil || s.cur == nil || s.aborting {
		return
	}
	t := s.cur
	if *cell == 0 {
		*cell = 0xe7e7
	}
	t.hb = mix(mix(t.hb, what), *cell)
	*cell = mix(*cell, t.hb)
}

// Explorer is a stateless DFS over schedules with iterative preemption bounding
// and optional happens-before state caching.
type Explorer struct {
	Bound    int  // maximal number of preemptions
	Horizon  int  // maximal steps per execution (0 = 100000)
	Cache    bool // happens-before state caching
	Deadline time.Time
	MaxExec  int64
	Tick     func() // called every 256 executions (heartbeat)
	// Setup returns the body of thread 0 for a fresh execution and a check run after it.
	Setup func() (body func(), check func(s *Sched) string)

	Executions  int64
	States      int64
	Transitions int64
	Capped      bool
	MaxPoints   int
	Outcomes    map[uint64]struct{}
	// first failure
	FailMsg    string
	FailPrefix []int
	FailTrace  []TraceEv

	seen map[uint64]int8
}

//go:norace
func (e *Explorer) run(prefix []int, keep bool) (*Sched, string) {
	body, check := e.Setup()
	h := e.Horizon
	if h == 0 {
		h = 100000
	}
	s := RunOnce(prefix, h, keep, body)
	e.Executions++
	e.Transitions += int64(s.Steps)
	if len(s.Points) > e.MaxPoints {
		e.MaxPoints = len(s.Points)
	}
	msg := ""
	if s.Fail != nil {
		msg = s.Fail.Kind + ": " + s.Fail.Msg
	}
	if m := check(s); m != "" && msg == "" {
		msg = m
	}
	return s, msg
}

// Explore runs the DFS. It returns false if a failure was found (details in Fail*).
//
//go:norace
func (e *Explorer) Explore() bool {
	e.seen = map[uint64]int8{}
	if e.Outcomes == nil {
		e.Outcomes = map[uint64]struct{}{}
	}
	return e.explore(nil)
}

//go:norace
func (e *Explorer) explore(prefix []int) bool {
	if e.Capped {
		return true
	}
	if (e.MaxExec > 0 && e.Executions >= e.MaxExec) || (!e.Deadline.IsZero() && e.Executions&63 == 0 && time.Now().After(e.Deadline)) {
		e.Capped = true
		return true
	}
	if e.Tick != nil && e.Executions&255 == 0 {
		e.Tick()
	}
	s, msg := e.run(prefix, false)
	if msg != "" {
		// re-run with tracing for the artefact, and to confirm determinism
		choices := make([]int, len(s.Points))
		for i, p := range s.Points {
			choices[i] = p.Chosen
		}
		s2, msg2 := e.run(choices, true)
		e.FailMsg = msg
		if msg2 == "" {
			e.FailMsg = "NONDETERMINISTIC: " + msg + " (did not reproduce under the same schedule)"
		}
		e.FailPrefix = choices
		e.FailTrace = s2.Trace
		return false
	}
	if len(s.Points) < len(prefix) {
		e.FailMsg = "NONDETERMINISTIC: replay consumed fewer choice points than the prefix"
		e.FailPrefix = prefix
		return false
	}
	pts := s.Points
	for i := len(prefix); i < len(pts); i++ {
		p := pts[i]
		if e.Cache {
			if pre, ok := e.seen[p.Key]; ok && int(pre) <= p.Pre {
				break
			}
			e.seen[p.Key] = int8(p.Pre)
		}
		e.States++
		for alt := 1; alt < p.N; alt++ {
			cost := p.Pre
			if !p.Select && p.CurAlive {
				cost++
			}
			if cost > e.Bound {
				continue
			}
			np := make([]int, i+1)
			for k := 0; k < i; k++ {
				np[k] = pts[k].Chosen
			}
			np[i] = alt
			if !e.explore(np) {
				return false
			}
			if e.Capped {
				return true
			}
		}
	}
	return true
}
