package vsched_test

import (
	"testing"

	"vsched"
	"vsched/vsync"
)

// two threads do an unprotected read-modify-write with a yield in between: lost update must be found
func TestLostUpdate(t *testing.T) {
	for _, cache := range []bool{false, true} {
		outcomes := map[int]bool{}
		e := &vsched.Explorer{Bound: 2, Cache: cache, Setup: func() (func(), func(*vsched.Sched) string) {
			x := 0
			var wg vsync.WaitGroup
			body := func() {
				wg.Add(2)
				for i := 0; i < 2; i++ {
					vsched.Go(func() {
						v := x
						vsched.Yield()
						x = v + 1
						wg.Done()
					})
				}
				wg.Wait()
			}
			return body, func(s *vsched.Sched) string { outcomes[x] = true; return "" }
		}}
		if !e.Explore() {
			t.Fatal(e.FailMsg)
		}
		if !outcomes[1] || !outcomes[2] {
			t.Fatalf("cache=%v outcomes %v: expected both 1 and 2", cache, outcomes)
		}
		t.Logf("cache=%v executions=%d states=%d", cache, e.Executions, e.States)
	}
}

func TestDeadlock(t *testing.T) {
	e := &vsched.Explorer{Bound: 2, Setup: func() (func(), func(*vsched.Sched) string) {
		var a, b vsync.Mutex
		var wg vsync.WaitGroup
		body := func() {
			wg.Add(2)
			vsched.Go(func() { a.Lock(); b.Lock(); b.Unlock(); a.Unlock(); wg.Done() })
			vsched.Go(func() { b.Lock(); a.Lock(); a.Unlock(); b.Unlock(); wg.Done() })
			wg.Wait()
		}
		return body, func(*vsched.Sched) string { return "" }
	}}
	if e.Explore() {
		t.Fatal("deadlock not found")
	}
	t.Log(e.FailMsg, e.FailPrefix, e.Executions)
}

func TestUnbufferedAndSelect(t *testing.T) {
	seen := map[string]bool{}
	e := &vsched.Explorer{Bound: 2, Setup: func() (func(), func(*vsched.Sched) string) {
		res := ""
		body := func() {
			c1 := vsched.MakeChan[int](0)
			c2 := vsched.MakeChan[string](1)
			vsched.Go(func() { c1.Send(7) })
			vsched.Go(func() { c2.Send("s") })
			for i := 0; i < 2; i++ {
				switch sel := vsched.Select(vsched.RecvCase(c1), vsched.RecvCase(c2)); sel.Index {
				case 0:
					v := c1.SelVal(sel)
					if v != 7 {
						res += "BAD"
					}
					res += "1"
				case 1:
					res += c2.SelVal(sel)
				}
			}
		}
		return body, func(*vsched.Sched) string { seen[res] = true; return "" }
	}}
	if !e.Explore() {
		t.Fatal(e.FailMsg)
	}
	if !seen["1s"] || !seen["s1"] || len(seen) != 2 {
		t.Fatalf("outcomes %v", seen)
	}
	t.Logf("executions=%d", e.Executions)
}

// a sender blocked forever on an unbuffered channel nobody reads: deadlock among remaining threads
func TestLeakedSender(t *testing.T) {
	e := &vsched.Explorer{Bound: 1, Setup: func() (func(), func(*vsched.Sched) string) {
		body := func() {
			c := vsched.MakeChan[int](0)
			vsched.Go(func() { c.Send(1) })
		}
		return body, func(*vsched.Sched) string { return "" }
	}}
	if e.Explore() {
		t.Fatal("leak not found")
	}
	t.Log(e.FailMsg)
}

// properly synchronised accesses must be silent under -race (annotations carry the HB edges)
func TestSynchronisedIsRaceFree(t *testing.T) {
	e := &vsched.Explorer{Bound: 2, Setup: func() (func(), func(*vsched.Sched) string) {
		x, y := 0, 0
		var mu vsync.Mutex
		var wg vsync.WaitGroup
		var once vsync.Once
		c := 0
		body := func() {
			ch := vsched.MakeChan[*int](1)
			wg.Add(2)
			for i := 0; i < 2; i++ {
				vsched.Go(func() {
					mu.Lock()
					x++
					mu.Unlock()
					once.Do(func() { c = 1 })
					_ = c
					wg.Done()
				})
			}
			vsched.Go(func() { p := new(int); *p = 5; ch.Send(p) })
			p := ch.Recv()
			y = *p
			wg.Wait()
			y += x
		}
		return body, func(*vsched.Sched) string {
			if y != 7 {
				return "bad result"
			}
			return ""
		}
	}}
	if !e.Explore() {
		t.Fatal(e.FailMsg)
	}
	t.Logf("executions=%d", e.Executions)
}
