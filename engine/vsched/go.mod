module vsched

go 1.21
