// instrument: rewrites the synchronisation constructs of Go source files so that they run
// under the vsched scheduler, and emits a `go build -overlay` description.
//
//	instrument -out DIR -overlay FILE [-virtual IMPORTPATH=DIR:file1.go,file2.go] dir1 dir2 ...
//
// Every non-test .go file of the given package directories that uses a concurrency construct
// is rewritten (purely syntactically); others are left alone. Constructs it does not know
// make it exit 2 with a message naming the construct.
package main

import (
	"bytes"
	"encoding/json"
	"flag"
	"fmt"
	"go/ast"
	"go/format"
	"go/parser"
	"go/token"
	"os"
	"path/filepath"
	"sort"
	"strconv"
	"strings"

	"golang.org/x/tools/go/ast/astutil"
)

const errgroupPath = "golang.org/x/sync/errgroup"

var shimErrgroup = "github.com/compose-spec/compose-go/v2/verifshim/errgroup"

func die(format string, a ...any) {
	fmt.Fprintf(os.Stderr, "instrument: "+format+"\n", a...)
	os.Exit(2)
}

type virtualPkg struct {
	dir   string // destination directory (virtual, inside the module tree)
	files []string
}

func main() {
	out := flag.String("out", "", "output directory")
	overlayPath := flag.String("overlay", "", "overlay json to write")
	virt := flag.String("virtual", "", "DESTDIR=src1.go,src2.go : instrument these files into a virtual package directory")
	merge := flag.String("merge", "", "existing overlay json to merge into the result")
	globalsDirs := flag.String("globals", "", "comma-separated package directories in which a scheduling point is inserted before every statement that touches a package-level variable assigned outside init")
	flag.Parse()
	if *out == "" || *overlayPath == "" {
		die("need -out and -overlay")
	}
	os.MkdirAll(*out, 0o755)
	replace := map[string]string{}
	if *merge != "" {
		var m struct{ Replace map[string]string }
		b, err := os.ReadFile(*merge)
		if err != nil {
			die("%v", err)
		}
		if err := json.Unmarshal(b, &m); err != nil {
			die("%v", err)
		}
		for k, v := range m.Replace {
			replace[k] = v
		}
	}
	n := 0
	globalsMode := map[string]bool{}
	for _, d := range strings.Split(*globalsDirs, ",") {
		if d != "" {
			globalsMode[filepath.Clean(d)] = true
		}
	}
	emit := func(srcFiles []string, destFor func(string) string, force bool) {
		fset := token.NewFileSet()
		var files []*ast.File
		var paths []string
		for _, p := range srcFiles {
			f, err := parser.ParseFile(fset, p, nil, parser.ParseComments)
			if err != nil {
				die("parse %s: %v", p, err)
			}
			files = append(files, f)
			paths = append(paths, p)
		}
		chanNames := collectChanNames(files)
		var mutable map[string]bool
		if len(paths) > 0 && globalsMode[filepath.Clean(filepath.Dir(paths[0]))] {
			mutable = mutableGlobals(files)
			if len(mutable) > 0 {
				var ns []string
				for k := range mutable {
					ns = append(ns, k)
				}
				sort.Strings(ns)
				fmt.Printf("instrument: %s: mutable package-level variables: %v\n", filepath.Dir(paths[0]), ns)
			}
		}
		var allVars map[string]bool
		if len(paths) > 0 && globalsMode[filepath.Clean(filepath.Dir(paths[0]))] {
			allVars = allGlobals(files)
		}
		for i, f := range files {
			touches := len(mutable) > 0 && mentionsAny(f, mutable)
			marks := len(allVars) > 0 && mentionsAny(f, allVars)
			if !force && !needsRewrite(f) && !touches && !marks {
				continue
			}
			if marks {
				// before the yields, so that a yield ends up in front of the marks of the same statement
				if insertVarMarks(f, f.Name.Name, allVars) > 0 {
					astutil.AddImport(fset, f, "vsched")
				} else {
					marks = false
				}
			}
			if !force && !needsRewrite(f) && !touches && !marks {
				continue
			}
			if touches {
				insertGlobalYields(f, mutable)
				astutil.AddImport(fset, f, "vsched")
			}
			rewriteFile(fset, f, chanNames, paths[i])
			var buf bytes.Buffer
			if err := format.Node(&buf, fset, f); err != nil {
				die("print %s: %v", paths[i], err)
			}
			n++
			dst := filepath.Join(*out, fmt.Sprintf("%03d_%s", n, filepath.Base(paths[i])))
			if err := os.WriteFile(dst, buf.Bytes(), 0o644); err != nil {
				die("%v", err)
			}
			replace[destFor(paths[i])] = dst
		}
	}
	for _, dir := range flag.Args() {
		ents, err := os.ReadDir(dir)
		if err != nil {
			die("%v", err)
		}
		var src []string
		for _, e := range ents {
			nm := e.Name()
			if strings.HasSuffix(nm, ".go") && !strings.HasSuffix(nm, "_test.go") {
				src = append(src, filepath.Join(dir, nm))
			}
		}
		sort.Strings(src)
		emit(src, func(p string) string { return p }, false)
	}
	if *virt != "" {
		parts := strings.SplitN(*virt, "=", 2)
		dest := parts[0]
		emit(strings.Split(parts[1], ","), func(p string) string { return filepath.Join(dest, filepath.Base(p)) }, true)
	}
	b, _ := json.MarshalIndent(map[string]any{"Replace": replace}, "", " ")
	if err := os.WriteFile(*overlayPath, b, 0o644); err != nil {
		die("%v", err)
	}
	fmt.Printf("instrument: %d files rewritten\n", n)
}

// mutableGlobals returns the package-level variables that are assigned, incremented, index-assigned
// or have their address taken inside a function other than init (syntactic approximation).
func mutableGlobals(files []*ast.File) map[string]bool {
	vars := map[string]bool{}
	for _, f := range files {
		for _, d := range f.Decls {
			if gd, ok := d.(*ast.GenDecl); ok && gd.Tok == token.VAR {
				for _, sp := range gd.Specs {
					for _, id := range sp.(*ast.ValueSpec).Names {
						if id.Name != "_" {
							vars[id.Name] = true
						}
					}
				}
			}
		}
	}
	root := func(e ast.Expr) string {
		for {
			switch x := e.(type) {
			case *ast.Ident:
				return x.Name
			case *ast.IndexExpr:
				e = x.X
			case *ast.SelectorExpr:
				e = x.X
			case *ast.StarExpr:
				e = x.X
			case *ast.ParenExpr:
				e = x.X
			default:
				return ""
			}
		}
	}
	mut := map[string]bool{}
	for _, f := range files {
		for _, d := range f.Decls {
			fd, ok := d.(*ast.FuncDecl)
			if !ok || fd.Body == nil || (fd.Recv == nil && fd.Name.Name == "init") {
				continue
			}
			// names declared locally shadow globals: collect them (coarse: whole function)
			local := map[string]bool{}
			if fd.Type.Params != nil {
				for _, p := range fd.Type.Params.List {
					for _, id := range p.Names {
						local[id.Name] = true
					}
				}
			}
			if fd.Recv != nil {
				for _, p := range fd.Recv.List {
					for _, id := range p.Names {
						local[id.Name] = true
					}
				}
			}
			ast.Inspect(fd.Body, func(n ast.Node) bool {
				switch x := n.(type) {
				case *ast.AssignStmt:
					if x.Tok == token.DEFINE {
						for _, l := range x.Lhs {
							if id, ok := l.(*ast.Ident); ok {
								local[id.Name] = true
							}
						}
					}
				case *ast.ValueSpec:
					for _, id := range x.Names {
						local[id.Name] = true
					}
				case *ast.RangeStmt:
					if x.Tok == token.DEFINE {
						for _, e := range []ast.Expr{x.Key, x.Value} {
							if id, ok := e.(*ast.Ident); ok {
								local[id.Name] = true
							}
						}
					}
				}
				return true
			})
			mark := func(e ast.Expr) {
				if r := root(e); r != "" && vars[r] && !local[r] {
					mut[r] = true
				}
			}
			ast.Inspect(fd.Body, func(n ast.Node) bool {
				switch x := n.(type) {
				case *ast.AssignStmt:
					if x.Tok != token.DEFINE {
						for _, l := range x.Lhs {
							mark(l)
						}
					}
				case *ast.IncDecStmt:
					mark(x.X)
				case *ast.UnaryExpr:
					if x.Op == token.AND {
						mark(x.X)
					}
				case *ast.CallExpr:
					// delete(m, k) / clear(m) on a global
					if id, ok := x.Fun.(*ast.Ident); ok && (id.Name == "delete" || id.Name == "clear") && len(x.Args) > 0 {
						mark(x.Args[0])
					}
				}
				return true
			})
		}
	}
	return mut
}

// allGlobals returns the names of all package-level variables.
func allGlobals(files []*ast.File) map[string]bool {
	vars := map[string]bool{}
	for _, f := range files {
		for _, d := range f.Decls {
			if gd, ok := d.(*ast.GenDecl); ok && gd.Tok == token.VAR {
				for _, sp := range gd.Specs {
					for _, id := range sp.(*ast.ValueSpec).Names {
						if id.Name != "_" {
							vars[id.Name] = true
						}
					}
				}
			}
		}
	}
	return vars
}

// funcLocals: names declared inside a function (parameters, receiver, :=, var, range) shadow package-level ones
// (coarse: for the whole function).
func funcLocals(fd *ast.FuncDecl) map[string]bool {
	local := map[string]bool{}
	if fd.Type.Params != nil {
		for _, p := range fd.Type.Params.List {
			for _, id := range p.Names {
				local[id.Name] = true
			}
		}
	}
	if fd.Type.Results != nil {
		for _, p := range fd.Type.Results.List {
			for _, id := range p.Names {
				local[id.Name] = true
			}
		}
	}
	if fd.Recv != nil {
		for _, p := range fd.Recv.List {
			for _, id := range p.Names {
				local[id.Name] = true
			}
		}
	}
	ast.Inspect(fd.Body, func(n ast.Node) bool {
		switch x := n.(type) {
		case *ast.AssignStmt:
			if x.Tok == token.DEFINE {
				for _, l := range x.Lhs {
					if id, ok := l.(*ast.Ident); ok {
						local[id.Name] = true
					}
				}
			}
		case *ast.ValueSpec:
			for _, id := range x.Names {
				local[id.Name] = true
			}
		case *ast.RangeStmt:
			if x.Tok == token.DEFINE {
				for _, e := range []ast.Expr{x.Key, x.Value} {
					if id, ok := e.(*ast.Ident); ok {
						local[id.Name] = true
					}
				}
			}
		case *ast.FuncLit:
			if x.Type.Params != nil {
				for _, p := range x.Type.Params.List {
					for _, id := range p.Names {
						local[id.Name] = true
					}
				}
			}
		}
		return true
	})
	return local
}

// headVars: the package-level variables (at most two, sorted) that the head of a statement mentions; selector
// fields (x.name) and composite-literal keys are not references to the variable.
func headVars(s ast.Stmt, names, local map[string]bool) []string {
	found := map[string]bool{}
	ast.Inspect(s, func(x ast.Node) bool {
		switch y := x.(type) {
		case *ast.BlockStmt, *ast.FuncLit:
			return false
		case *ast.SelectorExpr:
			// only the receiver side can name a package-level variable of this package
			ast.Inspect(y.X, func(z ast.Node) bool {
				if id, ok := z.(*ast.Ident); ok && names[id.Name] && !local[id.Name] {
					found[id.Name] = true
				}
				return true
			})
			return false
		case *ast.KeyValueExpr:
			ast.Inspect(y.Value, func(z ast.Node) bool {
				if id, ok := z.(*ast.Ident); ok && names[id.Name] && !local[id.Name] {
					found[id.Name] = true
				}
				return true
			})
			return false
		case *ast.Ident:
			if names[y.Name] && !local[y.Name] {
				found[y.Name] = true
			}
		}
		return true
	})
	var out []string
	for k := range found {
		out = append(out, k)
	}
	sort.Strings(out)
	if len(out) > 2 {
		out = out[:2]
	}
	return out
}

func varMark(fn, name string) ast.Stmt {
	return &ast.ExprStmt{X: call(sel("vsched", fn), &ast.BasicLit{Kind: token.STRING, Value: strconv.Quote(name)})}
}

// insertVarMarks brackets every statement whose head mentions a package-level variable with vsched.VarPre(name) /
// vsched.VarPost(name) (no-ops unless a harness installed a hook): the points at which a directed schedule can
// bring the accesses of two threads to one variable next to each other. Compound statements get the closing mark
// at the start of their bodies as well; statements that end a function (return, panic, branch) get none.
func insertVarMarks(f *ast.File, pkg string, names map[string]bool) int {
	inserted := 0
	for _, d := range f.Decls {
		fd, ok := d.(*ast.FuncDecl)
		if !ok || fd.Body == nil || (fd.Recv == nil && fd.Name.Name == "init") {
			continue
		}
		local := funcLocals(fd)
		var fix func(list []ast.Stmt) []ast.Stmt
		fix = func(list []ast.Stmt) []ast.Stmt {
			var out []ast.Stmt
			for i, s := range list {
				var vs []string
				switch s.(type) {
				case *ast.DeclStmt, *ast.LabeledStmt:
				default:
					vs = headVars(s, names, local)
				}
				if len(vs) == 0 {
					out = append(out, s)
					continue
				}
				var pre, post []ast.Stmt
				for _, v := range vs {
					pre = append(pre, varMark("VarPre", pkg+"."+v))
					post = append(post, varMark("VarPost", pkg+"."+v))
				}
				out = append(out, pre...)
				out = append(out, s)
				inserted += len(pre)
				last := i == len(list)-1
				after := true
				switch x := s.(type) {
				case *ast.ReturnStmt, *ast.BranchStmt:
					after = false
				case *ast.ExprStmt:
					if c, ok := x.X.(*ast.CallExpr); ok {
						if id, ok := c.Fun.(*ast.Ident); ok && id.Name == "panic" {
							after = false
						}
					}
				case *ast.IfStmt:
					x.Body.List = append(append([]ast.Stmt{}, post...), x.Body.List...)
					if eb, ok := x.Else.(*ast.BlockStmt); ok {
						eb.List = append(append([]ast.Stmt{}, post...), eb.List...)
					}
					after = !last
				case *ast.ForStmt:
					x.Body.List = append(append([]ast.Stmt{}, post...), x.Body.List...)
					after = !last && x.Cond != nil
				case *ast.RangeStmt:
					x.Body.List = append(append([]ast.Stmt{}, post...), x.Body.List...)
					after = !last
				case *ast.SwitchStmt:
					for _, cc := range x.Body.List {
						c := cc.(*ast.CaseClause)
						c.Body = append(append([]ast.Stmt{}, post...), c.Body...)
					}
					after = !last
				case *ast.TypeSwitchStmt:
					for _, cc := range x.Body.List {
						c := cc.(*ast.CaseClause)
						c.Body = append(append([]ast.Stmt{}, post...), c.Body...)
					}
					after = !last
				case *ast.SelectStmt:
					after = false
				}
				if after {
					out = append(out, post...)
				}
			}
			return out
		}
		// innermost lists first, so that marks inserted into bodies are not themselves revisited
		var walk func(n ast.Node)
		walk = func(n ast.Node) {
			ast.Inspect(n, func(x ast.Node) bool {
				switch y := x.(type) {
				case *ast.BlockStmt:
					for _, st := range y.List {
						walk(st)
					}
					y.List = fix(y.List)
					return false
				case *ast.CaseClause:
					for _, st := range y.Body {
						walk(st)
					}
					y.Body = fix(y.Body)
					return false
				case *ast.CommClause:
					for _, st := range y.Body {
						walk(st)
					}
					y.Body = fix(y.Body)
					return false
				}
				return true
			})
		}
		walk(fd.Body)
	}
	return inserted
}

func mentionsAny(n ast.Node, names map[string]bool) bool {
	found := false
	ast.Inspect(n, func(x ast.Node) bool {
		if id, ok := x.(*ast.Ident); ok && names[id.Name] {
			found = true
		}
		return !found
	})
	return found
}

// headMentions: does the statement itself (not its nested blocks) mention a mutable global?
func headMentions(s ast.Stmt, names map[string]bool) bool {
	found := false
	ast.Inspect(s, func(x ast.Node) bool {
		if found {
			return false
		}
		switch x.(type) {
		case *ast.BlockStmt, *ast.FuncLit:
			return false // nested statements are handled where they are listed
		}
		if id, ok := x.(*ast.Ident); ok && names[id.Name] {
			found = true
		}
		return true
	})
	return found
}

func yieldStmt() ast.Stmt { return &ast.ExprStmt{X: call(sel("vsched", "Yield"))} }

// insertGlobalYields puts vsched.Yield() before every statement whose head touches a mutable global.
func insertGlobalYields(f *ast.File, names map[string]bool) {
	var fix func(list []ast.Stmt) []ast.Stmt
	fix = func(list []ast.Stmt) []ast.Stmt {
		var out []ast.Stmt
		for _, s := range list {
			if _, isDecl := s.(*ast.DeclStmt); !isDecl && headMentions(s, names) {
				if ls, ok := s.(*ast.LabeledStmt); ok {
					_ = ls
				} else {
					out = append(out, yieldStmt())
				}
			}
			out = append(out, s)
		}
		return out
	}
	for _, d := range f.Decls {
		fd, ok := d.(*ast.FuncDecl)
		if !ok || fd.Body == nil || (fd.Recv == nil && fd.Name.Name == "init") {
			continue
		}
		ast.Inspect(fd.Body, func(n ast.Node) bool {
			switch x := n.(type) {
			case *ast.BlockStmt:
				x.List = fix(x.List)
			case *ast.CaseClause:
				x.Body = fix(x.Body)
			case *ast.CommClause:
				x.Body = fix(x.Body)
			}
			return true
		})
	}
}

func needsRewrite(f *ast.File) bool {
	need := false
	for _, im := range f.Imports {
		p, _ := strconv.Unquote(im.Path.Value)
		if p == "sync" || p == "sync/atomic" || p == errgroupPath {
			need = true
		}
	}
	ast.Inspect(f, func(n ast.Node) bool {
		switch n.(type) {
		case *ast.ChanType, *ast.GoStmt, *ast.SelectStmt, *ast.SendStmt:
			need = true
		}
		return !need
	})
	return need
}

// collectChanNames gathers the names of identifiers and fields declared with a channel type
// (needed to tell len(ch)/cap(ch)/range ch from their slice and map namesakes).
func collectChanNames(files []*ast.File) map[string]bool {
	names := map[string]bool{}
	isMakeChan := func(e ast.Expr) bool {
		c, ok := e.(*ast.CallExpr)
		if !ok || len(c.Args) == 0 {
			return false
		}
		id, ok := c.Fun.(*ast.Ident)
		if !ok || id.Name != "make" {
			return false
		}
		_, ok = c.Args[0].(*ast.ChanType)
		return ok
	}
	for _, f := range files {
		ast.Inspect(f, func(n ast.Node) bool {
			switch x := n.(type) {
			case *ast.Field:
				if _, ok := x.Type.(*ast.ChanType); ok {
					for _, id := range x.Names {
						names[id.Name] = true
					}
				}
			case *ast.ValueSpec:
				if _, ok := x.Type.(*ast.ChanType); ok {
					for _, id := range x.Names {
						names[id.Name] = true
					}
				}
				for i, v := range x.Values {
					if isMakeChan(v) && i < len(x.Names) {
						names[x.Names[i].Name] = true
					}
				}
			case *ast.AssignStmt:
				for i, r := range x.Rhs {
					if isMakeChan(r) && i < len(x.Lhs) {
						switch l := x.Lhs[i].(type) {
						case *ast.Ident:
							names[l.Name] = true
						case *ast.SelectorExpr:
							names[l.Sel.Name] = true
						}
					}
				}
			}
			return true
		})
	}
	return names
}

func sel(pkg, name string) ast.Expr {
	return &ast.SelectorExpr{X: ast.NewIdent(pkg), Sel: ast.NewIdent(name)}
}

func call(fun ast.Expr, args ...ast.Expr) *ast.CallExpr { return &ast.CallExpr{Fun: fun, Args: args} }

func method(recv ast.Expr, name string, args ...ast.Expr) *ast.CallExpr {
	return call(&ast.SelectorExpr{X: recv, Sel: ast.NewIdent(name)}, args...)
}

func terminalName(e ast.Expr) string {
	switch x := e.(type) {
	case *ast.Ident:
		return x.Name
	case *ast.SelectorExpr:
		return x.Sel.Name
	case *ast.ParenExpr:
		return terminalName(x.X)
	}
	return ""
}

// isDoneCall: X.Done() with no arguments (a context's done channel).
func isDoneCall(e ast.Expr) bool {
	c, ok := e.(*ast.CallExpr)
	if !ok || len(c.Args) != 0 {
		return false
	}
	s, ok := c.Fun.(*ast.SelectorExpr)
	return ok && s.Sel.Name == "Done"
}

func isVschedCall(e ast.Expr, name string) (*ast.CallExpr, bool) {
	c, ok := e.(*ast.CallExpr)
	if !ok {
		return nil, false
	}
	s, ok := c.Fun.(*ast.SelectorExpr)
	if !ok || s.Sel.Name != name {
		return nil, false
	}
	id, ok := s.X.(*ast.Ident)
	return c, ok && id.Name == "vsched"
}

func isMethodCall(e ast.Expr, name string) (*ast.CallExpr, ast.Expr, bool) {
	c, ok := e.(*ast.CallExpr)
	if !ok {
		return nil, nil, false
	}
	s, ok := c.Fun.(*ast.SelectorExpr)
	if !ok || s.Sel.Name != name {
		return nil, nil, false
	}
	return c, s.X, true
}

var selCounter int

func rewriteFile(fset *token.FileSet, f *ast.File, chanNames map[string]bool, path string) {
	usedVsched := false
	pos := func(n ast.Node) string { return fset.Position(n.Pos()).String() }
	// --- imports
	for _, im := range f.Imports {
		p, _ := strconv.Unquote(im.Path.Value)
		switch p {
		case "sync":
			if im.Name == nil {
				im.Name = ast.NewIdent("sync")
			}
			im.Path.Value = strconv.Quote("vsched/vsync")
		case "sync/atomic":
			if im.Name == nil {
				im.Name = ast.NewIdent("atomic")
			}
			im.Path.Value = strconv.Quote("vsched/vatomic")
		case errgroupPath:
			im.Path.Value = strconv.Quote(shimErrgroup)
		case "os/signal":
			die("%s: unsupported construct: import of os/signal", path)
		}
	}
	post := func(c *astutil.Cursor) bool {
		switch n := c.Node().(type) {
		case *ast.ChanType:
			usedVsched = true
			c.Replace(&ast.StarExpr{X: &ast.IndexExpr{X: sel("vsched", "Chan"), Index: n.Value}})
		case *ast.SendStmt:
			c.Replace(&ast.ExprStmt{X: method(n.Chan, "Send", n.Value)})
		case *ast.UnaryExpr:
			if n.Op != token.ARROW {
				return true
			}
			if isDoneCall(n.X) {
				usedVsched = true
				c.Replace(call(sel("vsched", "CtxDone"), n.X))
				return true
			}
			name := "Recv"
			switch p := c.Parent().(type) {
			case *ast.AssignStmt:
				if len(p.Lhs) == 2 && len(p.Rhs) == 1 {
					name = "Recv2"
				}
			case *ast.ValueSpec:
				if len(p.Names) == 2 && len(p.Values) == 1 {
					name = "Recv2"
				}
			}
			c.Replace(method(n.X, name))
		case *ast.CallExpr:
			if id, ok := n.Fun.(*ast.Ident); ok {
				switch id.Name {
				case "make":
					if len(n.Args) >= 1 {
						if st, ok := n.Args[0].(*ast.StarExpr); ok {
							if ix, ok := st.X.(*ast.IndexExpr); ok {
								if s, ok := ix.X.(*ast.SelectorExpr); ok && s.Sel.Name == "Chan" {
									var size ast.Expr = &ast.BasicLit{Kind: token.INT, Value: "0"}
									if len(n.Args) == 2 {
										size = n.Args[1]
									}
									usedVsched = true
									c.Replace(call(&ast.IndexExpr{X: sel("vsched", "MakeChan"), Index: ix.Index}, size))
								}
							}
						}
					}
				case "close":
					if len(n.Args) == 1 {
						c.Replace(method(n.Args[0], "Close"))
					}
				case "len", "cap":
					if len(n.Args) == 1 && chanNames[terminalName(n.Args[0])] {
						m := "Len"
						if id.Name == "cap" {
							m = "Cap"
						}
						c.Replace(method(n.Args[0], m))
					}
				}
				return true
			}
			if s, ok := n.Fun.(*ast.SelectorExpr); ok {
				if x, ok := s.X.(*ast.Ident); ok {
					if (x.Name == "time" && s.Sel.Name == "Sleep") || (x.Name == "runtime" && s.Sel.Name == "Gosched") {
						usedVsched = true
						c.Replace(call(sel("vsched", "Yield")))
					}
					if x.Name == "time" && (s.Sel.Name == "After" || s.Sel.Name == "NewTimer" || s.Sel.Name == "Tick" || s.Sel.Name == "AfterFunc" || s.Sel.Name == "NewTicker") {
						die("%s: unsupported construct: time.%s (timers are not modelled)", pos(n), s.Sel.Name)
					}
				}
			}
		case *ast.GoStmt:
			usedVsched = true
			callx := n.Call
			if len(callx.Args) == 0 {
				c.Replace(&ast.ExprStmt{X: call(sel("vsched", "Go"), &ast.FuncLit{
					Type: &ast.FuncType{Params: &ast.FieldList{}},
					Body: &ast.BlockStmt{List: []ast.Stmt{&ast.ExprStmt{X: callx}}}})})
				return true
			}
			// evaluate arguments first, as the go statement does
			var lhs []ast.Expr
			var args []ast.Expr
			for i := range callx.Args {
				id := ast.NewIdent(fmt.Sprintf("__goarg%d", i))
				lhs = append(lhs, id)
				args = append(args, ast.NewIdent(id.Name))
			}
			assign := &ast.AssignStmt{Lhs: lhs, Tok: token.DEFINE, Rhs: callx.Args}
			inner := &ast.CallExpr{Fun: callx.Fun, Args: args, Ellipsis: callx.Ellipsis}
			if callx.Ellipsis.IsValid() {
				die("%s: unsupported construct: go statement with variadic spread", pos(n))
			}
			c.Replace(&ast.BlockStmt{List: []ast.Stmt{assign, &ast.ExprStmt{X: call(sel("vsched", "Go"), &ast.FuncLit{
				Type: &ast.FuncType{Params: &ast.FieldList{}},
				Body: &ast.BlockStmt{List: []ast.Stmt{&ast.ExprStmt{X: inner}}}})}}})
		case *ast.RangeStmt:
			if chanNames[terminalName(n.X)] {
				// for v := range ch  ->  for { v, ok := ch.Recv2(); if !ok { break }; body }
				var key ast.Expr = ast.NewIdent("_")
				if n.Key != nil {
					key = n.Key
				}
				okID := ast.NewIdent("__ok")
				tok := n.Tok
				if tok == token.ILLEGAL {
					tok = token.DEFINE
				}
				var first ast.Stmt
				if tok == token.DEFINE {
					first = &ast.AssignStmt{Lhs: []ast.Expr{key, okID}, Tok: token.DEFINE, Rhs: []ast.Expr{method(n.X, "Recv2")}}
				} else {
					first = &ast.BlockStmt{List: []ast.Stmt{
						&ast.DeclStmt{Decl: &ast.GenDecl{Tok: token.VAR, Specs: []ast.Spec{&ast.ValueSpec{Names: []*ast.Ident{okID}, Type: ast.NewIdent("bool")}}}},
					}}
					die("%s: unsupported construct: range over channel with assignment (not :=)", pos(n))
				}
				body := append([]ast.Stmt{first,
					&ast.IfStmt{Cond: &ast.UnaryExpr{Op: token.NOT, X: okID}, Body: &ast.BlockStmt{List: []ast.Stmt{&ast.BranchStmt{Tok: token.BREAK}}}}},
					n.Body.List...)
				c.Replace(&ast.ForStmt{Body: &ast.BlockStmt{List: body}})
			}
		case *ast.SelectStmt:
			usedVsched = true
			selCounter++
			selVar := ast.NewIdent(fmt.Sprintf("__sel%d", selCounter))
			var cases []ast.Expr
			var clauses []ast.Stmt
			for i, cl := range n.Body.List {
				cc := cl.(*ast.CommClause)
				var pre []ast.Stmt
				switch comm := cc.Comm.(type) {
				case nil:
					cases = append(cases, call(sel("vsched", "DefaultCase")))
				case *ast.ExprStmt:
					if cx, ok := isVschedCall(comm.X, "CtxDone"); ok {
						cases = append(cases, call(sel("vsched", "DoneCase"), cx.Args[0]))
					} else if cx, recv, ok := isMethodCall(comm.X, "Send"); ok {
						cases = append(cases, call(sel("vsched", "SendCase"), recv, cx.Args[0]))
					} else if _, recv, ok := isMethodCall(comm.X, "Recv"); ok {
						cases = append(cases, call(sel("vsched", "RecvCase"), recv))
					} else {
						die("%s: unsupported construct in select case", pos(cc))
					}
				case *ast.AssignStmt:
					if len(comm.Rhs) != 1 {
						die("%s: unsupported construct in select case", pos(cc))
					}
					if _, recv, ok := isMethodCall(comm.Rhs[0], "Recv"); ok {
						cases = append(cases, call(sel("vsched", "RecvCase"), recv))
						pre = append(pre, &ast.AssignStmt{Lhs: comm.Lhs, Tok: comm.Tok, Rhs: []ast.Expr{method(recv, "SelVal", selVar)}})
					} else if _, recv, ok := isMethodCall(comm.Rhs[0], "Recv2"); ok {
						cases = append(cases, call(sel("vsched", "RecvCase"), recv))
						pre = append(pre, &ast.AssignStmt{Lhs: comm.Lhs, Tok: comm.Tok, Rhs: []ast.Expr{method(recv, "SelVal2", selVar)}})
					} else if cx, ok := isVschedCall(comm.Rhs[0], "CtxDone"); ok {
						cases = append(cases, call(sel("vsched", "DoneCase"), cx.Args[0]))
					} else {
						die("%s: unsupported construct in select case", pos(cc))
					}
				default:
					die("%s: unsupported construct in select case", pos(cc))
				}
				// silence "declared and not used" for assigned-but-unused values is not needed: Go's select has the same rule
				clauses = append(clauses, &ast.CaseClause{
					List: []ast.Expr{&ast.BasicLit{Kind: token.INT, Value: strconv.Itoa(i)}},
					Body: append(pre, cc.Body...),
				})
			}
			sw := &ast.SwitchStmt{
				Init: &ast.AssignStmt{Lhs: []ast.Expr{selVar}, Tok: token.DEFINE, Rhs: []ast.Expr{call(sel("vsched", "Select"), cases...)}},
				Tag:  &ast.SelectorExpr{X: selVar, Sel: ast.NewIdent("Index")},
				Body: &ast.BlockStmt{List: clauses},
			}
			c.Replace(sw)
		}
		return true
	}
	astutil.Apply(f, nil, post)
	if usedVsched {
		astutil.AddImport(fset, f, "vsched")
	}
	// drop imports that became unused (time, runtime, context stay used in practice)
	for _, im := range append([]*ast.ImportSpec{}, f.Imports...) {
		p, _ := strconv.Unquote(im.Path.Value)
		if p == "time" || p == "runtime" {
			if !astutil.UsesImport(f, p) {
				astutil.DeleteImport(fset, f, p)
			}
		}
	}
}
