#!/bin/bash
# ./check.sh <ID> quick|thorough        run a check (exit 0 / 1 + VIOLATION line / 2 infrastructure)
# ./check.sh <ID> --replay <path>       re-run the case of a replay artefact
set -u
cd /verif
. ./env.sh
ID=${1:?property id}
MODE=${2:-quick}
export VERIF_TIER=${VERIF_TIER:-$MODE}
flavour=plain
case "$ID" in
  C13|C19) flavour=sched ;;
esac
BIN=/verif/.build/vcheck-$flavour
if [ -n "${VERIF_REPO:-}" ]; then BIN=/verif/.build/alt-$(echo "$VERIF_REPO" | md5sum | cut -c1-8)/vcheck-$flavour; mkdir -p $(dirname $BIN); fi
if ! ./build.sh "$flavour" "$BIN" >/verif/.build/build-$flavour-$ID.log 2>&1; then
  echo "INFRA: harness does not build against the current /repo tree (flavour $flavour); see /verif/.build/build-$flavour-$ID.log"
  tail -20 /verif/.build/build-$flavour-$ID.log
  exit 2
fi
if [ "$MODE" = "--replay" ]; then
  exec "$BIN" replay "$ID" "${3:?replay path}"
fi
exec "$BIN" run "$ID" "$MODE"
